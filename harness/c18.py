"""C18 — Staging and deployment never write outside their target directory.

Implementation under test (real code, in-process, inside a sandbox tree under a mkdtemp):
  A. experiment.model.data.StageReference(DataReference("data/…:extract|copy|link"), WorkingDirectory, graph)
     — the function Job.stageIn calls for every path reference (data.py 158-237); direct references are
     resolved by a stub root storage (`resolvePath`), everything else is the real code incl. tarfile.
  B. ExperimentPackage.packageFromLocation(<single-file FlowIR>, manifest=dict)  (real Manifest.validate) and
     ExperimentPackage.expandPackageToDirectory(instance_dir)  (storage.py 537-631).
Model: lean/St4sd/Model/Confine.lean via drv-c18 (repaired behaviour).  Theorems: lean/St4sd/Props/C18.lean,
counterexamples of the committed algorithm: lean/St4sd/Witness/C18.lean.

Sandbox (the model calls the root `/S`):
  /S/outside/{victim.txt, dir/keep.txt}           must never change
  /S/instance/data/…                               archives and copy/link sources
  /S/instance/stages/stage0/comp                   working directory of the component (extract/copy/link target)
  /S/pkg/{wf.yaml, src1/f, src2/f, file.txt}       package + manifest sources (must never change)
  /S/inst/new.instance                             instance directory (deployment target)
The real root is 9 directories below the mkdtemp so that even the escapes of the committed code stay inside it;
additionally every generated case is first run through the model of the *committed* algorithm and dropped when
its write log leaves /S.
"""
from __future__ import annotations

import hashlib
import io
import logging
import os
import shutil
import tarfile
import tempfile
import warnings

from harness import common

PAD = "p1/p2/p3/p4/p5/p6/p7/p8/R"
WD = "instance/stages/stage0/comp"
INST = "inst/new.instance"
NAMES = ["a", "b", "c", "d", "keep.txt", "sub", "x.txt", "l"]


# ----------------------------------------------------------------------------------------
# real-code side
# ----------------------------------------------------------------------------------------

_mods = {}


def _imports():
    if not _mods:
        warnings.filterwarnings("ignore")
        import experiment.model.data as D
        import experiment.model.graph as G
        import experiment.model.storage as ST
        import experiment.model.errors as E
        import experiment.model.frontends.flowir as F
        logging.disable(logging.CRITICAL)
        _mods.update(D=D, G=G, ST=ST, E=E, F=F)
    return _mods


class _RootStorage:
    def __init__(self, loc):
        self.loc = loc

    def resolvePath(self, p):
        return os.path.normpath(os.path.join(self.loc, p))


class _Graph:
    """Stub of WorkflowGraph for *direct* references: no component nodes, no placeholders."""

    class graph:
        nodes = {}

    _placeholders = {}

    def __init__(self, loc):
        self.rootStorage = _RootStorage(loc)


class Sandbox:
    def __init__(self, base):
        self.base = base
        self.root = os.path.join(base, PAD)

    def reset(self, pre=()):
        if os.path.lexists(os.path.join(self.base, "p1")):
            shutil.rmtree(os.path.join(self.base, "p1"))
        r = self.root
        for d in ("outside/dir", "instance/data/d1", WD, "pkg/src1", "pkg/src2", INST):
            os.makedirs(os.path.join(r, d))
        for f, c in (("outside/victim.txt", "victim"), ("outside/dir/keep.txt", "keep"), ("instance/data/f1.txt", "f1"),
                     ("instance/data/d1/f", "d1f"), ("pkg/src1/f", "s1"), ("pkg/src2/f", "s2"),
                     ("pkg/file.txt", "pf"),
                     ("pkg/wf.yaml", "components:\n- name: c\n  command:\n    executable: ls\n")):
            with open(os.path.join(r, f), "w") as fh:
                fh.write(c)
        for kind, rel, tgt in pre:
            p = os.path.join(r, rel)
            if kind == "dir":
                os.makedirs(p, exist_ok=True)
            elif kind == "file":
                os.makedirs(os.path.dirname(p), exist_ok=True)
                with open(p, "w") as fh:
                    fh.write("pre")
            else:
                os.makedirs(os.path.dirname(p), exist_ok=True)
                os.symlink(tgt, p)

    def real(self, s):
        """model path (/S/…) or $R-prefixed text -> real text"""
        return s.replace("$R", self.root)

    def canon(self, s):
        return s.replace(self.root, "/S")

    def snapshot(self):
        """recursive listing of the sandbox root: rel -> (kind, link target, size, sha1, mtime_ns, mode)"""
        out = {}
        for d, ds, fs in os.walk(self.root):
            for n in list(ds) + fs:
                p = os.path.join(d, n)
                rel = os.path.relpath(p, self.root)
                st = os.lstat(p)
                if os.path.islink(p):
                    out[rel] = ("link", os.readlink(p), 0, "", st.st_mtime_ns, 0)
                elif os.path.isdir(p):
                    out[rel] = ("dir", "", 0, "", st.st_mtime_ns, st.st_mode & 0o7777)
                else:
                    with open(p, "rb") as fh:
                        h = hashlib.sha1(fh.read()).hexdigest()[:12]
                    out[rel] = ("file", "", st.st_size, h, st.st_mtime_ns, st.st_mode & 0o7777)
        return out


def norm_text(t):
    """the model's parse of a path text: '' and '.' components vanish"""
    ab = t.startswith("/")
    segs = [s for s in t.split("/") if s not in ("", ".")]
    return ("/" if ab else "") + "/".join(segs)


def tree_of(sb, snap):
    rows = [["/S", "dir", ""]]
    for rel, v in snap.items():
        rows.append(["/S/" + rel, v[0], norm_text(sb.canon(v[1])) if v[0] == "link" else ""])
    return sorted(rows)


def fs_rows(sb, snap):
    return [[p, k, t] for p, k, t in tree_of(sb, snap)]


def changed_outside(before, after, inside_rel):
    """paths outside `inside_rel` whose listing entry differs (created, removed or modified)"""
    bad = []
    pre = inside_rel + "/"
    for rel in sorted(set(before) | set(after)):
        if rel == inside_rel or rel.startswith(pre):
            continue
        if before.get(rel) != after.get(rel):
            bad.append([rel, list(before[rel][:4]) if rel in before else None, list(after[rel][:4]) if rel in after else None])
    return bad


def make_tar(path, members, sb):
    with tarfile.open(path, "w") as t:
        for kind, name, tgt in members:
            ti = tarfile.TarInfo(sb.real(name))
            ti.mtime = 1000000000
            if kind == "file":
                data = b"from-archive"
                ti.size = len(data)
                t.addfile(ti, io.BytesIO(data))
            elif kind == "dir":
                ti.type = tarfile.DIRTYPE
                ti.mode = 0o755
                t.addfile(ti)
            elif kind == "sym":
                ti.type = tarfile.SYMTYPE
                ti.linkname = sb.real(tgt)
                t.addfile(ti)
            else:
                ti.type = tarfile.LNKTYPE
                ti.linkname = sb.real(tgt)
                t.addfile(ti)


def classify_stage_exc(exc):
    M = _imports()
    if isinstance(exc, M["E"].DataReferenceCouldNotStageError):
        return "rejected" if "outside of destination" in str(exc) else "os"
    if isinstance(exc, M["E"].DataReferenceFilesDoNotExistError):
        return "missing"
    if isinstance(exc, KeyError) and "linkname" in str(exc):
        return "linkMissing"
    return "other:" + type(exc).__name__


def impl_stage(sb, case):
    """runs the real StageReference; returns (result, before, after)"""
    M = _imports()
    sb.reset(case.get("pre", ()))
    r = sb.root
    if case["op"] == "extract":
        make_tar(os.path.join(r, "instance/data/a.tar"), case["members"], sb)
        ref = "data/a.tar:extract"
    else:
        ref = case["ref"]
    before = sb.snapshot()
    try:
        dref = M["G"].DataReference(ref)
        loc = M["ST"].WorkingDirectory(os.path.join(r, WD))
        M["D"].StageReference(dref, loc, _Graph(os.path.join(r, "instance")))
        res = "ok"
    except Exception as exc:  # noqa
        res = classify_stage_exc(exc)
    after = sb.snapshot()
    return res, before, after


def classify_deploy_exc(exc):
    M = _imports()
    E = M["E"]
    txt = str(exc)
    if isinstance(exc, (E.FlowIRManifestException,)):
        return "rejected"
    if isinstance(exc, E.ExperimentInvalidConfigurationError):
        return "rejected"   # the FlowIR itself is valid by construction: only the manifest can be refused
    if isinstance(exc, ValueError) and "Manifest" in txt:
        return "rejected"
    if isinstance(exc, (E.PackageCreateError, E.InstanceCreateError)):
        return "os"
    return "other:" + type(exc).__name__


def impl_deploy(sb, case):
    M = _imports()
    ST = M["ST"]
    sb.reset(())
    r = sb.root
    yml = os.path.join(r, "pkg/wf.yaml")
    manifest = {sb.real(k): sb.real(v) for k, v in case["entries"]}
    before = sb.snapshot()
    cwd = os.getcwd()
    try:
        if case["validate"]:
            pkg = ST.ExperimentPackage.packageFromLocation(yml, manifest=dict(manifest))
        else:
            base = ST.ExperimentPackage.packageFromLocation(yml, manifest=None)
            pkg = ST.ExperimentPackage(base.configuration, dict(manifest))
        pkg.expandPackageToDirectory(os.path.join(r, INST))
        res = "ok"
    except Exception as exc:  # noqa
        res = classify_deploy_exc(exc)
    finally:
        os.chdir(cwd)
    after = sb.snapshot()
    return res, before, after


# ----------------------------------------------------------------------------------------
# model requests
# ----------------------------------------------------------------------------------------

def model_request(case, fs, fixed=True):
    if case["op"] == "extract":
        return {"op": "extract", "fixed": fixed, "dest": "/S/" + WD, "fs": fs,
                "members": [[k, n.replace("$R", "/S"), t.replace("$R", "/S")] for k, n, t in case["members"]]}
    if case["op"] == "deploy":
        ents = []
        for k, v in case["entries"]:
            src, _, meth = v.rpartition(":")
            if meth not in ("copy", "link") or not src:
                src, meth = v, "copy"
            src = src.replace("$R", "/S")
            if not src.startswith("/"):
                src = "/S/pkg/" + src
            ents.append([k.replace("$R", "/S"), src, meth])
        return {"op": "deploy", "fixed": fixed, "validate": case["validate"], "target": "/S/" + INST, "fs": fs,
                "entries": ents, "confIsKey": any(k == "conf" for k, _ in case["entries"])}
    ref, _, meth = case["ref"].rpartition(":")
    # the reference text the modelled branch receives is what the real DataReference resolves to
    M = _imports()
    full = M["G"].DataReference(case["ref"]).resolve(_Graph("/S/instance"))
    if meth == "link":
        return {"op": "link", "dest": "/S/" + WD, "fs": fs, "ref": full}
    return {"op": "copy", "dest": "/S/" + WD, "fs": fs, "ref": full, "kind": case["kind"]}


def initial_fs(sb, case):
    sb.reset(case.get("pre", ()))
    if case["op"] == "extract":
        with open(os.path.join(sb.root, "instance/data/a.tar"), "w") as fh:
            fh.write("")
    return fs_rows(sb, sb.snapshot())


# ----------------------------------------------------------------------------------------
# generators
# ----------------------------------------------------------------------------------------

UP6 = "../../../../"   # from the working directory up to /S


def gen_name(rng, depth=None):
    n = depth or rng.choice([1, 1, 2, 2, 3])
    return "/".join(rng.choice(NAMES) for _ in range(n))


def decorate(rng, name):
    r = rng.random()
    if r < 0.08:
        return "./" + name
    if r < 0.12:
        return name.replace("/", "//", 1)
    if r < 0.16:
        return name.replace("/", "/./", 1)
    if r < 0.2:
        return "$R/" + WD + "/" + name
    return name


def gen_benign_members(rng, n):
    """descending archive: dirs, files, links that stay in their directory or below, hard links to earlier files"""
    ms = []
    files = []
    for _ in range(n):
        k = rng.choice(["file", "file", "file", "dir", "sym", "hard"])
        name = gen_name(rng)
        if k == "file":
            ms.append(["file", decorate(rng, name), ""])
            files.append(name)
        elif k == "dir":
            ms.append(["dir", decorate(rng, name) + rng.choice(["", "/"]), ""])
        elif k == "sym":
            ms.append(["sym", name, gen_name(rng, rng.choice([1, 2]))])
        elif files:
            ms.append(["hard", name, rng.choice(files)])
        else:
            ms.append(["hard", name, "nosuch-" + rng.choice(NAMES)])
    if rng.random() < 0.3:
        ms.insert(0, ["dir", rng.choice([".", "./"]), ""])
    return ms


def gen_hostile(rng):
    """templates that certainly leave the working directory when extracted naively (planted=True)"""
    t = rng.choice(["parent", "parent-mid", "abs-dest-parent", "sym-file", "sym-chain", "sym-abs", "hard-victim",
                    "shallow-link", "sym-dir-attrs", "abs-outside", "sym-outside-only"])
    esc = rng.choice(["escaped.txt", "e/escaped.txt", "outside/new.txt"])
    ups = "../" * rng.randint(1, 3)
    if t == "parent":
        ms = [["file", ups + esc, ""]]
    elif t == "parent-mid":
        ms = [["file", gen_name(rng, 1) + "/../" + ups + esc, ""]]
    elif t == "abs-dest-parent":
        ms = [["file", "$R/" + WD + "/" + ups + esc, ""]]
    elif t == "sym-file":
        ms = [["sym", "l", ups.rstrip("/")], ["file", "l/" + esc, ""]]
    elif t == "sym-chain":
        ms = [["sym", "l1", "l2"], ["sym", "l2", ups.rstrip("/")], ["file", "l1/" + esc, ""]]
    elif t == "sym-abs":
        ms = [["sym", "l", "$R/outside"], ["file", "l/new.txt", ""]]
    elif t == "hard-victim":
        ms = [["hard", "h", UP6 + "outside/victim.txt"], ["file", "h", ""]]
    elif t == "shallow-link":
        ms = [["dir", "a/b", ""], ["sym", "a/b/c", "../.."], ["file", "a/b/c/../" + esc, ""]]
    elif t == "sym-dir-attrs":
        ms = [["sym", "l", UP6 + "outside/dir"], ["dir", "l", ""], ["file", "l/new.txt", ""]]
    elif t == "abs-outside":
        ms = [["file", "$R/outside/abs.txt", ""]]
    else:
        ms = [["sym", "l", UP6 + "outside"]]
    planted = t not in ("abs-outside", "sym-outside-only")
    pre = gen_benign_members(rng, rng.randint(0, 3))
    post = gen_benign_members(rng, rng.randint(0, 2))
    # benign members must not shadow the planted names
    pre = [m for m in pre if not m[1].lstrip("./").startswith(("l", "h", "a"))]
    return t, pre + ms + post, planted


def gen_random_members(rng, n):
    ms = []
    for _ in range(n):
        k = rng.choice(["file", "file", "dir", "sym", "hard"])
        name = gen_name(rng)
        if rng.random() < 0.25:
            parts = name.split("/")
            parts.insert(rng.randint(0, len(parts)), "..")
            name = "/".join(parts)
        tgt = ""
        if k in ("sym", "hard"):
            tgt = gen_name(rng, rng.choice([1, 2]))
            r = rng.random()
            if r < 0.3:
                tgt = "../" * rng.randint(1, 2) + tgt
            elif r < 0.4:
                tgt = "$R/" + rng.choice(["outside", "outside/dir", WD, WD + "/sub"])
        ms.append([k, decorate(rng, name), tgt])
    return ms


def gen_pre(rng):
    pre = []
    if rng.random() < 0.5:
        pre.append(("file", WD + "/keep.txt", ""))
    if rng.random() < 0.4:
        pre.append(("dir", WD + "/sub", ""))
    if rng.random() < 0.2:
        pre.append(("link", WD + "/l", "sub"))
    return pre


def gen_extract_case(rng):
    r = rng.random()
    if r < 0.4:
        ms = gen_benign_members(rng, rng.randint(1, 7))
        return {"op": "extract", "class": "benign", "members": ms, "planted": False, "pre": gen_pre(rng)}
    if r < 0.75:
        t, ms, planted = gen_hostile(rng)
        return {"op": "extract", "class": "hostile:" + t, "members": ms, "planted": planted, "pre": gen_pre(rng)}
    ms = gen_random_members(rng, rng.randint(1, 6))
    return {"op": "extract", "class": "random", "members": ms, "planted": False, "pre": gen_pre(rng)}


KEYS = ["a", "b", "data", "conf", "x"]


def gen_key(rng):
    n = rng.choice([1, 1, 1, 2, 2, 3])
    parts = [rng.choice(KEYS) for _ in range(n)]
    r = rng.random()
    if r < 0.18:
        parts.insert(rng.randint(0, len(parts)), "..")
    elif r < 0.22:
        parts = ["..", ".."] + parts
    elif r < 0.27:
        return "$R/outside/" + "/".join(parts)
    elif r < 0.32:
        return "./" + "/".join(parts)
    elif r < 0.36 and len(parts) > 1:
        return "//".join(parts)
    return "/".join(parts)


def gen_source(rng, key_is_file_ok):
    src = rng.choice(["src1", "src2", "$R/pkg/src1", "src1"])
    meth = rng.choice([":copy", ":link", ":link", ""])
    if meth == ":link":
        r = rng.random()
        if r < 0.15:
            src = "file.txt"
        elif r < 0.25:
            src = "nosrc"
    return src + meth


def gen_deploy_case(rng):
    r = rng.random()
    if r < 0.25:
        # templates of the known escapes + near misses
        t = rng.choice(["parent", "nested-under-link", "conf-link", "conf-file-link", "up-through-link", "nested-copy"])
        if t == "parent":
            ents = [["../" * rng.randint(1, 2) + rng.choice(KEYS), "src1" + rng.choice(["", ":copy", ":link"])]]
        elif t == "nested-under-link":
            ents = [["a", "src1:link"], ["a/" + rng.choice(KEYS), "src2" + rng.choice(["", ":copy", ":link"])]]
        elif t == "conf-link":
            ents = [["conf", "src1:link"]]
        elif t == "conf-file-link":
            ents = [["conf", "src1:copy"], ["conf/flowir_package.yaml", "file.txt:link"]]
        elif t == "up-through-link":
            ents = [["a", "src1:link"], ["a/../x", "src2:copy"]]
        else:
            ents = [["a/b/c", "src1"], ["a/b/d", "src2:link"], ["data", "src2:copy"]]
        cls = "template:" + t
    else:
        ents = []
        seen = set()
        for _ in range(rng.randint(1, 4)):
            k = gen_key(rng)
            if k in seen:
                continue
            seen.add(k)
            ents.append([k, gen_source(rng, True)])
        cls = "random"
    return {"op": "deploy", "class": cls, "entries": ents, "validate": rng.random() < 0.6}


def gen_copylink_case(rng):
    kind = rng.choice(["file", "dir"])
    meth = rng.choice(["copy", "copy", "link", "copyout"])
    ref = "data/f1.txt" if kind == "file" else rng.choice(["data/d1", "data/d1", "data/d1/"])
    pre = []
    r = rng.random()
    base = "f1.txt" if kind == "file" else "d1"
    if r < 0.2:
        pre.append(("file", WD + "/" + base, ""))
    elif r < 0.3:
        pre.append(("dir", WD + "/" + base, ""))
    elif r < 0.45:
        pre.append(("dir", WD + "/sub", ""))
        pre.append(("link", WD + "/" + base, "sub/through.txt"))
    return {"op": "stage", "class": meth + ":" + kind, "ref": ref + ":" + meth, "kind": kind, "pre": pre}


CORPUS = [
    {"op": "extract", "class": "corpus:C18a ../escaped.txt", "members": [["file", "../escaped.txt", ""]], "planted": True, "pre": []},
    {"op": "extract", "class": "corpus:C18b symlink+file", "members": [["sym", "l", ".."], ["file", "l/escaped.txt", ""]], "planted": True, "pre": []},
    {"op": "extract", "class": "corpus:C18b' hardlink+file", "members": [["hard", "h", UP6 + "outside/victim.txt"], ["file", "h", ""]], "planted": True, "pre": []},
    {"op": "extract", "class": "corpus:shallow link + ..", "members": [["dir", "a/b", ""], ["sym", "a/b/c", "../.."], ["file", "a/b/c/../escaped.txt", ""]], "planted": True, "pre": []},
    {"op": "extract", "class": "corpus:benign", "members": [["dir", "d", ""], ["file", "d/x", ""], ["sym", "l", "d"], ["file", "l/y", ""], ["hard", "h", "d/x"], ["file", "h", ""]], "planted": False, "pre": []},
    {"op": "deploy", "class": "corpus:C18c ../x", "entries": [["../x", "src1"]], "validate": True},
    {"op": "deploy", "class": "corpus:C18d nested under link", "entries": [["a", "src1:link"], ["a/b", "src2:copy"]], "validate": True},
    {"op": "deploy", "class": "corpus:C18e conf link", "entries": [["conf", "src1:link"]], "validate": True},
    {"op": "deploy", "class": "corpus:conf file link", "entries": [["conf", "src1:copy"], ["conf/flowir_package.yaml", "file.txt:link"]], "validate": False},
    {"op": "deploy", "class": "corpus:benign", "entries": [["a/b", "src1"], ["k", "src2:link"]], "validate": True},
]


# ----------------------------------------------------------------------------------------
# checking
# ----------------------------------------------------------------------------------------

def inside_rel(case):
    return INST if case["op"] == "deploy" else WD


def strip_case(case):
    return {k: v for k, v in case.items()}


def run_cases(ctx, sb, cases):
    # 1. initial listings + model answers (repaired model; committed-algorithm model as safety filter)
    fss = [initial_fs(sb, c) for c in cases]
    fixed = ctx.model([model_request(c, fs, True) for c, fs in zip(cases, fss)])
    old = None
    if fixed is not None:
        reqs = [model_request(c, fs, False) for c, fs in zip(cases, fss) if c["op"] != "stage"]
        outs = iter(ctx.model(reqs))
        old = [next(outs) if c["op"] != "stage" else None for c in cases]
    for i, case in enumerate(cases):
        if old is not None and old[i] is not None:
            if any(not (p == "/S" or p.startswith("/S/")) for p in old[i]["log"]):
                ctx.tag("dropped:would-leave-sandbox")
                continue
        if case["op"] == "deploy":
            res, before, after = impl_deploy(sb, case)
        else:
            res, before, after = impl_stage(sb, case)
        bad = changed_outside(before, after, inside_rel(case))
        nontrivial = (len(case.get("members", case.get("entries", [1]))) >= 1) and (res != "missing")
        tags = ["op:" + case["op"], "class:" + case["class"].split(" ")[0], "impl:" + res]
        if after != before:
            tags.append("effect:changed-something")
        ctx.case(strip_case(case), nontrivial=nontrivial, tags=tags)
        # oracle (model independent): nothing outside the target changes; planted escapes are rejected
        if bad:
            ctx.fail(case["op"] + "-writes-outside-" + ("instance-directory" if case["op"] == "deploy" else "working-directory"),
                     strip_case(case), {"result": res, "changed_outside": bad[:6]})
        elif res.startswith("other:") and (case.get("planted") or case["op"] == "deploy"):
            ctx.fail(case["op"] + "-raises-" + res.split(":", 1)[1] + "-instead-of-staging-or-packaging-error",
                     strip_case(case), {"result": res})
        if fixed is not None:
            m = fixed[i]
            ctx.tag("model:" + m["result"])
            if m["result"] == "linkConflict" or (m["result"] == "linkMissing" and hard_target_is_earlier_member(case)):
                # tarfile's copy-instead-of-link fallback (not modelled): oracle only
                ctx.tag("not-compared:tarfile-link-fallback")
                continue
            ctx.compare("(result, tree under /S) == Confine model (repaired)", strip_case(case),
                        {"result": m["result"], "tree": m["tree"]},
                        {"result": res, "tree": tree_of(sb, after)})
            # the model's log must cover what really changed (names created / content or link text modified)
            changed = sorted("/S/" + rel for rel in set(before) | set(after)
                             if before.get(rel, (None,))[:4] != after.get(rel, (None,))[:4])
            missing = [p for p in changed if p not in m["log"]]
            ctx.compare("changed entries ⊆ model log", strip_case(case), {"unlogged": []}, {"unlogged": missing})


def hard_target_is_earlier_member(case):
    """a hard link member whose target is not on disk but names an earlier member: tarfile extracts a copy of
    that member instead (TarFile._find_link_target), which the model does not describe"""
    seen = set()
    for k, n, t in case.get("members", ()):
        if k == "hard" and os.path.normpath(t) in seen:
            return True
        seen.add(os.path.normpath(n.replace("$R/" + WD + "/", "")))
    return False


def shrinker_factory(sb):
    def shrink(what, case):
        key = "members" if case["op"] == "extract" else ("entries" if case["op"] == "deploy" else None)
        if key is None:
            return case

        def still(items):
            if not items:
                return False
            c2 = dict(case)
            c2[key] = items
            if case["op"] == "deploy":
                _res, b, a = impl_deploy(sb, c2)
            else:
                _res, b, a = impl_stage(sb, c2)
            return bool(changed_outside(b, a, inside_rel(case)))
        if "writes-outside" not in what:
            return case
        c3 = dict(case)
        c3[key] = common.shrink_list(case[key], still, max_steps=60)
        c3["pre"] = case.get("pre", [])
        return c3
    return shrink


CLASSIFIERS = {}


def run(ctx):
    ctx.rule = ("cases = (a) tar archives of 1-12 members (file/dir/symlink/hardlink; names with parent segments at any "
                "position, absolute names under and outside the working directory, ./ and // spellings; link targets "
                "relative, with parent segments, absolute; 11 escape templates incl. link chains, hard link to a file "
                "outside, link to the working directory itself followed by ..; benign descending archives; random mixes) "
                "extracted by the real StageReference into a working directory with optional existing content; "
                "(b) manifests of 1-4 entries (keys nested / with .. / absolute / ./ and //; copy and link methods; "
                "directory, file and missing sources; keys nested under linked keys; conf linked) loaded with the real "
                "Manifest.validate (or not) and deployed by the real expandPackageToDirectory; (c) copy/copyout/link "
                "staging of a file or directory with existing same-name file/dir/link. non-trivial = the operation "
                "reached the code under test (reference exists); distinct by canonical JSON of the case. Every case: "
                "full recursive listing (kind, link text, size, sha1, mtime, mode) of the sandbox before/after.")
    ctx.assumptions = [
        "sandbox paths are real (no symlinked /tmp): location.path == realpath(location.path)",
        "hard link members name only earlier regular-file members or names absent from the archive (tarfile's "
        "copy-instead-of-link fallback is not modelled)",
        "link chains stay far below the kernel limit of 40 / the model fuel of 96 steps",
        "manifest sources: directories holding one file `f`, one regular file, or missing (link only)",
    ]
    ctx.trusted.append("C18: tarfile.extractall (fully_trusted filter of Python 3.12), shutil.copytree/copy/copyfile, "
                       "os.symlink/os.link/os.makedirs, os.path.realpath path semantics as modelled in Model/Confine.lean "
                       "(resolve/descend/walk); exercised by the tree comparison on every case")
    ctx.trusted.append("C18: stub WorkflowGraph/root storage resolving direct references `data/...` (Job.stageIn's "
                       "dispatch over references is not driven, only the StageReference it calls)")
    rng = ctx.rng
    quick = ctx.tier == "quick"
    base = tempfile.mkdtemp(prefix="c18-")
    sb = Sandbox(base)
    ctx.shrinker = shrinker_factory(sb)
    try:
        cases = [dict(c) for c in CORPUS]
        n_ex, n_dep, n_cl = (500, 350, 80) if quick else (6000, 4000, 400)
        cases += [gen_extract_case(rng) for _ in range(n_ex)]
        cases += [gen_deploy_case(rng) for _ in range(n_dep)]
        cases += [gen_copylink_case(rng) for _ in range(n_cl)]
        run_cases(ctx, sb, cases)
    finally:
        shutil.rmtree(base, ignore_errors=True)


def replay(ctx, doc):
    if doc.get("input"):
        cases = [doc["input"]]
    else:
        cases = [b["input"] for b in doc["no_longer_checks"] if b.get("kind") == "correspondence"]
    base = tempfile.mkdtemp(prefix="c18-")
    try:
        run_cases(ctx, Sandbox(base), cases)
    finally:
        shutil.rmtree(base, ignore_errors=True)
