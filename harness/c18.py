"""C18 — Staging and deployment never write outside their target directory.

Implementation under test (real code, in-process, inside a sandbox tree under a mkdtemp):
  A. experiment.model.data.StageReference(DataReference("data/…:extract|copy|link"), WorkingDirectory, graph)
     — the function Job.stageIn calls for every path reference (data.py 158-237); direct references are
     resolved by a stub root storage (`resolvePath`), everything else is the real code incl. tarfile.
  B. ExperimentPackage.packageFromLocation(<single-file FlowIR>, manifest=dict)  (real Manifest.validate) and
     ExperimentPackage.expandPackageToDirectory(instance_dir)  (storage.py 537-631).
Model: lean/St4sd/Model/Confine.lean via drv-c18 (repaired behaviour).  Theorems: lean/St4sd/Props/C18.lean,
counterexamples of the committed algorithm: lean/St4sd/Witness/C18.lean.

Sandbox (the model calls the root `/S`):
  /S/outside/{victim.txt, dir/keep.txt}           must never change
  /S/instance/data/…                               archives and copy/link sources
  /S/instance/stages/stage0/comp                   working directory of the component (extract/copy/link target)
  /S/instance/stages/stage0/producer/out.txt       working directory of a producer component (link-staged input)
  /S/pkg/{wf.yaml, src1/f, src2/f, file.txt}       package + manifest sources (must never change)
  /S/inst/new.instance                             instance directory (deployment target)
  /S/inst/new.instance-shared, new.instance.bak, new.instance2, new.inst, new
                                                   siblings of the instance directory whose NAME extends it / is a
                                                   prefix of it (a textual prefix test without the separator takes
                                                   them for "beneath"): link sources of manifest entries
  /S/instance/stages/stage0/comp-x, compx, comp.bak, com
                                                   the same next to the working directory: absolute member names
                                                   and link targets of archives
The real root is 9 directories below the mkdtemp so that even the escapes of the committed code stay inside it;
additionally every generated case is first run through the model of *unchecked* extraction (the committed
algorithm; the driver goes on after members that fail, `looseExtract`) and dropped when its write log leaves /S.

Oracle slugs: `extract-writes-outside-working-directory`, `deploy-writes-outside-instance-directory`,
`<op>-raises-<Exc>-instead-of-staging-or-packaging-error`, and `extract-writes-through-staged-link` (archive that
obeys the documented rule, every outside change under the target of a link that link-staging of another input
left in the working directory — known finding C18-extract-through-staged-link, classifier
`c18_extract_through_staged_link`).

Round 3 additions:
  * manifest keys as TEXT (`Model/C18Keys.lean`): alias spellings of one entry (`k`, `k/`, `./k`, `k//`, `k/.`, `k/./`),
    a link entry followed by a copy entry onto the same entry, instance directories that already hold links, and
    HISTORIES of deployments into the same instance directory (deploy, change the manifest — link -> copy, other
    spelling, other order — deploy again).  Oracle: nothing outside the instance directory changes over the whole
    history; a manifest that copies onto a link leading outside is answered with an error
    (`deploy-accepts-offending-manifest`).
  * two components staging archives at the same time (`Model/C18Stagers.lean`): two real StageReference(...:extract)
    calls in two threads under a deterministic cooperative scheduler (`Sched`) that switches threads only at the
    hooked boundaries (os.chdir / os.fchdir / os.umask before+after, TarFile.extractall before+after, every
    TarFile._extract_member); schedules: sequential, all two-preemption schedules up to a bound, alternating, random
    (thorough: all interleavings of the grants a sequential run needs).  Oracle: nothing changes outside the two
    working directories, each working directory ends exactly as after staging its own archive alone, the process
    cwd is what it was (`concurrent-extract-writes-outside-own-working-directory`,
    `concurrent-extract-misses-own-members`, `staging-changes-process-cwd`).
  * a sample of the cases is run again at the end, in another order (`result-depends-on-earlier-cases`); a third of
    the cases run with the process cwd inside the sandbox.

Families the extract generator covers (tags `class:…`, `family:…` in the evidence): benign, 11 single-idea
escape templates, random mixes, and link chains (`gen_chain`): links placed through earlier links, hard links to
earlier links, targets through earlier links — the archives on which a check that judges every member on its
own text (e.g. normpath of the link target) is unsound, see Witness/C18.lean `normpath_link_rule_unsound_*`.
`family:textually-confined-link-chain-escapes` counts the generated archives that such a check would accept
(model: `checkNormpath`) and that leave the working directory when extracted unchecked.
"""
from __future__ import annotations

import hashlib
import io
import logging
import os
import shutil
import tarfile
import tempfile
import threading
import time
import warnings
import itertools
import json

from harness import common

PAD = "p1/p2/p3/p4/p5/p6/p7/p8/R"
WD = "instance/stages/stage0/comp"
INST = "inst/new.instance"
WD2 = "instance/stages/stage0/other"        # working directory of a second component staging at the same time
CWD = "cwd"                                 # neutral process cwd inside the sandbox
PRODUCER = "instance/stages/stage0/producer"
NAMES = ["a", "b", "c", "d", "keep.txt", "sub", "x.txt", "l"]
# siblings whose name has the target's name as a proper prefix (and one that is a proper prefix of it)
SIB_SUFFIXES = ["-x", "x", ".bak"]
WD_SIBLINGS = [WD + s for s in SIB_SUFFIXES] + [WD[:-1]]
INST_SIB_SUFFIXES = ["-shared", ".bak", "2"]
INST_SIBLINGS = [INST + s for s in INST_SIB_SUFFIXES] + ["inst/new.inst", "inst/new"]


# ----------------------------------------------------------------------------------------
# real-code side
# ----------------------------------------------------------------------------------------

_mods = {}


def _imports():
    if not _mods:
        warnings.filterwarnings("ignore")
        import experiment.model.data as D
        import experiment.model.graph as G
        import experiment.model.storage as ST
        import experiment.model.errors as E
        import experiment.model.frontends.flowir as F
        logging.disable(logging.CRITICAL)
        _mods.update(D=D, G=G, ST=ST, E=E, F=F)
    return _mods


class _RootStorage:
    def __init__(self, loc):
        self.loc = loc

    def resolvePath(self, p):
        return os.path.normpath(os.path.join(self.loc, p))


class _Graph:
    """Stub of WorkflowGraph for *direct* references: no component nodes, no placeholders."""

    class graph:
        nodes = {}

    _placeholders = {}

    def __init__(self, loc):
        self.rootStorage = _RootStorage(loc)


class Sandbox:
    def __init__(self, base):
        self.base = base
        self.root = os.path.join(base, PAD)

    def reset(self, pre=()):
        if os.path.lexists(os.path.join(self.base, "p1")):
            shutil.rmtree(os.path.join(self.base, "p1"))
        r = self.root
        for d in ("outside/dir", "instance/data/d1", PRODUCER, WD, WD2, CWD, "pkg/src1", "pkg/src2", INST):
            os.makedirs(os.path.join(r, d))
        for d in WD_SIBLINGS + INST_SIBLINGS:
            os.makedirs(os.path.join(r, d, "sub"))
            with open(os.path.join(r, d, "keep.txt"), "w") as fh:
                fh.write("sibling")
        for f, c in (("outside/victim.txt", "victim"), ("outside/dir/keep.txt", "keep"), ("instance/data/f1.txt", "f1"),
                     ("instance/data/d1/f", "d1f"), (PRODUCER + "/out.txt", "out"), ("pkg/src1/f", "s1"), ("pkg/src2/f", "s2"),
                     ("pkg/file.txt", "pf"),
                     ("pkg/wf.yaml", "components:\n- name: c\n  command:\n    executable: ls\n")):
            with open(os.path.join(r, f), "w") as fh:
                fh.write(c)
        for kind, rel, tgt in pre:
            p = os.path.join(r, rel)
            if kind == "dir":
                os.makedirs(p, exist_ok=True)
            elif kind == "file":
                os.makedirs(os.path.dirname(p), exist_ok=True)
                with open(p, "w") as fh:
                    fh.write("pre")
            else:
                os.makedirs(os.path.dirname(p), exist_ok=True)
                os.symlink(self.real(tgt), p)

    def real(self, s):
        """model path (/S/…) or $R-prefixed text -> real text"""
        return s.replace("$R", self.root)

    def canon(self, s):
        return s.replace(self.root, "/S")

    def snapshot(self):
        """recursive listing of the sandbox root: rel -> (kind, link target, size, sha1, mtime_ns, mode)"""
        out = {}
        for d, ds, fs in os.walk(self.root):
            for n in list(ds) + fs:
                p = os.path.join(d, n)
                rel = os.path.relpath(p, self.root)
                st = os.lstat(p)
                if os.path.islink(p):
                    out[rel] = ("link", os.readlink(p), 0, "", st.st_mtime_ns, 0)
                elif os.path.isdir(p):
                    out[rel] = ("dir", "", 0, "", st.st_mtime_ns, st.st_mode & 0o7777)
                else:
                    with open(p, "rb") as fh:
                        h = hashlib.sha1(fh.read()).hexdigest()[:12]
                    out[rel] = ("file", "", st.st_size, h, st.st_mtime_ns, st.st_mode & 0o7777)
        return out


def norm_text(t):
    """the model's parse of a path text: '' and '.' components vanish"""
    ab = t.startswith("/")
    segs = [s for s in t.split("/") if s not in ("", ".")]
    return ("/" if ab else "") + "/".join(segs)


def tree_of(sb, snap):
    rows = [["/S", "dir", ""]]
    for rel, v in snap.items():
        rows.append(["/S/" + rel, v[0], norm_text(sb.canon(v[1])) if v[0] == "link" else ""])
    return sorted(rows)


def fs_rows(sb, snap):
    return [[p, k, t] for p, k, t in tree_of(sb, snap)]


def changed_outside(before, after, inside_rel):
    """paths outside `inside_rel` whose listing entry differs (created, removed or modified)"""
    bad = []
    pre = inside_rel + "/"
    for rel in sorted(set(before) | set(after)):
        if rel == inside_rel or rel.startswith(pre):
            continue
        if before.get(rel) != after.get(rel):
            bad.append([rel, list(before[rel][:4]) if rel in before else None, list(after[rel][:4]) if rel in after else None])
    return bad


def make_tar(path, members, sb, stamp=b"from-archive"):
    with tarfile.open(path, "w") as t:
        for kind, name, tgt in members:
            ti = tarfile.TarInfo(sb.real(name))
            ti.mtime = 1000000000
            if kind == "file":
                data = stamp
                ti.size = len(data)
                t.addfile(ti, io.BytesIO(data))
            elif kind == "dir":
                ti.type = tarfile.DIRTYPE
                ti.mode = 0o755
                t.addfile(ti)
            elif kind == "sym":
                ti.type = tarfile.SYMTYPE
                ti.linkname = sb.real(tgt)
                t.addfile(ti)
            else:
                ti.type = tarfile.LNKTYPE
                ti.linkname = sb.real(tgt)
                t.addfile(ti)


def classify_stage_exc(exc):
    M = _imports()
    if isinstance(exc, M["E"].DataReferenceCouldNotStageError):
        return "rejected" if "outside of destination" in str(exc) else "os"
    if isinstance(exc, M["E"].DataReferenceFilesDoNotExistError):
        return "missing"
    if isinstance(exc, KeyError) and "linkname" in str(exc):
        return "linkMissing"
    return "other:" + type(exc).__name__


def prepare(sb, case):
    """initial state of a staging case: the sandbox, the pre-existing entries of the working directory and, for
    `staged`, the inputs of the SAME component that were staged before the archive — done by the real
    StageReference (`data/d1:link` leaves the absolute link WD/d1 -> <instance>/data/d1, `:copy` a copy)."""
    M = _imports()
    sb.reset(case.get("pre", ()))
    for ref in case.get("staged", ()):
        M["D"].StageReference(M["G"].DataReference(ref), M["ST"].WorkingDirectory(os.path.join(sb.root, WD)),
                              _Graph(os.path.join(sb.root, "instance")))


def impl_stage(sb, case):
    """runs the real StageReference; returns (result, before, after)"""
    M = _imports()
    prepare(sb, case)
    r = sb.root
    if case["op"] == "extract":
        make_tar(os.path.join(r, "instance/data/a.tar"), case["members"], sb)
        ref = "data/a.tar:extract"
    else:
        ref = case["ref"]
    before = sb.snapshot()
    cwd0 = os.getcwd()
    if case.get("cwd"):
        os.chdir(os.path.join(r, CWD))          # ambient setting: the process cwd is somewhere inside the sandbox
    cwd1 = os.getcwd()
    try:
        dref = M["G"].DataReference(ref)
        loc = M["ST"].WorkingDirectory(os.path.join(r, WD))
        M["D"].StageReference(dref, loc, _Graph(os.path.join(r, "instance")))
        res = "ok"
    except Exception as exc:  # noqa
        res = classify_stage_exc(exc)
    finally:
        try:
            sb.cwd_moved = None if os.getcwd() == cwd1 else sb.canon(os.getcwd())
        except OSError:
            sb.cwd_moved = "<removed>"
        os.chdir(cwd0)
    after = sb.snapshot()
    return res, before, after


def classify_deploy_exc(exc):
    M = _imports()
    E = M["E"]
    txt = str(exc)
    if isinstance(exc, (E.FlowIRManifestException,)):
        return "rejected"
    if isinstance(exc, E.ExperimentInvalidConfigurationError):
        return "rejected"   # the FlowIR itself is valid by construction: only the manifest can be refused
    if isinstance(exc, ValueError) and "Manifest" in txt:
        return "rejected"
    if isinstance(exc, (E.PackageCreateError, E.InstanceCreateError)):
        return "os"
    return "other:" + type(exc).__name__


def deploy_steps(case):
    """the deployments of a case, oldest first: the earlier ones of its history, then the case's own manifest"""
    return [{"entries": h["entries"], "validate": h["validate"]} for h in case.get("history", ())] + \
           [{"entries": case["entries"], "validate": case["validate"]}]


def impl_deploy(sb, case):
    """all deployments of the case (its history, then its own manifest) by the real code into the same instance
    directory; returns (answer of the last one, listing before the first, listing after the last); the answers of
    all of them are left in sb.results"""
    M = _imports()
    ST = M["ST"]
    sb.reset(case.get("pre", ()))
    r = sb.root
    yml = os.path.join(r, "pkg/wf.yaml")
    before = sb.snapshot()
    cwd = os.getcwd()
    if case.get("cwd"):
        os.chdir(os.path.join(r, CWD))
    results = []
    try:
        for step in deploy_steps(case):
            manifest = {sb.real(k): sb.real(v) for k, v in step["entries"]}
            try:
                if step["validate"]:
                    pkg = ST.ExperimentPackage.packageFromLocation(yml, manifest=dict(manifest))
                else:
                    base = ST.ExperimentPackage.packageFromLocation(yml, manifest=None)
                    pkg = ST.ExperimentPackage(base.configuration, dict(manifest))
                pkg.expandPackageToDirectory(os.path.join(r, INST))
                results.append("ok")
            except Exception as exc:  # noqa
                results.append(classify_deploy_exc(exc))
    finally:
        os.chdir(cwd)
    sb.results = results
    after = sb.snapshot()
    return results[-1], before, after


# ----------------------------------------------------------------------------------------
# model requests
# ----------------------------------------------------------------------------------------

def model_request(case, fs, fixed=True):
    if case["op"] == "extract":
        return {"op": "extract", "fixed": fixed, "dest": "/S/" + WD, "fs": fs,
                "members": [[k, n.replace("$R", "/S"), t.replace("$R", "/S")] for k, n, t in case["members"]]}
    if case["op"] == "deploy":
        steps = []
        for step in deploy_steps(case):
            ents = []
            for k, v in step["entries"]:
                src, _, meth = v.rpartition(":")
                if meth not in ("copy", "link") or not src:
                    src, meth = v, "copy"
                src = src.replace("$R", "/S")
                if not src.startswith("/"):
                    src = "/S/pkg/" + src
                ents.append([k.replace("$R", "/S"), src, meth])       # the key goes to the model as TEXT
            steps.append({"entries": ents, "validate": step["validate"]})
        return {"op": "deploy", "fixed": fixed, "target": "/S/" + INST, "fs": fs, "steps": steps}
    ref, _, meth = case["ref"].rpartition(":")
    # the reference text the modelled branch receives is what the real DataReference resolves to
    M = _imports()
    full = M["G"].DataReference(case["ref"]).resolve(_Graph("/S/instance"))
    if meth == "link":
        return {"op": "link", "dest": "/S/" + WD, "fs": fs, "ref": full}
    return {"op": "copy", "dest": "/S/" + WD, "fs": fs, "ref": full, "kind": case["kind"]}


def initial_fs(sb, case):
    if case["op"] == "deploy":
        sb.reset(case.get("pre", ()))
    else:
        prepare(sb, case)
    if case["op"] == "extract":
        with open(os.path.join(sb.root, "instance/data/a.tar"), "w") as fh:
            fh.write("")
    return fs_rows(sb, sb.snapshot())


# ----------------------------------------------------------------------------------------
# generators
# ----------------------------------------------------------------------------------------

UP6 = "../../../../"   # from the working directory up to /S


def gen_name(rng, depth=None):
    n = depth or rng.choice([1, 1, 2, 2, 3])
    return "/".join(rng.choice(NAMES) for _ in range(n))


def decorate(rng, name):
    r = rng.random()
    if r < 0.08:
        return "./" + name
    if r < 0.12:
        return name.replace("/", "//", 1)
    if r < 0.16:
        return name.replace("/", "/./", 1)
    if r < 0.2:
        return "$R/" + WD + "/" + name
    if r < 0.23:
        # absolute name under a directory that only shares the working directory's name as a prefix
        return "$R/" + rng.choice(WD_SIBLINGS) + "/" + name
    return name


def gen_benign_members(rng, n):
    """descending archive: dirs, files, links that stay in their directory or below, hard links to earlier files"""
    ms = []
    files = []
    for _ in range(n):
        k = rng.choice(["file", "file", "file", "dir", "sym", "hard"])
        name = gen_name(rng)
        if k == "file":
            ms.append(["file", decorate(rng, name), ""])
            files.append(name)
        elif k == "dir":
            ms.append(["dir", decorate(rng, name) + rng.choice(["", "/"]), ""])
        elif k == "sym":
            ms.append(["sym", name, gen_name(rng, rng.choice([1, 2]))])
        elif files:
            ms.append(["hard", name, rng.choice(files)])
        else:
            ms.append(["hard", name, "nosuch-" + rng.choice(NAMES)])
    if rng.random() < 0.3:
        ms.insert(0, ["dir", rng.choice([".", "./"]), ""])
    return ms


def gen_hostile(rng):
    """templates that certainly leave the working directory when extracted naively (planted=True)"""
    t = rng.choice(["parent", "parent-mid", "abs-dest-parent", "sym-file", "sym-chain", "sym-abs", "hard-victim",
                    "shallow-link", "sym-dir-attrs", "abs-outside", "sym-outside-only",
                    "abs-sibling", "abs-sibling", "parent-sibling", "sym-abs-sibling", "sym-rel-sibling",
                    "hard-sibling", "abs-sibling-dir", "parent-other-wd", "abs-other-wd", "sym-other-wd"])
    sib = rng.choice(WD_SIBLINGS)                 # e.g. <working directory>-x
    sibname = sib.rsplit("/", 1)[1]
    esc = rng.choice(["escaped.txt", "e/escaped.txt", "outside/new.txt"])
    ups = "../" * rng.randint(1, 3)
    if t == "parent":
        ms = [["file", ups + esc, ""]]
    elif t == "parent-mid":
        ms = [["file", gen_name(rng, 1) + "/../" + ups + esc, ""]]
    elif t == "abs-dest-parent":
        ms = [["file", "$R/" + WD + "/" + ups + esc, ""]]
    elif t == "sym-file":
        ms = [["sym", "l", ups.rstrip("/")], ["file", "l/" + esc, ""]]
    elif t == "sym-chain":
        ms = [["sym", "l1", "l2"], ["sym", "l2", ups.rstrip("/")], ["file", "l1/" + esc, ""]]
    elif t == "sym-abs":
        ms = [["sym", "l", "$R/outside"], ["file", "l/new.txt", ""]]
    elif t == "hard-victim":
        ms = [["hard", "h", UP6 + "outside/victim.txt"], ["file", "h", ""]]
    elif t == "shallow-link":
        ms = [["dir", "a/b", ""], ["sym", "a/b/c", "../.."], ["file", "a/b/c/../" + esc, ""]]
    elif t == "sym-dir-attrs":
        ms = [["sym", "l", UP6 + "outside/dir"], ["dir", "l", ""], ["file", "l/new.txt", ""]]
    elif t == "abs-outside":
        ms = [["file", "$R/outside/abs.txt", ""]]
    elif t == "abs-sibling":
        # textually the name starts with the working directory's path (without the separator)
        ms = [["file", "$R/" + sib + "/" + rng.choice(["evil", "keep.txt", "sub/evil", "new/deep/evil"]), ""]]
    elif t == "abs-sibling-dir":
        ms = [["dir", "$R/" + sib + rng.choice(["", "/", "/newdir"]), ""], ["file", "$R/" + sib + "/newdir/evil", ""]]
    elif t == "parent-sibling":
        ms = [["file", "../" + sibname + "/" + rng.choice(["evil", "keep.txt"]), ""]]
    elif t == "sym-abs-sibling":
        ms = [["sym", "l", "$R/" + sib], ["file", "l/" + rng.choice(["new.txt", "keep.txt", "sub/new.txt"]), ""]]
    elif t == "sym-rel-sibling":
        ms = [["sym", "l", "../" + sibname], ["file", "l/new.txt", ""]]
    elif t == "hard-sibling":
        ms = [["hard", "h", rng.choice(["../" + sibname, "$R/" + sib]) + "/keep.txt"], ["file", "h", ""]]
    elif t == "parent-other-wd":
        # aimed at the working directory of ANOTHER component of the same stage
        ms = [["file", "../" + WD2.rsplit("/", 1)[1] + "/" + rng.choice(["evil", "sub/evil"]), ""]]
    elif t == "abs-other-wd":
        ms = [["file", "$R/" + WD2 + "/" + rng.choice(["evil", "sub/evil"]), ""]]
    elif t == "sym-other-wd":
        ms = [["sym", "l", rng.choice(["../" + WD2.rsplit("/", 1)[1], "$R/" + WD2])], ["file", "l/evil", ""]]
    else:
        ms = [["sym", "l", UP6 + "outside"]]
    planted = t not in ("abs-outside", "sym-outside-only", "abs-sibling", "abs-sibling-dir", "abs-other-wd")
    pre = gen_benign_members(rng, rng.randint(0, 3))
    post = gen_benign_members(rng, rng.randint(0, 2))
    # benign members must not shadow the planted names
    pre = [m for m in pre if not m[1].lstrip("./").startswith(("l", "h", "a"))]
    return t, pre + ms + post, planted


def _norm_rel(parts):
    """textual normal form of a relative component list; `..` survives only in front"""
    out = []
    for q in parts:
        if q in ("", "."):
            continue
        if q == ".." and out and out[-1] != "..":
            out.pop()
        else:
            out.append(q)
    return out


CH_DIRS = ["a", "b", "c", "d", "sub"]
CH_LINKS = ["s", "t", "esc", "l", "u"]


def gen_chain(rng):
    """link chains of depth 2-4: every link member after the first is placed THROUGH an earlier link member
    (the directory part of its name continues the name of an earlier link), or is a hard link to an earlier link
    (a second name of that link in another directory), or has a target that passes through an earlier link.
    No member name has a parent segment or is absolute and no link target is absolute.  Styles:
      confined   - every target has parent segments but is textually confined (normpath against the directory
                   of the name / the archive root stays under the destination)
      mid        - as confined, the parent segments come after a leading name (`d/../..`)
      overshoot  - one target leaves the destination already textually
      descending - no parent segment at all (accepted by the check; exercised through the links)
      mixed      - a random mix
    then files / directories / links beneath the last link.  `real` tracks, relative to the working directory,
    where the kernel puts things (leading `..` = outside): planted = the payload certainly lands outside when
    the archive is extracted unchecked."""
    depth = rng.randint(2, 4)
    style = rng.choice(["confined", "confined", "confined", "mid", "overshoot", "descending", "descending", "mixed"])
    k = rng.randint(1, 3)
    base = [rng.choice(CH_DIRS) for _ in range(k)]
    ms = []
    r = rng.random()
    if r < 0.35:
        ms.append(["dir", "/".join(base) + rng.choice(["", "/"]), ""])
    elif r < 0.5:
        ms.append(["file", "/".join(base + ["f0"]), ""])
    dirs_made = ["/".join(base[:i]) for i in range(1, k + 1)]
    cur = list(base)           # textual directory of the next link
    real = list(base)          # where that directory really is, relative to the working directory
    links = []                 # (textual name, real directory holding it, link text components)
    used = set()
    overshoot_at = rng.randrange(depth) if style == "overshoot" else -1
    replaced_dir = False
    for i in range(depth):
        n = rng.choice([x for x in CH_LINKS if x not in used] or CH_LINKS)
        used.add(n)
        st = style if style != "mixed" else rng.choice(["confined", "confined", "descending"])
        midp = 0.2
        if st == "mid":
            st, midp = "confined", 0.9
        kind = "sym"
        q = rng.random()
        if links and q < 0.2:
            kind = "hard"            # second name for an earlier link, in the directory reached so far
        elif links and q < 0.35 and st != "descending":
            kind = "via"             # symlink whose target goes through an earlier link and then up
        if i == 0 and rng.random() < 0.08 and len(cur) >= 1 and not replaced_dir:
            # directory replaced by a link: the link takes the name of a directory extracted just before
            ms.append(["dir", "/".join(cur + [n]), ""])
            if rng.random() < 0.5:
                ms.append(["file", "/".join(cur + [n, "in.txt"]), ""])
            replaced_dir = True
        if kind == "hard":
            lname, ldir, ltext = rng.choice(links)
            # sometimes at the archive root, so that the copied text means something else there
            if len(cur) > 1 and rng.random() < 0.5:
                cur, real = [], []
            ms.append(["hard", "/".join(cur + [n]), lname])
            text = ltext
        elif kind == "via":
            # placed at the archive root; target = an earlier link (by its textual name) followed by `..`:
            # textually that is the directory holding the earlier link or its parent, really it is above
            # whatever the earlier link points to
            lname, ldir, ltext = rng.choice(links)
            ups = rng.randint(1, 2)
            text = lname.split("/") + [".."] * ups
            cur, real = [], []
            ms.append(["sym", n, "/".join(text)])
            links.append((n, [], text))
            cur = [n]
            real = _norm_rel(_norm_rel(ldir + ltext) + [".."] * ups)
            continue
        else:
            if st == "descending":
                text = [rng.choice(CH_DIRS) for _ in range(rng.choice([1, 1, 2]))]
                if rng.random() < 0.3 and dirs_made and not real:
                    text = rng.choice(dirs_made).split("/")
                elif rng.random() < 0.7:
                    # make the target exist (created through the links so far)
                    ms.append(["dir", "/".join(cur + text), ""])
            else:
                room = len(cur)                      # textual depth of the directory holding the link
                if i == overshoot_at or room == 0:
                    u = room + rng.randint(1, 2)
                else:
                    u = rng.randint(1, min(room, 2))
                text = [".."] * u
                q2 = rng.random()
                if q2 < midp:
                    # parent segments in the middle of the text: first down into a directory that exists
                    # (created just before, through the links so far), then up past where the link is
                    down = rng.choice(CH_DIRS)
                    ms.append(["dir", "/".join(cur + [down]), ""])
                    text = [down, ".."] + text
                elif q2 < midp + 0.3:
                    text = text + [rng.choice(CH_DIRS)]
            ms.append(["sym", "/".join(cur + [n]), "/".join(text)])
        links.append(("/".join(cur + [n]), list(real), text))
        real = _norm_rel(real + text)
        cur = cur + [n]
        # now and then continue through names that really exist where the link leads
        if real and real[0] != ".." and rng.random() < 0.25 and "/".join(real) in dirs_made and len(real) < k:
            nxt = base[len(real)]
            cur, real = cur + [nxt], real + [nxt]
    # payload beneath the last link
    outside = bool(real) and real[0] == ".."
    pay = rng.choice(["file", "file", "file-deep", "dir", "sym", "dir+file", "hard"])
    leaf = rng.choice(["PWNED", "escaped.txt", "x.txt", "keep.txt"])
    if pay == "file":
        ms.append(["file", "/".join(cur + [leaf]), ""])
    elif pay == "file-deep":
        ms.append(["file", "/".join(cur + ["e", leaf]), ""])
    elif pay == "dir":
        ms.append(["dir", "/".join(cur + ["newdir"]), ""])
    elif pay == "sym":
        ms.append(["sym", "/".join(cur + ["nl"]), rng.choice(["x", "a/b", "keep.txt"])])
    elif pay == "dir+file":
        ms.append(["dir", "/".join(cur + ["newdir"]), ""])
        ms.append(["file", "/".join(cur + ["newdir", leaf]), ""])
    else:
        ms.append(["file", "top.txt", ""])
        ms.append(["hard", "/".join(cur + ["hl"]), "top.txt"])
    pre = gen_benign_members(rng, rng.randint(0, 2)) if rng.random() < 0.4 else []
    post = gen_benign_members(rng, rng.randint(0, 2)) if rng.random() < 0.3 else []

    def top(name):
        name = name.replace("$R/" + WD + "/", "")
        return [q for q in name.split("/") if q not in ("", ".")][:1]
    pre = [m for m in pre if top(m[1]) and top(m[1])[0] not in (base[0], "top.txt") + tuple(CH_LINKS)]
    planted = outside and not replaced_dir
    return style + ":d%d" % depth, pre + ms + post, planted


def gen_random_members(rng, n):
    ms = []
    linknames = []
    for _ in range(n):
        k = rng.choice(["file", "file", "dir", "sym", "hard"])
        name = gen_name(rng)
        if linknames and rng.random() < 0.3:
            # placed through an earlier link member
            name = rng.choice(linknames) + "/" + gen_name(rng, rng.choice([1, 1, 2]))
        if rng.random() < 0.25:
            parts = name.split("/")
            parts.insert(rng.randint(0, len(parts)), "..")
            name = "/".join(parts)
        tgt = ""
        if k in ("sym", "hard"):
            tgt = gen_name(rng, rng.choice([1, 2]))
            r = rng.random()
            if r < 0.3:
                tgt = "../" * rng.randint(1, 2) + tgt
            elif r < 0.4:
                tgt = "$R/" + rng.choice(["outside", "outside/dir", WD, WD + "/sub"] + WD_SIBLINGS)
            elif r < 0.5:
                tgt = "../" * rng.randint(1, 2)
                tgt = tgt.rstrip("/")
            elif r < 0.6 and linknames:
                tgt = rng.choice(linknames) + rng.choice(["", "/..", "/" + rng.choice(NAMES)])
            if ".." not in name.split("/"):
                linknames.append(name)
        ms.append([k, decorate(rng, name), tgt])
    return ms


def gen_pre(rng):
    pre = []
    if rng.random() < 0.5:
        pre.append(("file", WD + "/keep.txt", ""))
    if rng.random() < 0.4:
        pre.append(("dir", WD + "/sub", ""))
    if rng.random() < 0.2:
        pre.append(("link", WD + "/l", "sub"))
    return pre


STAGED_CHOICES = [
    # (how the input of the same component was staged, name it has in the working directory, is it a link)
    ("ref", "data/d1:link", "d1", True),
    ("ref", "data/d1:link", "d1", True),
    ("ref", "data/f1.txt:link", "f1.txt", True),
    ("ref", "data/d1:copy", "d1", False),
    ("ref", "data/f1.txt:copy", "f1.txt", False),
    # what link staging of a producer reference (`stage0.producer:link`) leaves: WD/producer -> <its directory>
    ("pre", ("link", WD + "/producer", "$R/" + PRODUCER), "producer", True),
]


def gen_staged(rng):
    """inputs of the same component staged before the archive -> (pre entries, staged refs, names in WD)"""
    pre, staged, names = [], [], []
    for how, what, name, _is_link in rng.sample(STAGED_CHOICES, rng.choice([1, 1, 2])):
        if name in names:
            continue
        names.append(name)
        if how == "ref":
            staged.append(what)
        else:
            pre.append(what)
    return pre, staged, names


def gen_staged_members(rng, names):
    """archive members beneath / through / onto the names that the earlier staging created"""
    ms = []
    for _ in range(rng.randint(1, 3)):
        n = rng.choice(names)
        leaf = rng.choice(["evil", "f", "x.txt", "out.txt", "sub/x.txt", "newdir/deep/x.txt"])
        t = rng.choice(["file", "file", "file", "dir", "sym", "hard", "onto", "dir-onto", "via-sym", "via-hard"])
        if t == "file":
            ms.append(["file", decorate(rng, n + "/" + leaf), ""])
        elif t == "dir":
            ms.append(["dir", n + "/" + rng.choice(["newdir", "sub", "newdir/deep"]), ""])
        elif t == "sym":
            ms.append(["sym", n + "/" + rng.choice(["nl", "f"]), rng.choice(["x", "f", "a/b"])])
        elif t == "hard":
            ms.append(["file", "top.txt", ""])
            ms.append(["hard", n + "/hl", "top.txt"])
        elif t == "onto":
            ms.append(["file", n, ""])                       # a file member with the very name
        elif t == "dir-onto":
            ms.append(["dir", n + rng.choice(["", "/"]), ""])  # a directory member with the very name
            if rng.random() < 0.5:
                ms.append(["file", n + "/" + leaf, ""])
        elif t == "via-sym":
            ms.append(["sym", "x", n])                       # a descending archive link to the staged name
            ms.append(["file", "x/" + leaf, ""])
        else:
            ms.append(["hard", "h2", n + "/" + rng.choice(["f", "out.txt"])])   # second name of a staged file
            ms.append(["file", "h2", ""])
    return ms


def gen_extract_case(rng):
    r = rng.random()
    if r < 0.3:
        ms = gen_benign_members(rng, rng.randint(1, 7))
        case = {"op": "extract", "class": "benign", "members": ms, "planted": False, "pre": gen_pre(rng)}
    elif r < 0.55:
        t, ms, planted = gen_hostile(rng)
        case = {"op": "extract", "class": "hostile:" + t, "members": ms, "planted": planted, "pre": gen_pre(rng)}
    elif r < 0.82:
        t, ms, planted = gen_chain(rng)
        case = {"op": "extract", "class": "chain:" + t, "members": ms, "planted": planted, "pre": gen_pre(rng)}
    else:
        ms = gen_random_members(rng, rng.randint(1, 6))
        case = {"op": "extract", "class": "random", "members": ms, "planted": False, "pre": gen_pre(rng)}
    if rng.random() < 0.22:
        # the working directory already holds other inputs of the same component (Job.stageIn stages every
        # reference of the component into the same directory, one after the other)
        pre, staged, names = gen_staged(rng)
        case["pre"] = case["pre"] + pre
        case["staged"] = staged
        if rng.random() < 0.75:
            extra = gen_staged_members(rng, names)
            at = rng.randint(0, len(case["members"])) if case["class"] != "benign" else len(case["members"])
            if rng.random() < 0.4:
                case["members"] = extra                      # nothing but members aimed at the staged names
                case["planted"] = False
            else:
                case["members"] = case["members"][:at] + extra + case["members"][at:]
        case["class"] = "staged+" + case["class"]
    return case


KEYS = ["a", "b", "data", "conf", "x"]


def gen_key(rng):
    n = rng.choice([1, 1, 1, 2, 2, 3])
    parts = [rng.choice(KEYS) for _ in range(n)]
    r = rng.random()
    if r < 0.18:
        parts.insert(rng.randint(0, len(parts)), "..")
    elif r < 0.22:
        parts = ["..", ".."] + parts
    elif r < 0.27:
        return "$R/outside/" + "/".join(parts)
    elif r < 0.32:
        return "./" + "/".join(parts)
    elif r < 0.36 and len(parts) > 1:
        return "//".join(parts)
    elif r < 0.46:
        # other spellings of the same entry: trailing separator(s), a final `.` component, `.` in the middle
        return respell(rng, "/".join(parts))
    return "/".join(parts)


ALIAS_FORMS = ["{k}/", "./{k}", "{k}//", "{k}/.", ".//{k}", "{k}/./", "./{k}/", "././{k}", "{k}/./."]


def respell(rng, key, same_ok=False):
    """another text for the same entry of the instance directory"""
    forms = ALIAS_FORMS + (["{k}"] if same_ok else [])
    k = key
    if "/" in k and rng.random() < 0.3:
        k = k.replace("/", rng.choice(["//", "/./"]), 1)
        if rng.random() < 0.5:
            return k
    return rng.choice(forms).format(k=k)


def gen_source(rng, key_is_file_ok):
    src = rng.choice(["src1", "src2", "$R/pkg/src1", "src1"])
    meth = rng.choice([":copy", ":link", ":link", ""])
    if meth == ":link":
        r = rng.random()
        if r < 0.15:
            src = "file.txt"
        elif r < 0.25:
            src = "nosrc"
        elif r < 0.4:
            # a directory next to the instance directory whose name extends (or is a prefix of) its name
            src = "$R/" + rng.choice(INST_SIBLINGS) + rng.choice(["", "", "/sub"])
        elif r < 0.47:
            # a directory of the instance itself (beneath the target: nesting under it is legitimate)
            src = "$R/" + INST + rng.choice(["", "/a", "/data"])
    return src + meth


OUTSIDE_SOURCES = ["$R/outside/dir", "$R/outside", "$R/pkg/src1", "src1", "../outside/dir", "$R/" + PRODUCER]


def gen_alias_deploy_case(rng):
    """one entry of the instance directory reached twice: by two spellings of its key in one manifest, by two
    deployments into the same instance directory (the manifest changed in between), or because the instance
    directory held it before the deployment.  `offending` = a copy entry is aimed at an entry that is, at that
    moment, a link leading outside the instance directory: following the manifest would write outside, so the
    deployment must be answered with an error."""
    k0 = rng.choice(["shared", "a", "data", "x", "b", "shared"])
    lead = []
    if rng.random() < 0.2:
        par = rng.choice(["p", "a"]) if k0 != "a" else "p"
        lead = [[par, "src1:copy"]]
        k0 = par + "/" + k0
    out = rng.choice(OUTSIDE_SOURCES + ["$R/" + x for x in INST_SIBLINGS[:3]])
    copy_src = rng.choice(["src2:copy", "src2", "$R/pkg/src2:copy", "src1:copy"])
    benign = [[rng.choice(["k1", "k2", "deep/k3"]), rng.choice(["src1", "src2:copy", "src1:link"])]]
    mode = rng.choice(["alias", "alias", "alias", "history", "history", "history3", "pre-link", "alias-link-onto-copy",
                       "alias-copy-copy", "inside", "history-benign"])
    case = {"op": "deploy", "validate": rng.random() < 0.6}
    offending = False
    if mode == "alias":
        ents = lead + [[k0, out + ":link"], [respell(rng, k0), copy_src]]
        if rng.random() < 0.4:
            ents.insert(rng.randint(len(lead), len(ents)), benign[0])
        offending = True
    elif mode == "alias-link-onto-copy":
        ents = lead + [[k0, copy_src], [respell(rng, k0), out + ":link"]]
    elif mode == "alias-copy-copy":
        ents = lead + [[k0, "src1:copy"], [respell(rng, k0), "src2:copy"]]
    elif mode == "inside":
        # near miss: the link leads to a directory of the instance itself
        ents = [["in", "src1:copy"], [k0.split("/")[-1], "$R/" + INST + "/in:link"], [respell(rng, k0.split("/")[-1]), copy_src]]
    elif mode == "pre-link":
        # the instance directory holds the entry already, as a link to somewhere else
        tgt = out if out.startswith("$R/") else "$R/outside/dir"
        case["pre"] = [["link", INST + "/" + k0.split("/")[-1], tgt]]
        ents = [[respell(rng, k0.split("/")[-1], same_ok=True), copy_src]]
        if rng.random() < 0.4:
            ents.append(benign[0])
        offending = True
    else:
        # histories: the same instance directory is deployed into again after the manifest changed
        conf = [["conf", "src1:copy"]] if rng.random() < 0.6 else []
        first = conf + lead + [[k0, out + ":link"]] + (benign if rng.random() < 0.5 else [])
        if mode == "history-benign":
            # second deployment brings only new keys (and runs into the existing conf)
            second = [[rng.choice(["n1", "n2/x"]), rng.choice(["src1", "src2:link"])]] + (conf if rng.random() < 0.5 else [])
        else:
            changed = [respell(rng, k0, same_ok=True), copy_src]
            rest = conf + (benign if rng.random() < 0.3 else [])
            second = [changed] + rest if rng.random() < 0.6 else rest + [changed]
            if rng.random() < 0.3:
                rng.shuffle(second)
            offending = True
        case["history"] = [{"entries": first, "validate": rng.random() < 0.6}]
        ents = second
        if mode == "history3":
            case["history"].append({"entries": second, "validate": rng.random() < 0.6})
            ents = [[k0 + "/" + rng.choice(["sub", "sub/deeper"]), copy_src]] if rng.random() < 0.5 else \
                [[respell(rng, k0, same_ok=True), copy_src]]
    case["entries"] = ents
    case["class"] = "alias:" + mode
    if offending:
        case["offending"] = True
    return case


def gen_deploy_case(rng):
    r = rng.random()
    if r < 0.22:
        return gen_alias_deploy_case(rng)
    r = rng.random()
    if r < 0.25:
        # templates of the known escapes + near misses
        t = rng.choice(["parent", "nested-under-link", "conf-link", "conf-file-link", "up-through-link", "nested-copy",
                        "nested-under-sibling-link", "nested-under-sibling-link", "conf-sibling-link",
                        "nested-under-inside-link", "relative-sibling-link"])
        sib = "$R/" + rng.choice(INST_SIBLINGS)
        k0 = rng.choice(KEYS[:3] + ["x"])
        if t == "parent":
            ents = [["../" * rng.randint(1, 2) + rng.choice(KEYS), "src1" + rng.choice(["", ":copy", ":link"])]]
        elif t == "nested-under-link":
            ents = [["a", "src1:link"], ["a/" + rng.choice(KEYS), "src2" + rng.choice(["", ":copy", ":link"])]]
        elif t == "conf-link":
            ents = [["conf", "src1:link"]]
        elif t == "conf-file-link":
            ents = [["conf", "src1:copy"], ["conf/flowir_package.yaml", "file.txt:link"]]
        elif t == "up-through-link":
            ents = [["a", "src1:link"], ["a/../x", "src2:copy"]]
        elif t == "nested-under-sibling-link":
            # the real location of the nested key's parent starts, as TEXT, with the instance directory's path
            ents = [[k0, sib + rng.choice(["", "/sub"]) + ":link"],
                    [k0 + "/" + rng.choice(["extra", "extra/deep", "keep.txt/x", "sub"]),
                     "src2" + rng.choice(["", ":copy", ":link"])]]
            if rng.random() < 0.3:
                ents.insert(0, ["b" if k0 != "b" else "a", "src1:copy"])
        elif t == "conf-sibling-link":
            ents = [["conf", sib + ":link"]]
            if rng.random() < 0.4:
                ents.append(["conf/extra", "src1" + rng.choice(["", ":link"])])
        elif t == "nested-under-inside-link":
            # a link to a directory of the instance itself: nesting below it stays inside and is deployed
            ents = [["a", "src1:copy"], ["b", "$R/" + INST + "/a:link"], ["b/" + rng.choice(["c", "c/d"]), "src2:copy"]]
        elif t == "relative-sibling-link":
            # the link text is relative to the directory of the package file: pkg/../inst/<sibling>
            ents = [[k0, "../" + sib[3:] + ":link"], [k0 + "/extra", "src2:copy"]]
        else:
            ents = [["a/b/c", "src1"], ["a/b/d", "src2:link"], ["data", "src2:copy"]]
        cls = "template:" + t
    else:
        ents = []
        seen = set()
        for _ in range(rng.randint(1, 4)):
            k = gen_key(rng)
            if k in seen:
                continue
            seen.add(k)
            ents.append([k, gen_source(rng, True)])
        cls = "random"
    return {"op": "deploy", "class": cls, "entries": ents, "validate": rng.random() < 0.6}


def gen_copylink_case(rng):
    kind = rng.choice(["file", "dir"])
    meth = rng.choice(["copy", "copy", "link", "copyout"])
    ref = "data/f1.txt" if kind == "file" else rng.choice(["data/d1", "data/d1", "data/d1/"])
    pre = []
    r = rng.random()
    base = "f1.txt" if kind == "file" else "d1"
    if r < 0.2:
        pre.append(("file", WD + "/" + base, ""))
    elif r < 0.3:
        pre.append(("dir", WD + "/" + base, ""))
    elif r < 0.45:
        pre.append(("dir", WD + "/sub", ""))
        pre.append(("link", WD + "/" + base, "sub/through.txt"))
    return {"op": "stage", "class": meth + ":" + kind, "ref": ref + ":" + meth, "kind": kind, "pre": pre}


CORPUS = [
    {"op": "extract", "class": "corpus:C18a ../escaped.txt", "members": [["file", "../escaped.txt", ""]], "planted": True, "pre": []},
    {"op": "extract", "class": "corpus:C18b symlink+file", "members": [["sym", "l", ".."], ["file", "l/escaped.txt", ""]], "planted": True, "pre": []},
    {"op": "extract", "class": "corpus:C18b' hardlink+file", "members": [["hard", "h", UP6 + "outside/victim.txt"], ["file", "h", ""]], "planted": True, "pre": []},
    {"op": "extract", "class": "corpus:shallow link + ..", "members": [["dir", "a/b", ""], ["sym", "a/b/c", "../.."], ["file", "a/b/c/../escaped.txt", ""]], "planted": True, "pre": []},
    {"op": "extract", "class": "corpus:benign", "members": [["dir", "d", ""], ["file", "d/x", ""], ["sym", "l", "d"], ["file", "l/y", ""], ["hard", "h", "d/x"], ["file", "h", ""]], "planted": False, "pre": []},
    {"op": "extract", "class": "corpus:chain link placed through a link", "members": [["sym", "a/s", ".."], ["sym", "a/s/esc", ".."], ["file", "a/s/esc/PWNED", ""]], "planted": True, "pre": []},
    {"op": "extract", "class": "corpus:chain depth 3", "members": [["sym", "a/b/s", ".."], ["sym", "a/b/s/t", ".."], ["sym", "a/b/s/t/u", ".."], ["file", "a/b/s/t/u/PWNED", ""]], "planted": True, "pre": []},
    {"op": "extract", "class": "corpus:chain hard link to a link", "members": [["dir", "a/b", ""], ["sym", "a/b/s", "../.."], ["hard", "h", "a/b/s"], ["file", "h/PWNED", ""]], "planted": True, "pre": []},
    {"op": "extract", "class": "corpus:chain target through a link", "members": [["sym", "a/s", ".."], ["sym", "m", "a/s/.."], ["file", "m/PWNED", ""]], "planted": True, "pre": []},
    {"op": "extract", "class": "corpus:chain descending", "members": [["dir", "d/e", ""], ["sym", "l", "d"], ["sym", "l/m", "e"], ["file", "l/m/y", ""], ["hard", "h", "l/m"], ["file", "h/z", ""]], "planted": False, "pre": []},
    {"op": "extract", "class": "corpus:member beneath a link-staged input", "members": [["file", "d1/evil", ""]], "planted": False, "pre": [], "staged": ["data/d1:link"]},
    {"op": "extract", "class": "corpus:member beneath a copy-staged input", "members": [["file", "d1/evil", ""]], "planted": False, "pre": [], "staged": ["data/d1:copy"]},
    {"op": "extract", "class": "corpus:member through archive link and link-staged producer", "members": [["sym", "x", "producer"], ["file", "x/evil", ""]], "planted": False, "pre": [["link", WD + "/producer", "$R/" + PRODUCER]]},
    {"op": "deploy", "class": "corpus:C18c ../x", "entries": [["../x", "src1"]], "validate": True},
    {"op": "deploy", "class": "corpus:C18d nested under link", "entries": [["a", "src1:link"], ["a/b", "src2:copy"]], "validate": True},
    {"op": "deploy", "class": "corpus:C18e conf link", "entries": [["conf", "src1:link"]], "validate": True},
    {"op": "deploy", "class": "corpus:conf file link", "entries": [["conf", "src1:copy"], ["conf/flowir_package.yaml", "file.txt:link"]], "validate": False},
    {"op": "deploy", "class": "corpus:benign", "entries": [["a/b", "src1"], ["k", "src2:link"]], "validate": True},
    {"op": "deploy", "class": "corpus:nested under a link to a prefix-named sibling",
     "entries": [["data", "$R/" + INST + "-shared:link"], ["data/extra", "src1:copy"]], "validate": True},
    {"op": "deploy", "class": "corpus:conf linked to a prefix-named sibling",
     "entries": [["conf", "$R/" + INST + ".bak:link"]], "validate": True},
    {"op": "deploy", "class": "corpus:nested under a link into the instance",
     "entries": [["a", "src1:copy"], ["b", "$R/" + INST + "/a:link"], ["b/c", "src2:copy"]], "validate": True},
    {"op": "deploy", "class": "corpus:copy entry onto a linked entry, key with trailing separator",
     "entries": [["shared", "$R/outside/dir:link"], ["shared/", "src2:copy"]], "validate": True, "offending": True},
    {"op": "deploy", "class": "corpus:copy entry onto a linked entry, key ./shared",
     "entries": [["shared", "$R/outside/dir:link"], ["./shared", "src2:copy"]], "validate": False, "offending": True},
    {"op": "deploy", "class": "corpus:copy entry onto a linked entry, key shared/.",
     "entries": [["shared", "$R/outside/dir:link"], ["shared/.", "src2:copy"]], "validate": True, "offending": True},
    {"op": "deploy", "class": "corpus:second deployment after link -> copy",
     "history": [{"entries": [["conf", "src1:copy"], ["shared", "$R/outside/dir:link"]], "validate": True}],
     "entries": [["shared", "src2:copy"], ["conf", "src1:copy"]], "validate": True, "offending": True},
    {"op": "deploy", "class": "corpus:second deployment after link -> copy, conf first",
     "history": [{"entries": [["conf", "src1:copy"], ["shared", "$R/outside/dir:link"]], "validate": True}],
     "entries": [["conf", "src1:copy"], ["shared", "src2:copy"]], "validate": True, "offending": True},
    {"op": "deploy", "class": "corpus:instance directory holds the entry as a link",
     "pre": [["link", INST + "/shared", "$R/outside/dir"]],
     "entries": [["shared", "src2:copy"]], "validate": True, "offending": True},
    {"op": "deploy", "class": "corpus:spellings of a missing entry",
     "entries": [["a/", "src1:copy"], ["b/.", "src2"], ["./c", "src1:link"], ["d/", "src1:link"], ["e", "src2"]], "validate": True},
    {"op": "concurrent", "class": "concurrent:corpus two preemptions", "schedule_kind": "two-preemptions",
     "schedule": [0, 0, 1, 1, 1],
     "stagers": [{"members": [["file", "a.txt", ""], ["file", "a-sub/a-nested.txt", ""]], "pre": []},
                 {"members": [["file", "b.txt", ""], ["file", "b-sub/b-nested.txt", ""]], "pre": []}]},
    {"op": "extract", "class": "corpus:absolute member under a prefix-named sibling",
     "members": [["file", "$R/" + WD + "-x/evil", ""]], "planted": False, "pre": []},
    {"op": "extract", "class": "corpus:link to a prefix-named sibling",
     "members": [["sym", "l", "$R/" + WD + "x"], ["file", "l/evil", ""]], "planted": True, "pre": []},
]


# ----------------------------------------------------------------------------------------
# two components staging at the same time
# ----------------------------------------------------------------------------------------

class SchedError(Exception):
    pass


class Sched:
    """Deterministic cooperative scheduler for the stagers (one thread each).  A stager parks at every hooked
    boundary (`point`); one grant = run from the current park to the next one.  The plan is a list of stager ids;
    naming a finished stager does nothing; after the plan the unfinished stagers run on in id order.  Exactly one
    stager runs at a time, unless the code under test makes a stager WAIT for another one (a lock): a granted
    stager that does not reach a boundary within `block_timeout` is left in flight and the plan goes on."""

    SEEN_WAITING = [0]          # stagers found waiting for each other so far in this process

    def __init__(self, fns, plan, block_timeout=None, deadline=60.0):
        if block_timeout is None:
            # once the code under test has been seen to serialise stagers (a lock), do not wait long to find out again
            block_timeout = 0.5 if Sched.SEEN_WAITING[0] < 3 else 0.05
        self.fns = list(fns)
        self.plan = list(plan)
        self.n = len(self.fns)
        self.go = [threading.Event() for _ in self.fns]
        self.arrived = [threading.Event() for _ in self.fns]
        self.state = ["parked"] * self.n           # parked | running | done
        self.results = [None] * self.n
        self.errors = [None] * self.n
        self.tid = {}
        self.free = False
        self.block_timeout = block_timeout
        self.deadline = deadline
        self.granted = []                          # stager ids in the order of the grants
        self.trace = []                            # (stager, boundary label) in the order the boundaries were passed
        self.members = []                          # stager ids in the order the archive members were extracted
        self.blocked = 0
        self.progress = 0                          # boundaries reached / stagers finished so far
        self.stuck_at = [None] * self.n            # value of `progress` when the stager was last found waiting
        self.threads = []

    def wid(self):
        return self.tid.get(threading.get_ident())

    # worker side
    def point(self, label):
        w = self.wid()
        if w is None or self.free:
            return
        self.state[w] = "parked"
        self.progress += 1
        self.arrived[w].set()
        if not self.go[w].wait(self.deadline):
            raise SchedError("stager %d was never resumed" % w)
        self.go[w].clear()
        self.trace.append((w, label))
        if label == "member":
            self.members.append(w)

    def _body(self, w):
        self.tid[threading.get_ident()] = w
        self.go[w].wait(self.deadline)
        self.go[w].clear()
        try:
            self.results[w] = self.fns[w]()
        except BaseException as exc:  # noqa
            self.errors[w] = exc
        finally:
            self.state[w] = "done"
            self.progress += 1
            self.arrived[w].set()

    # controller side
    def grant(self, w):
        if self.state[w] == "done":
            return
        if self.state[w] == "parked":
            self.arrived[w].clear()
            self.state[w] = "running"
            self.granted.append(w)
            self.go[w].set()
        elif self.stuck_at[w] == self.progress:
            self.blocked += 1                      # still waiting and nobody else has moved since
            return
        if not self.arrived[w].wait(self.block_timeout):
            self.blocked += 1                      # waits for another stager: leave it in flight
            self.stuck_at[w] = self.progress
            Sched.SEEN_WAITING[0] += 1

    def run(self):
        t0 = time.time()
        for w in range(self.n):
            th = threading.Thread(target=self._body, args=(w,), name="c18-stager-%d" % w, daemon=True)
            self.threads.append(th)
            th.start()
        try:
            for w in self.plan:
                if 0 <= w < self.n:
                    self.grant(w)
            while any(st != "done" for st in self.state):
                for w in range(self.n):
                    while self.state[w] != "done":
                        if time.time() - t0 > self.deadline:
                            raise SchedError("stagers did not finish: %r" % (self.state,))
                        b = self.blocked
                        self.grant(w)
                        if self.blocked > b:
                            break                  # waits for another stager: let the next one run
        finally:
            self.free = True
            for w in range(self.n):
                self.go[w].set()
            for th in self.threads:
                th.join(self.deadline)


_SCHED = [None]


def _pt(label):
    sc = _SCHED[0]
    if sc is not None:
        sc.point(label)


class Hooks:
    """the boundaries at which the scheduler may switch stagers: process-global state (cwd, umask) before and after
    it is changed, archive extraction before/after and before every member"""

    def __enter__(self):
        self.saved = []

        def around(obj, name):
            orig = getattr(obj, name, None)
            if orig is None:
                return

            def wrapper(*a, **k):
                _pt(name + ":before")
                try:
                    return orig(*a, **k)
                finally:
                    _pt(name + ":after")
            wrapper.__name__ = name
            self.saved.append((obj, name, orig))
            setattr(obj, name, wrapper)

        for name in ("chdir", "fchdir", "umask"):
            around(os, name)
        around(tarfile.TarFile, "extractall")
        orig_member = getattr(tarfile.TarFile, "_extract_member", None)
        if orig_member is not None:
            def _extract_member(self_, *a, **k):
                _pt("member")
                return orig_member(self_, *a, **k)
            self.saved.append((tarfile.TarFile, "_extract_member", orig_member))
            tarfile.TarFile._extract_member = _extract_member
        return self

    def __exit__(self, *exc):
        for obj, name, orig in reversed(self.saved):
            setattr(obj, name, orig)
        return False


CONC_WDS = [WD, WD2]


def retarget(members, wd):
    """members written for the first working directory, for another one"""
    return [[k, n.replace("$R/" + WD + "/", "$R/" + wd + "/"), t.replace("$R/" + WD + "/", "$R/" + wd + "/")]
            for k, n, t in members]


def conc_prepare(sb, case):
    pre = []
    for i, st in enumerate(case["stagers"]):
        pre += [[k, rel.replace(WD + "/", CONC_WDS[i] + "/", 1) if rel.startswith(WD + "/") else rel, t]
                for k, rel, t in st.get("pre", ())]
    sb.reset(pre)
    for i, st in enumerate(case["stagers"]):
        make_tar(os.path.join(sb.root, "instance/data/a%d.tar" % i), st["members"], sb,
                 stamp=("from-archive-%d" % i).encode())


def conc_stage_fn(sb, i):
    M = _imports()

    def fn():
        try:
            M["D"].StageReference(M["G"].DataReference("data/a%d.tar:extract" % i),
                                  M["ST"].WorkingDirectory(os.path.join(sb.root, CONC_WDS[i])),
                                  _Graph(os.path.join(sb.root, "instance")))
            return "ok"
        except Exception as exc:  # noqa
            return classify_stage_exc(exc)
    return fn


def conc_run(sb, case, plan):
    """the two stagings of the case in two threads under `plan` (None: one after the other in this thread, no
    scheduler).  Returns dict(results, before, after, members, trace, blocked, cwd_after)."""
    conc_prepare(sb, case)
    before = sb.snapshot()
    cwd0 = os.getcwd()
    chdir = os.chdir
    chdir(os.path.join(sb.root, CWD))
    cwd1 = os.getcwd()
    out = {"members": [], "trace": [], "blocked": 0}
    try:
        fns = [conc_stage_fn(sb, i) for i in range(len(case["stagers"]))]
        if plan is None:
            out["results"] = [fn() for fn in fns]
        else:
            sc = Sched(fns, plan)
            with Hooks():
                _SCHED[0] = sc
                try:
                    sc.run()
                finally:
                    _SCHED[0] = None
            out["results"] = [sc.results[i] if sc.errors[i] is None else "other:" + type(sc.errors[i]).__name__
                              for i in range(sc.n)]
            out.update(members=list(sc.members), trace=[[w, l] for w, l in sc.trace], blocked=sc.blocked,
                       grants=list(sc.granted))
        try:
            out["cwd_after"] = None if os.getcwd() == cwd1 else sb.canon(os.getcwd())
        except OSError:
            out["cwd_after"] = "<removed>"
    finally:
        chdir(cwd0)
    out["before"] = before
    out["after"] = sb.snapshot()
    return out


def under_rel(rel, d):
    return rel == d or rel.startswith(d + "/")


def conc_oracle(case, solo, run):
    """model-independent restatement for two stagings at the same time: (1) nothing outside the two working
    directories is created, removed or modified; (2) each working directory ends exactly as it does when its own
    archive is staged alone — nothing of the other component's archive in it, nothing of its own missing;
    (3) the process cwd is what it was.  Returns a list of (slug, detail)."""
    fails = []
    before, after = run["before"], run["after"]
    n = len(case["stagers"])
    outside = []
    for rel in sorted(set(before) | set(after)):
        if any(under_rel(rel, CONC_WDS[i]) for i in range(n)):
            continue
        if before.get(rel, (None,))[:4] != after.get(rel, (None,))[:4]:
            outside.append([rel, list(before[rel][:4]) if rel in before else None,
                            list(after[rel][:4]) if rel in after else None])
    foreign, missing = [], []
    for i in range(n):
        d = CONC_WDS[i]
        want = {r: v[:4] for r, v in solo["after"].items() if under_rel(r, d)}
        got = {r: v[:4] for r, v in after.items() if under_rel(r, d)}
        for r in sorted(set(want) | set(got)):
            if want.get(r) == got.get(r):
                continue
            if r in got:
                foreign.append([r, list(got[r]), list(want[r]) if r in want else None])
            else:
                missing.append([r, list(want[r])])
    rejected_alone = [i for i in range(n) if solo["results"][i] == "rejected" and run["results"][i] != "rejected"]
    if outside or foreign or rejected_alone:
        fails.append(("concurrent-extract-writes-outside-own-working-directory",
                      {"results": run["results"], "results_alone": solo["results"], "changed_outside_both": outside[:8],
                       "not_from_own_archive": foreign[:8], "own_members_missing": missing[:8],
                       "accepted_but_rejected_alone": rejected_alone, "boundaries": run["trace"][:60]}))
    elif missing:
        fails.append(("concurrent-extract-misses-own-members",
                      {"results": run["results"], "results_alone": solo["results"], "own_members_missing": missing[:8],
                       "boundaries": run["trace"][:60]}))
    if run.get("cwd_after") is not None:
        fails.append(("staging-changes-process-cwd", {"cwd_after": run["cwd_after"], "boundaries": run["trace"][:60]}))
    return fails


def conc_model_request(case, fs, members_order):
    return {"op": "stagers", "fs": fs, "schedule": [int(w) for w in members_order],
            "stagers": [{"dest": "/S/" + CONC_WDS[i],
                         "members": [[k, n.replace("$R", "/S"), t.replace("$R", "/S")] for k, n, t in st["members"]]}
                        for i, st in enumerate(case["stagers"])]}


def conc_base_key(case):
    return json.dumps(case["stagers"], sort_keys=True)


def run_concurrent_cases(ctx, sb, cases):
    solos = {}
    reqs, pend = [], []
    for case in cases:
        key = conc_base_key(case)
        if key not in solos:
            solos[key] = conc_run(sb, case, None)
        solo = solos[key]
        run = conc_run(sb, case, case["schedule"])
        tags = ["op:concurrent", "class:" + case["class"].split(" ")[0], "schedule:" + case.get("schedule_kind", "?")] + \
               ["impl:" + r for r in run["results"]]
        switches = sum(1 for a, b in zip(run["members"], run["members"][1:]) if a != b)
        tags.append("member-switches:%s" % (switches if switches < 4 else "4+"))
        if run["blocked"]:
            tags.append("concurrent:stager-waited-for-the-other")
        ctx.case(strip_case(case), nontrivial=all(r != "missing" for r in run["results"]) and len(run["trace"]) >= 2,
                 tags=tags)
        for slug, detail in conc_oracle(case, solo, run):
            ctx.fail(slug, strip_case(case), detail)
        conc_prepare(sb, case)
        fs = fs_rows(sb, sb.snapshot())
        reqs.append(conc_model_request(case, fs, run["members"]))
        pend.append((case, run))
    outs = ctx.model(reqs) if reqs else None
    if outs is None:
        return
    for (case, run), m in zip(pend, outs):
        if any(r in ("linkConflict", "linkMissing") for r in m["results"]):
            ctx.tag("not-compared:tarfile-link-fallback")
            continue
        ctx.compare("(answers, tree under /S) of two interleaved stagings == Stagers model under the realised member order",
                    strip_case(case), {"results": m["results"], "tree": m["tree"]},
                    {"results": run["results"], "tree": tree_of(sb, run["after"])})
        changed = sorted("/S/" + rel for rel in set(run["before"]) | set(run["after"])
                         if run["before"].get(rel, (None,))[:4] != run["after"].get(rel, (None,))[:4]
                         and not rel.startswith("instance/data/a"))
        logs = set(m["logs"][0]) | set(m["logs"][1])
        ctx.compare("changed entries ⊆ model logs of the two stagers", strip_case(case), {"unlogged": []},
                    {"unlogged": [p for p in changed if p not in logs]})


def conc_plans(rng, quick, grants, exhaustive=False):
    """(kind, plan) list.  `grants` = grants per stager a sequential run needs."""
    tail = []                  # after the plan the scheduler lets the first, then the second stager run to the end
    plans = [("sequential-ab", []), ("sequential-ba", [1] * 40), ("alternating", [0, 1] * 25),
             ("alternating-ba", [1, 0] * 25), ("alternating-2", [0, 0, 1, 1] * 12)]
    n = 6 if quick else 8
    for i in range(1, n + 1):
        for j in range(1, n + 1):
            plans.append(("two-preemptions", [0] * i + [1] * j + tail))
            if (i + j) % 3 == 0:
                plans.append(("two-preemptions-ba", [1] * i + [0] * j + [1] * 40))
    for _ in range(6 if quick else 30):
        plans.append(("random", [rng.randrange(2) for _ in range(40)]))
    if exhaustive:
        # every interleaving of the grants of a sequential run (bounded)
        ga, gb = min(grants[0], 5), min(grants[1], 5)
        for pos in itertools.combinations(range(ga + gb), ga):
            plan = [1] * (ga + gb)
            for q in pos:
                plan[q] = 0
            plans.append(("exhaustive", plan + tail))
    return plans


def gen_concurrent_bases(rng, quick):
    """pairs of archives for two components of the same stage: same member names in both, different names, a
    hostile archive next to a benign one, one aimed at the other's working directory, existing content"""
    bases = []

    def benign(n):
        return [m for m in gen_benign_members(rng, n) if m[0] != "hard"][:n] or [["file", "x.txt", ""]]
    same = [["file", "in.txt", ""], ["dir", "sub", ""], ["file", "sub/nested.txt", ""]]
    bases.append(("same-names", [{"members": same, "pre": []}, {"members": [list(m) for m in same], "pre": []}]))
    bases.append(("different-names", [{"members": [["file", "a.txt", ""], ["file", "a-sub/a-nested.txt", ""]], "pre": []},
                                      {"members": [["file", "b.txt", ""], ["file", "b-sub/b-nested.txt", ""]], "pre": []}]))
    t, hostile, _planted = gen_hostile(rng)
    bases.append(("hostile+benign:" + t, [{"members": hostile, "pre": []}, {"members": benign(3), "pre": gen_pre(rng)}]))
    other = WD2.rsplit("/", 1)[1]
    bases.append(("aimed-at-the-other", [{"members": [["file", "ok.txt", ""], ["file", "../" + other + "/evil", ""]], "pre": []},
                                         {"members": [["file", "ok.txt", ""], ["sym", "l", "sub"], ["file", "l/y", ""]],
                                          "pre": [["dir", WD + "/sub", ""]]}]))
    for _ in range(1 if quick else 4):
        a, b = benign(rng.randint(1, 4)), benign(rng.randint(1, 4))
        bases.append(("random-benign", [{"members": a, "pre": gen_pre(rng)}, {"members": retarget(b, WD2), "pre": gen_pre(rng)}]))
    if not quick:
        for _ in range(3):
            t, hostile, _p = gen_hostile(rng)
            bases.append(("benign+hostile:" + t, [{"members": benign(2), "pre": []}, {"members": retarget(hostile, WD2), "pre": []}]))
    return bases


def gen_concurrent_cases(rng, quick, sb):
    cases = []
    bases = gen_concurrent_bases(rng, quick)
    for bi, (cls, stagers) in enumerate(bases):
        base = {"op": "concurrent", "class": "concurrent:" + cls, "stagers": stagers}
        # grants a sequential run needs: measured on the code under test
        probe = conc_run(sb, base, [0] * 200)
        grants = [sum(1 for w in probe.get("grants", []) if w == i) for i in range(2)]
        plans = conc_plans(rng, quick, grants, exhaustive=(not quick and bi < 2))
        if quick and bi >= 2:
            # the full two-preemption family for the first two pairs, a sample for the others
            plans = plans[:5] + rng.sample(plans[5:], 12)
        for kind, plan in plans:
            c = dict(base)
            c["schedule"] = plan
            c["schedule_kind"] = kind
            cases.append(c)
    return cases


# ----------------------------------------------------------------------------------------
# checking
# ----------------------------------------------------------------------------------------

def inside_rel(case):
    return INST if case["op"] == "deploy" else WD


def strip_case(case):
    return {k: v for k, v in case.items()}


def run_cases(ctx, sb, cases, memo=None):
    conc = [c for c in cases if c["op"] == "concurrent"]
    cases = [c for c in cases if c["op"] != "concurrent"]
    if conc:
        run_concurrent_cases(ctx, sb, conc)
    if not cases:
        return
    # 1. initial listings + model answers (repaired model; committed-algorithm model as safety filter)
    fss = [initial_fs(sb, c) for c in cases]
    fixed = ctx.model([model_request(c, fs, True) for c, fs in zip(cases, fss)])
    old = None
    if fixed is not None:
        reqs = [model_request(c, fs, False) for c, fs in zip(cases, fss) if c["op"] != "stage"]
        outs = iter(ctx.model(reqs))
        old = [next(outs) if c["op"] != "stage" else None for c in cases]
    for i, case in enumerate(cases):
        family = []
        if old is not None and old[i] is not None:
            if any(not (p == "/S" or p.startswith("/S/")) for p in old[i]["log"]):
                ctx.tag("dropped:would-leave-sandbox")
                continue
            if case["op"] == "extract":
                wd = "/S/" + WD
                leaves = any(not (p == wd or p.startswith(wd + "/")) for p in old[i]["log"])
                if leaves and old[i].get("normpathOk"):
                    # no `..`/absolute name, every link target textually confined, and yet unchecked extraction
                    # leaves the working directory: only links created by earlier members can do that
                    family.append("family:textually-confined-link-chain-escapes")
                elif leaves:
                    family.append("family:escapes-when-unchecked")
                if through_link_members(case):
                    family.append("family:member-placed-through-link-member")
        results = None
        sb.cwd_moved = None
        if case["op"] == "deploy":
            res, before, after = impl_deploy(sb, case)
            results = list(sb.results)
        else:
            res, before, after = impl_stage(sb, case)
        bad = changed_outside(before, after, inside_rel(case))
        nontrivial = (len(case.get("members", case.get("entries", [1]))) >= 1) and (res != "missing")
        tags = ["op:" + case["op"], "class:" + case["class"].split(" ")[0], "impl:" + res] + family
        if after != before:
            tags.append("effect:changed-something")
        if case.get("history"):
            tags.append("deploy:history-of-%d" % (len(case["history"]) + 1))
        if case.get("cwd"):
            tags.append("ambient:cwd-inside-sandbox")
        ctx.case(strip_case(case), nontrivial=nontrivial, tags=tags)
        if memo is not None:
            memo.append((case, {"result": res, "results": results, "tree": tree_of(sb, after)}))
        # oracle (model independent): nothing outside the target changes; planted escapes are rejected
        if bad:
            ctx.fail(escape_slug(case, bad), strip_case(case),
                     {"result": res, "results": results, "changed_outside": bad[:6],
                      "outside_paths": [b[0] for b in bad[:80]], "outside_paths_truncated": len(bad) > 80})
        elif res.startswith("other:") and (case.get("planted") or case["op"] == "deploy"):
            ctx.fail(case["op"] + "-raises-" + res.split(":", 1)[1] + "-instead-of-staging-or-packaging-error",
                     strip_case(case), {"result": res})
        elif case.get("offending") and res == "ok":
            # a copy entry aimed at an entry that is a link leading outside: must be answered with an error
            ctx.fail("deploy-accepts-offending-manifest", strip_case(case), {"result": res, "results": results})
        if case["op"] != "deploy" and sb.cwd_moved is not None:
            ctx.fail("staging-changes-process-cwd", strip_case(case), {"result": res, "cwd_after": sb.cwd_moved})
        if fixed is not None:
            m = fixed[i]
            ctx.tag("model:" + m["result"])
            if m["result"] == "linkConflict" or (m["result"] == "linkMissing" and hard_target_is_earlier_member(case)):
                # tarfile's copy-instead-of-link fallback (not modelled): oracle only
                ctx.tag("not-compared:tarfile-link-fallback")
                continue
            if case["op"] == "deploy":
                ctx.compare("(answers of all deployments, tree under /S) == Confine model (repaired, keys as text)",
                            strip_case(case), {"results": error_kinds(case, m["results"]), "tree": m["tree"]},
                            {"results": error_kinds(case, results), "tree": tree_of(sb, after)})
            else:
                ctx.compare("(result, tree under /S) == Confine model (repaired)", strip_case(case),
                            {"result": m["result"], "tree": m["tree"]},
                            {"result": res, "tree": tree_of(sb, after)})
            # the model's log must cover what really changed (names created / content or link text modified)
            changed = sorted("/S/" + rel for rel in set(before) | set(after)
                             if before.get(rel, (None,))[:4] != after.get(rel, (None,))[:4])
            missing = [p for p in changed if p not in m["log"]]
            ctx.compare("changed entries ⊆ model log", strip_case(case), {"unlogged": []}, {"unlogged": missing})


def unusual_spelling(key):
    """trailing separator or a final `.` component"""
    k = key.rstrip("/")
    return key.endswith("/") or k == "." or k.endswith("/.")


def error_kinds(case, results):
    """answers of the deployments of a case at the level the property talks about.  Whether an entry that cannot be
    deployed is refused by the guard (`rejected`) or by the file operation (`os`) is compared for ordinary keys; for
    a manifest with a key that ends in a separator or a `.` component it hinges on which of `dirname`/`rstrip`/
    `normpath` the guard applies to the text first — both are the packaging error the property asks for, so the
    two are not told apart there."""
    out = []
    for step, r in zip(deploy_steps(case), results):
        if r in ("rejected", "os") and any(unusual_spelling(k) for k, _ in step["entries"]):
            r = "error"
        out.append(r)
    return out


def _member_key(n):
    return "/".join(_norm_rel(n.replace("$R/" + WD + "/", "").split("/")))


def through_link_members(case):
    """number of members whose name continues the name of an earlier symlink/hardlink member"""
    links, cnt = [], 0
    for k, n, _t in case.get("members", ()):
        key = _member_key(n)
        if any(key.startswith(l + "/") for l in links):
            cnt += 1
        if k in ("sym", "hard") and key:
            links.append(key)
    return cnt


def hard_target_is_earlier_member(case):
    """a hard link member whose target is not on disk but names an earlier member: tarfile extracts a copy of
    that member instead (TarFile._find_link_target), which the model does not describe"""
    seen = set()
    for k, n, t in case.get("members", ()):
        if k == "hard" and os.path.normpath(t) in seen:
            return True
        seen.add(os.path.normpath(n.replace("$R/" + WD + "/", "")))
    return False


SLUG_STAGED = "extract-writes-through-staged-link"


def staged_links(case):
    """name in the working directory -> sandbox-relative location it points to, for the links that link staging
    of another input of the same component created BEFORE the archive is extracted"""
    out = {}
    for ref in case.get("staged", ()):
        path, _, meth = ref.rpartition(":")
        if meth == "link" and path and not path.endswith("/"):
            out[os.path.basename(path)] = "instance/" + path
    for kind, rel, tgt in case.get("pre", ()):
        if kind == "link" and tgt.startswith("$R/") and rel.startswith(WD + "/") and "/" not in rel[len(WD) + 1:]:
            out[rel[len(WD) + 1:]] = tgt[3:]
    return out


def archive_is_textually_confined(case):
    """the acceptance rule the code documents, restated on the text of the archive: every member name is
    relative (or absolute under the working directory) without parent segment, every symlink/hardlink target is
    relative without parent segment"""
    for k, n, t in case.get("members", ()):
        if n.startswith("$R/" + WD + "/"):
            n = n[len("$R/" + WD + "/"):]
        if n.startswith(("/", "$R")) or ".." in n.split("/"):
            return False
        if k in ("sym", "hard") and (t.startswith(("/", "$R")) or ".." in t.split("/")):
            return False
    return True


def all_under_staged_link_targets(case, paths):
    tg = list(staged_links(case).values())
    return bool(tg) and all(any(p == t or p.startswith(t + "/") for t in tg) for p in paths)


def escape_slug(case, bad):
    if case["op"] == "deploy":
        return "deploy-writes-outside-instance-directory"
    if (case["op"] == "extract" and archive_is_textually_confined(case)
            and all_under_staged_link_targets(case, [b[0] for b in bad])):
        return SLUG_STAGED
    return case["op"] + "-writes-outside-working-directory"


def without_staged_links(case):
    """the same case with every link-staged input replaced by a copy of what it points to"""
    c2 = dict(case)
    c2["staged"] = [r[:-len(":link")] + ":copy" if r.endswith(":link") else r for r in case.get("staged", ())]
    pre = []
    for kind, rel, tgt in case.get("pre", ()):
        if kind == "link" and tgt.startswith("$R/"):
            pre.append(["dir", rel, ""])
            pre.append(["file", rel + "/out.txt", ""])
        else:
            pre.append([kind, rel, tgt])
    c2["pre"] = pre
    return c2


def c18_extract_through_staged_link(what, case, detail):
    """KNOWN finding C18-extract-through-staged-link, and nothing else: an archive that obeys the documented rule
    (no parent segment / absolute path in any member name or link target) is extracted into a working directory
    that already holds an absolute link made by link-staging another input of the same component; everything that
    changed outside the working directory lies at or below the target of such a link; and the very same archive
    changes nothing outside once those links are replaced by copies (re-run on the real code).  A failure that
    involves an archive link with a parent segment / absolute target, a member name with a parent segment, or a
    path elsewhere is not accepted."""
    if what != SLUG_STAGED or case.get("op") != "extract" or not detail:
        return False
    paths = detail.get("outside_paths")
    if not paths or detail.get("outside_paths_truncated"):
        return False
    if not archive_is_textually_confined(case) or not all_under_staged_link_targets(case, paths):
        return False
    base = tempfile.mkdtemp(prefix="c18-cls-")
    try:
        sb = Sandbox(base)
        _res, b, a = impl_stage(sb, case)
        if not changed_outside(b, a, WD):
            return False                                  # not reproducible: do not accept
        _res, b, a = impl_stage(sb, without_staged_links(case))
        return not changed_outside(b, a, WD)
    except Exception:  # noqa
        return False
    finally:
        shutil.rmtree(base, ignore_errors=True)


def shrinker_factory(_sb=None):
    """the shrinker runs from finish(), after run() has removed its scratch tree: it uses (and removes) its own"""
    def shrink(what, case):
        key = "members" if case["op"] == "extract" else ("entries" if case["op"] == "deploy" else None)
        if key is None or "-writes-" not in what:
            return case
        base = tempfile.mkdtemp(prefix="c18-shrink-")
        sb = Sandbox(base)

        def still(items):
            if not items:
                return False
            c2 = dict(case)
            c2[key] = items
            if case["op"] == "deploy":
                _res, b, a = impl_deploy(sb, c2)
            else:
                _res, b, a = impl_stage(sb, c2)
            bad = changed_outside(b, a, inside_rel(case))
            return bool(bad) and escape_slug(c2, bad) == what
        try:
            c3 = dict(case)
            c3[key] = common.shrink_list(case[key], still, max_steps=60)
            c3["pre"] = case.get("pre", [])
            return c3
        finally:
            shutil.rmtree(base, ignore_errors=True)
    return shrink


CLASSIFIERS = {"c18_extract_through_staged_link": c18_extract_through_staged_link}


def run(ctx):
    ctx.rule = ("cases = (a) tar archives of 1-20 members (file/dir/symlink/hardlink; names with parent segments at any "
                "position, absolute names under and outside the working directory, ./ and // spellings; link targets "
                "relative, with parent segments, absolute; 11 escape templates incl. link chains, hard link to a file "
                "outside, link to the working directory itself followed by ..; link chains of depth 2-4 in which every "
                "later link member is placed THROUGH an earlier link member (its name continues the earlier link's "
                "name), is a hard link to an earlier link member (second name in another directory) or has a target "
                "passing through an earlier link, with targets that have parent segments but are textually confined "
                "(leading, or after a leading name), overshoot, or are descending, a directory member replaced by a "
                "link member, then file/dir/symlink/hardlink members beneath the last link; benign descending "
                "archives; random mixes incl. names through earlier link members) "
                "extracted by the real StageReference into a working directory with optional existing content; about "
                "a fifth of the archives are extracted into a working directory that already holds other inputs of the "
                "same component staged by the real StageReference (data/d1:link, data/f1.txt:link, :copy of both, the "
                "link to a producer directory) and get members beneath / onto / through those names (files, dirs, "
                "symlinks, hardlinks, descending archive links to them, hardlinks to files behind them); "
                "the sandbox holds siblings of the working directory and of the instance directory whose names extend the "
                "target's name (comp-x, compx, comp.bak; new.instance-shared, .bak, 2) or are a prefix of it: absolute "
                "member names, symlink/hardlink targets (absolute, ../sibling) and manifest link sources point there; "
                "(b) manifests of 1-4 entries (keys nested / with .. / absolute / ./ and //; copy and link methods; "
                "directory, file and missing sources; keys nested under linked keys; conf linked; keys linked to a "
                "prefix-named sibling of the instance directory or to a directory of the instance itself, with nested "
                "keys below) loaded with the real "
                "Manifest.validate (or not) and deployed by the real expandPackageToDirectory; (c) copy/copyout/link "
                "staging of a file or directory with existing same-name file/dir/link; "
                "(d) manifests in which one entry of the instance directory is reached twice: two spellings of its key "
                "(k, k/, ./k, k//, k/., .//k, k/./, ./k/, ././k, k/./., a//b, a/./b) with a link entry first and a copy "
                "entry onto it (sources outside the instance: sandbox outside dirs, package dirs, prefix-named siblings, "
                "a producer directory; relative and absolute), copy onto copy, link onto copy, link into the instance "
                "itself (near miss), an instance directory that holds the entry as a link before the deployment, and "
                "HISTORIES of 2-3 deployments by the real code into the same instance directory with the manifest changed "
                "in between (link -> copy in the same or another spelling, entry first / last / shuffled, conf first, new "
                "keys only, a key nested under the old link); random manifests also get such spellings; "
                "(e) two real StageReference(:extract) calls in two threads under a deterministic cooperative scheduler "
                "switching only at hooked boundaries (os.chdir/os.fchdir/os.umask before+after, TarFile.extractall "
                "before+after, every TarFile._extract_member): pairs of archives (same member names, different names, "
                "hostile next to benign, one aimed at the other's working directory, random benign with existing content) "
                "x schedules (sequential both orders, alternating, ALL two-preemption schedules i grants/j grants up to a "
                "bound, random; thorough: every interleaving of the first 5 grants of each stager for two pairs), process "
                "cwd = a neutral directory inside the sandbox; "
                "(f) a third of all single cases run with the process cwd inside the sandbox; a sample of the cases is run "
                "again at the end in reverse order and must answer identically. non-trivial = the operation "
                "reached the code under test (reference exists); distinct by canonical JSON of the case. Every case: "
                "full recursive listing (kind, link text, size, sha1, mtime, mode) of the sandbox before/after.")
    ctx.assumptions = [
        "sandbox paths are real (no symlinked /tmp): location.path == realpath(location.path)",
        "known finding C18-extract-through-staged-link: writes through an absolute link that link-staging of another "
        "input of the same component left in the working directory are accepted by the classifier only when the "
        "archive has no parent segment / absolute path in any name or link target, every changed outside path lies "
        "under such a link's target, and the same archive changes nothing outside once the links are replaced by "
        "copies (re-run on the real code)",
        "hard link members name only earlier regular-file members or names absent from the archive (tarfile's "
        "copy-instead-of-link fallback is not modelled)",
        "link chains (depth <= 4 plus random members) stay far below the kernel limit of 40 / the model fuel of 96 steps",
        "manifest sources: directories holding one file `f`, one regular file, or missing (link only)",
        "two stagings at the same time: threads are switched only at the hooked boundaries (a change of process-global "
        "state that goes through another call than os.chdir/os.fchdir/os.umask, or extraction not through tarfile, is "
        "not a switching point); a stager that does not reach a boundary within 0.5 s (0.05 s once stagers have been "
        "seen waiting for each other) is taken to wait for the other one and left running",
        "deployment answers `rejected` (guard) and `os` (file operation) are not told apart for a manifest with a key "
        "ending in a separator or a `.` component (both are the packaging error the property asks for)",
        "offending manifest = a copy entry aimed at an entry that is at that moment a link leading outside the instance "
        "directory (by construction of the generator); it must be answered with an error",
    ]
    ctx.trusted.append("C18: tarfile.extractall (fully_trusted filter of Python 3.12), shutil.copytree/copy/copyfile, "
                       "os.symlink/os.link/os.makedirs, os.path.realpath path semantics as modelled in Model/Confine.lean "
                       "(resolve/descend/walk); exercised by the tree comparison on every case")
    ctx.trusted.append("C18: harness scheduler/hooks for two stagers (Sched, Hooks in harness/c18.py): one grant = one "
                       "boundary-to-boundary run of one thread; the realised order of member extractions is what the "
                       "Stagers model is run with")
    ctx.trusted.append("C18: stub WorkflowGraph/root storage resolving direct references `data/...` (Job.stageIn's "
                       "dispatch over references is not driven, only the StageReference it calls)")
    rng = ctx.rng
    quick = ctx.tier == "quick"
    base = tempfile.mkdtemp(prefix="c18-")
    sb = Sandbox(base)
    ctx.shrinker = shrinker_factory(sb)
    try:
        cases = [dict(c) for c in CORPUS]
        n_ex, n_dep, n_cl = (500, 380, 80) if quick else (4500, 3300, 300)
        cases += [gen_extract_case(rng) for _ in range(n_ex)]
        cases += [gen_deploy_case(rng) for _ in range(n_dep)]
        cases += [gen_copylink_case(rng) for _ in range(n_cl)]
        for c in cases:
            if c["op"] != "concurrent" and not c["class"].startswith("corpus:") and rng.random() < 0.33:
                c["cwd"] = True
        memo = []
        run_cases(ctx, sb, cases, memo=memo)
        run_cases(ctx, sb, gen_concurrent_cases(rng, quick, sb))
        rerun_sample(ctx, sb, rng, memo, 60 if quick else 300)
        ctx.extra["link_chain_family"] = {
            "generated_chain_archives": sum(v for k, v in ctx.tags.items() if k.startswith("class:chain:")),
            "members_placed_through_link_members": ctx.tags.get("family:member-placed-through-link-member", 0),
            "accepted_by_textual_normalisation_and_escaping_when_unchecked":
                ctx.tags.get("family:textually-confined-link-chain-escapes", 0),
        }
    finally:
        shutil.rmtree(base, ignore_errors=True)


def rerun_sample(ctx, sb, rng, memo, n):
    """family `state shared between independent operations`: a sample of the cases is run AGAIN at the end of the
    run — after every other case, after the concurrent stagings, in another order — and the real code must answer
    exactly as it did the first time (same answers, same resulting tree)"""
    if not memo:
        return
    sample = rng.sample(memo, min(n, len(memo)))
    sample.reverse()
    for case, first in sample:
        if case["op"] == "deploy":
            res, _b, after = impl_deploy(sb, case)
            second = {"result": res, "results": list(sb.results), "tree": tree_of(sb, after)}
        else:
            res, _b, after = impl_stage(sb, case)
            second = {"result": res, "results": None, "tree": tree_of(sb, after)}
        ctx.tag("rerun:" + case["op"])
        if common.canon(first) != common.canon(second):
            ctx.fail("result-depends-on-earlier-cases", strip_case(case),
                     {"first": {"result": first["result"], "results": first["results"]},
                      "again": {"result": second["result"], "results": second["results"]},
                      "tree_differs": first["tree"] != second["tree"]})


def replay(ctx, doc):
    if doc.get("input"):
        cases = [doc["input"]]
    else:
        cases = [b["input"] for b in doc["no_longer_checks"] if b.get("kind") == "correspondence"]
    base = tempfile.mkdtemp(prefix="c18-")
    try:
        run_cases(ctx, Sandbox(base), cases)
    finally:
        shutil.rmtree(base, ignore_errors=True)
