"""C03 — Replication expands a workflow without changing its dataflow.

Implementation under test (real code, in-process):
  A. FlowIRConcrete(doc, 'default', {}).replicate(ignore_errors=True)   (what conf.py does): the replicated
     component dictionaries -> per component references, arguments, variables.replica, workflowAttributes.replicate
  B. WorkflowGraph.graphFromFlowIR(doc, {}, primitive=False): loader verdict, node set, edge set
  C. FlowIR.apply_replicate(components in a CHOSEN processing order, variables of the instance, ...): path A hands the
     components over in the iteration order of a set (it changes with the string hash seed of the process), so the
     same call is repeated for the explicit permutations case['orders'] (always the topological order and its reverse:
     every pair of components is processed in both relative orders); the result must be the same for every order
  D. one configuration object with a HISTORY (case['history']): the document is written to a package directory and
     loaded (ExperimentPackage.packageFromLocation, or ExperimentConfigurationFactory.configurationForExperiment
     with the first set of user variable files), then the SAME configuration object is re-parametrised with other
     user variable files that change the variables the replica counts / aggregate flags are given through
     (WorkflowGraph.graphFromPackage(package, primitive=False, variable_files=...) or conf.parametrize(...), primitive
     steps in between), optionally instantiated (Experiment.experimentFromPackage) and read back
     (WorkflowGraph.graphFromExperimentInstanceDirectory): after every step the expansion must be the one of the
     document under the user variables of THAT step
  E. a sample of the cases is run again at the end of the run, in another order, after all the other cases (and
     once more with logging enabled at DEBUG level): the implementation must answer as it did the first time
  F. platforms (case['plats'], comp['over'], case['drive']): the document lists further platforms with their own
     variable sections, components carry `override: {<platform>: {...}}` blocks restating references /
     command.arguments / variables / workflowAttributes; everything above is driven for every platform of
     case['drive'] (FlowIRConcrete(doc, platform).replicate(platform), instance(platform) + apply_replicate,
     graphFromFlowIR(platform=...), packageFromLocation / parametrize with a platform per step) and the replicated
     FlowIR is ALSO read back the way every consumer reads it: FlowIRConcrete(replicated, platform)
     .get_component_configuration(id, raw=True) (the kept override block layered over the component).  The oracle
     is applied to the workflow the document stands for on that platform (`effective`).
  G. references inside component-level variables (comp['rvars'], also in override blocks), used on the command line
     through %(name)s: in copy i the variable names copy i of a replicated producer
Components may define `replica` themselves (also the stage / the global scope / the user variables): copy i must see i.
Replica counts and aggregate flags may be given through %(var)s with the same variable name defined at several scopes
(global, stage, the component itself, sibling components): the oracle resolves each in the component's OWN scope chain.
Model: lean/St4sd/Model/ReplVars.lean (resolution of the attributes per component) + lean/St4sd/Model/Repl.lean
(graph level + text level) via drv-c03.  Theorems: lean/St4sd/Props/C03.lean.
Oracle: `expected()` below, written from the property text (set based, independent of the Lean model).
"""
from __future__ import annotations

import copy
import itertools
import json
import logging
import os
import re
import shutil
import tempfile

METHODS = ['ref', 'copy', 'link', 'copyout', 'extract', 'output']
# names designed to overlap: suffix/prefix/infix pairs, trailing digits, names that look like parts of a reference
POOL = ['A', 'BA', 'AB', 'ABA', 'A1', 'A10', 'B', 'B-A', 'A_B', 'xA', 'gen', 'regen', 'gen2', 'stage', 'stage0', 'ref',
        'copy', 'a', 'aa', 'Agg', 'C', 'CA', 'x-gen', 'out', 'A-1', 'tage0']
FILES = [None, None, None, 'out.txt', 'dir/sub/f.dat', 'A', 'BA', 'x/A', 'res_1.csv']
DIRECT = ['data/%s:ref', 'input/%s:copy', 'data/%s.txt:ref', 'bin/%s:ref', 'conf/x/%s:link']
TRUE_SPELLINGS = [True, 'yes', 'true', 'True', 'YES']
FALSE_SPELLINGS = [False, 'no', 'false', 'No', 'FALSE']
COUNT_VARS = ['n', 'N', 'numberPoints', 'replicas', 'num-points', 'agg']
FLAG_VARS = ['doAggregate', 'collect', 'agg', 'n']
UNRESOLVED = 'unresolved'


# ----------------------------------------------------------------------------------------
# variable scopes (the property: an attribute given as %(var)s is resolved in the scope chain of ITS component)
# ----------------------------------------------------------------------------------------

def normalise(case):
    """Cases written before the scopes were explicit (how = var-global / var-stage / var-comp, one private variable
    per component) in the explicit form: case['gvars'], case['svars'][str(stage)], comp['vars'], how = 'var'."""
    if 'gvars' in case and all('vars' in c for c in case['comps']):
        return case
    case = copy.deepcopy(case)
    gvars = case.setdefault('gvars', {})
    svars = case.setdefault('svars', {})
    for c in case['comps']:
        c.setdefault('vars', {})
        rp = c.get('repl')
        if rp and rp['how'] in ('var-global', 'var-stage', 'var-comp'):
            var = rp.get('var', 'n')
            if rp['how'] == 'var-global':
                gvars[var] = str(rp['n'])
            elif rp['how'] == 'var-stage':
                gvars[var] = str(rp['n'] + 3)          # overridden by the stage layer
                svars.setdefault(str(c['stage']), {})[var] = str(rp['n'])
            else:
                gvars[var] = str(rp['n'] + 5)          # overridden by the component layer
                c['vars'][var] = rp['n']
            c['repl'] = {'how': 'var', 'var': var}
    return case


def chain_lookup(case, c, var):
    """value of `var` for component c: its own variables, else those of its stage, else the global ones"""
    for scope in (c.get('vars') or {}, (case.get('svars') or {}).get(str(c['stage'])) or {}, case.get('gvars') or {}):
        if var in scope:
            return scope[var]
    return None


def count_of(case, c):
    """the number of replicas component c requests: None (none), an int, or UNRESOLVED"""
    rp = c.get('repl')
    if not rp:
        return None
    if rp['how'] == 'var':
        v = chain_lookup(case, c, rp['var'])
        if v is None or isinstance(v, bool) or not str(v).isdigit():
            return UNRESOLVED
        return int(str(v))
    return rp['n']


def flag_value(v):
    """workflowAttributes.aggregate as the loader reads it: booleans as they are, strings through str_to_bool
    (true/yes, false/no, any case) -- see FlowIR.convert_component_types"""
    if isinstance(v, str):
        return v.lower() in ('true', 'yes')
    return bool(v)


def is_agg(case, c):
    """does component c aggregate: True / False / UNRESOLVED"""
    v = c.get('agg')
    if isinstance(v, dict):
        v = chain_lookup(case, c, v['var'])
        if v is None:
            return UNRESOLVED
    return flag_value(v)



PLATFORMS = ['hpc', 'cloud', 'lsf-gpu']
RVAR_NAMES = ['inp', 'src-data', 'in_1', 'feed']


def has_platforms(case):
    return bool(case.get('plats')) or any(c.get('over') for c in case['comps'])


def drive_of(case):
    return list(case.get('drive') or ['default'])


def _layer_comp(c, o):
    """component c with its block `override.<platform>` = o layered on top (FlowIR.override_object: dictionaries are
    merged key by key, lists and strings are replaced)"""
    c = dict(c)
    c.pop('over', None)
    if not o:
        return c
    if o.get('refs') is not None:
        c['refs'] = copy.deepcopy(o['refs'])
    if o.get('args') is not None:
        c['args'] = o['args']
        c.pop('argt', None)
        if o.get('argt'):
            c['argt'] = copy.deepcopy(o['argt'])
    if o.get('vars'):
        c['vars'] = dict(c.get('vars') or {}, **o['vars'])
    if o.get('rvars'):
        c['rvars'] = dict(c.get('rvars') or {}, **copy.deepcopy(o['rvars']))
    if o.get('repl') is not None:
        c['repl'] = copy.deepcopy(o['repl'])
    if o.get('agg') is not None:
        c['agg'] = copy.deepcopy(o['agg'])
    return c


def effective(case, platform):
    """The workflow the document stands for on `platform` (a plain case: no platforms, no override blocks): global
    variables = default global section updated with the platform's; variables of a stage = default section of the
    stage without the names the platform's global section defines, updated with the platform's section of the stage;
    every component with its `override.<platform>` block layered on top."""
    case = normalise(case)
    if not has_platforms(case):
        return case
    c2 = {k: copy.deepcopy(v) for k, v in case.items() if k not in ('plats', 'drive', 'comps')}
    pv = ((case.get('plats') or {}).get(platform) or {}) if platform != 'default' else {}
    pg = pv.get('global') or {}
    c2['gvars'] = dict(case.get('gvars') or {}, **pg)
    svars = {}
    for st in sorted({str(c['stage']) for c in case['comps']} | set(case.get('svars') or {}) | set(pv.get('stages') or {})):
        d = {k: v for k, v in ((case.get('svars') or {}).get(st) or {}).items() if k not in pg}
        d.update((pv.get('stages') or {}).get(st) or {})
        if d:
            svars[st] = d
    c2['svars'] = svars
    c2['comps'] = [_layer_comp(copy.deepcopy(c), (c.get('over') or {}).get(platform) if platform != 'default' else None)
                   for c in case['comps']]
    return c2


def _mods():
    import experiment.model.frontends.flowir as F
    import experiment.model.graph as G
    return F, G


# ----------------------------------------------------------------------------------------
# case <-> documents
# ----------------------------------------------------------------------------------------

def render(r):
    if not r['comp']:
        return r['text']
    s = r['name']
    if r.get('file') is not None:
        s += '/' + r['file']
    s += ':' + r['method']
    if r['long']:
        s = 'stage%d.%s' % (r['stage'], s)
    return s


def cid(stage, name):
    return 'stage%d.%s' % (stage, name)


def build_doc(case):
    """The FlowIR document of a case, components in the order case['order'] (a permutation)."""
    case = normalise(case)
    comps = []
    for c in case['comps']:
        d = {'name': c['name'], 'stage': c['stage'],
             'command': {'executable': 'echo', 'arguments': c['args']},
             'references': [render(r) for r in c['refs']]}
        d.update(_doc_fields(c))
        for plat, o in sorted((c.get('over') or {}).items()):
            blk = _doc_fields(o)
            if o.get('refs') is not None:
                blk['references'] = [render(r) for r in o['refs']]
            if o.get('args') is not None:
                blk['command'] = {'arguments': o['args']}
            d.setdefault('override', {})[plat] = blk
        comps.append(d)
    order = case.get('order') or list(range(len(comps)))
    doc = {'components': [comps[i] for i in order]}
    gvars = dict(case.get('gvars') or {})
    svars = {int(k): dict(v) for k, v in (case.get('svars') or {}).items() if v}
    if gvars or svars:
        doc['variables'] = {'default': {'global': gvars, 'stages': svars}}
    if has_platforms(case):
        names = sorted(set(case.get('plats') or {}) | {p for c in case['comps'] for p in (c.get('over') or {})})
        doc['platforms'] = ['default'] + names
        for p in names:
            pv = (case.get('plats') or {}).get(p) or {}
            sec = {}
            if pv.get('global'):
                sec['global'] = dict(pv['global'])
            if pv.get('stages'):
                sec['stages'] = {int(k): dict(v) for k, v in pv['stages'].items() if v}
            if sec:
                doc.setdefault('variables', {})[p] = sec
    return doc


def _doc_fields(c):
    """variables / workflowAttributes of a component or of an override block"""
    d = {}
    vs = dict(c.get('vars') or {})
    for k, r in (c.get('rvars') or {}).items():
        vs[k] = render(r)
    if vs:
        d['variables'] = vs
    wa = {}
    rp = c.get('repl')
    if rp is not None:
        how = rp['how']
        if how == 'int':
            wa['replicate'] = rp['n']
        elif how == 'str':
            wa['replicate'] = str(rp['n'])
        else:
            wa['replicate'] = '%%(%s)s' % rp['var']
    if isinstance(c.get('agg'), dict):
        wa['aggregate'] = '%%(%s)s' % c['agg']['var']
    elif c.get('agg') is not None:
        wa['aggregate'] = c['agg']
    if wa:
        d['workflowAttributes'] = wa
    return d


def _pairs(d):
    return sorted([k, str(v)] for k, v in (d or {}).items())


def _spec_repl(rp):
    if not rp:
        return None
    if rp['how'] == 'var':
        return {'var': rp['var']}
    return {'lit': str(rp['n'])}


def _spec_agg(a):
    if a is None:
        return None
    if isinstance(a, dict):
        return {'var': a['var']}
    return {'lit': str(a)}


def _all_vars(c):
    vs = dict(c.get('vars') or {})
    for k, r in (c.get('rvars') or {}).items():
        vs[k] = render(r)
    return _pairs(vs)


def model_request(case, platform='default'):
    """the raw document: the model layers the platform sections and the override blocks of `platform` itself
    (ReplOver.platGlobal / platStage / layerRaw) and resolves the attributes (ReplVars.resolveAll)"""
    case = normalise(case)
    comps = []
    for c in case['comps']:
        o = (c.get('over') or {}).get(platform) if platform != 'default' else None
        comps.append({'stage': c['stage'], 'name': c['name'], 'vars': _all_vars(c),
                      'repl': _spec_repl(c.get('repl')), 'agg': _spec_agg(c.get('agg')), 'args': c['args'],
                      'refs': [dict(r) for r in c['refs']],
                      'over': None if o is None else {
                          'refs': None if o.get('refs') is None else [dict(r) for r in o['refs']],
                          'args': o.get('args'), 'vars': _all_vars(o),
                          'repl': _spec_repl(o.get('repl')), 'agg': _spec_agg(o.get('agg'))}})
    pv = ((case.get('plats') or {}).get(platform) or {}) if platform != 'default' else {}
    return {'op': 'expand', 'comps': comps, 'gvars': _pairs(case.get('gvars')),
            'svars': sorted([int(k), _pairs(v)] for k, v in (case.get('svars') or {}).items()),
            'pgvars': _pairs(pv.get('global')),
            'psvars': sorted([int(k), _pairs(v)] for k, v in (pv.get('stages') or {}).items())}


def model_history_request(case):
    """the same history on the model of the configuration object (ReplConf.construct / parametrize)"""
    req = model_request(effective(case, history_platforms(case)[0]))
    req['op'] = 'history'
    steps = []
    for _label, files, prim, _plat in history_steps(case):
        uv = layer_files(files)
        steps.append({'g': _pairs(uv['global']), 'svars': sorted([int(k), _pairs(v)] for k, v in uv['stages'].items()),
                      'primitive': prim})
    req['steps'] = steps
    return req


# ----------------------------------------------------------------------------------------
# implementation
# ----------------------------------------------------------------------------------------

def classify_exc(exc):
    msg = str(exc)
    seen, todo = set(), [exc]
    while todo and len(seen) < 30:          # the loader wraps the error of replicate() a few levels deep
        e = todo.pop()
        if id(e) in seen or not isinstance(e, BaseException):
            continue
        seen.add(id(e))
        msg += ' ' + str(e)
        todo.append(getattr(e, 'underlyingError', None))
        u = getattr(e, 'underlyingErrors', None)
        try:
            todo.extend(list(u() if callable(u) else (u or [])))
        except Exception:  # noqa
            pass
    # scratch directories and instance names (time stamps) are not part of the answer
    msg = re.sub(r'\S*c03-hist-[A-Za-z0-9_]+', '$T', msg)
    msg = re.sub(r'\d{8}T\d{6}\.\d+', 'TIMESTAMP', msg)
    if 'not consistent' in msg:
        return 'inconsistent'
    if 'exists multiple times' in msg:
        return 'duplicate'
    if 'Attempted to resolve' in msg:
        return 'unresolved'
    return 'other:%s:%s' % (type(exc).__name__, ' '.join(msg.split())[:300])


def _view(components):
    comps = []
    for x in components:
        comps.append({'id': cid(x.get('stage', 0), x['name']), 'stage': x.get('stage', 0), 'name': x['name'],
                      'refs': list(x.get('references', [])),
                      'args': x.get('command', {}).get('arguments', ''),
                      'replica': (x.get('variables') or {}).get('replica'),
                      'vars': {str(k): str(v) for k, v in (x.get('variables') or {}).items()},
                      'replicate': (x.get('workflowAttributes') or {}).get('replicate')})
    return comps


def _graph_view(g):
    """what a user of the graph sees: nodes, edges and per node the resolved `replica` variable / command line"""
    res = {'nodes': sorted(g.graph.nodes), 'edges': sorted([list(e) for e in g.graph.edges]), 'resolved': {}}
    for n in res['nodes']:
        try:
            conf = g.configurationForNode(n)
            res['resolved'][n] = {'replica': None if (conf.get('variables') or {}).get('replica') is None
                                  else str(conf['variables']['replica']),
                                  'args': str((conf.get('command') or {}).get('arguments', '')),
                                  'refs': [str(x) for x in (conf.get('references') or [])],
                                  'stage': conf.get('stage', 0)}
        except Exception as exc:  # noqa
            res['resolved'][n] = {'error': classify_exc(exc)}
    return res


def case_orders(case):
    """processing orders (permutations of the indices of case['comps']) for path C"""
    n = len(case['comps'])
    orders = [list(o) for o in (case.get('orders') or [])]
    for o in (list(range(n)), list(range(n - 1, -1, -1))):
        if o not in orders:
            orders.append(o)
    return orders


def _layered_view(flowir, platform, concrete=None):
    """The replicated FlowIR read back the way its consumers read it: for every component
    get_component_configuration(id, raw=True, platform) = the kept block override.<platform> layered over the
    component (references, command line, component-level variables)."""
    F, _ = _mods()
    try:
        c2 = concrete if concrete is not None else F.FlowIRConcrete(flowir, platform, {})
        comps = []
        for x in (flowir['components'] if flowir is not None else c2.get_components()):
            k = (x.get('stage', 0), x['name'])
            comps.append(c2.get_component_configuration(k, raw=True, include_default=False, platform=platform))
        return _view(comps)
    except Exception as exc:  # noqa
        return {'error': classify_exc(exc)}


def impl_run(case, platform='default', with_history=True):
    F, G = _mods()
    case = normalise(case)
    doc = build_doc(case)
    layered = has_platforms(case)
    out = {}
    prev = logging.root.manager.disable
    logging.disable(logging.CRITICAL)
    try:
        try:
            conc = F.FlowIRConcrete(copy.deepcopy(doc), platform, {})
            rep = conc.replicate(platform=platform, ignore_errors=True)
            out['comps'] = _view(rep['components'])
            if layered:
                out['layered'] = _layered_view(rep, platform)
        except Exception as exc:  # noqa
            out['replicate_error'] = classify_exc(exc)
        # C: what replicate() does, with the components handed to apply_replicate in a chosen order
        runs = []
        try:
            conc = F.FlowIRConcrete(copy.deepcopy(doc), platform, {})
            inst = conc.instance(platform, ignore_errors=True, fill_in_all=False)
            byid = {(x.get('stage', 0), x['name']): x for x in inst['components']}
            pvars = inst['variables']['default']
            app_deps = conc.get_application_dependencies()
        except Exception as exc:  # noqa
            runs.append({'order': None, 'error': classify_exc(exc)})
        else:
            for order in case_orders(case):
                comps = [copy.deepcopy(byid[(case['comps'][i]['stage'], case['comps'][i]['name'])]) for i in order]
                try:
                    res = F.FlowIR.apply_replicate(comps, copy.deepcopy(pvars), False, list(app_deps),
                                                   top_level_folders=None)
                    run = {'order': order, 'comps': _view(res)}
                    if layered:
                        inst2 = copy.deepcopy({k: v for k, v in inst.items() if k != 'components'})
                        inst2['components'] = res
                        run['layered'] = _layered_view(inst2, platform)
                    runs.append(run)
                except Exception as exc:  # noqa
                    runs.append({'order': order, 'error': classify_exc(exc)})
        out['runs'] = runs
        try:
            g = G.WorkflowGraph.graphFromFlowIR(copy.deepcopy(doc), {}, platform=platform, primitive=False)
            out.update(_graph_view(g))
        except Exception as exc:  # noqa
            out['graph_error'] = classify_exc(exc)
        if case.get('history') and with_history:
            out['history'] = impl_history(case, doc)
    finally:
        logging.disable(prev)
    return out


def impl_all(case):
    """{platform: impl_run} for every platform the case is driven on (the history, which names the platform of
    every step itself, is run once)"""
    outs = {}
    for k, p in enumerate(drive_of(case)):
        outs[p] = impl_run(case, p, with_history=(k == 0))
    return outs


# ----------------------------------------------------------------------------------------
# D: one configuration object, re-parametrised
# ----------------------------------------------------------------------------------------

def layer_files(files):
    """user variable files layered in the order given (the last one wins)"""
    g, st = {}, {}
    for f in files or []:
        g.update(f.get('global') or {})
        for k, d in (f.get('stages') or {}).items():
            st.setdefault(str(k), {}).update(d or {})
    return {'global': g, 'stages': st}


def with_user_vars(case, files):
    """The workflow a parametrisation with the user variable `files` stands for: the user variables (global section,
    then the section of the stage) are layered over the variables the package gives every stage; the variables a
    component defines for itself stay on top."""
    uv = layer_files(files)
    c2 = copy.deepcopy(case)
    c2.pop('history', None)
    for st in sorted({c['stage'] for c in c2['comps']}):
        inj = dict(uv['global'])
        inj.update(uv['stages'].get(str(st), {}))
        if inj:
            c2.setdefault('svars', {}).setdefault(str(st), {}).update(inj)
    return c2


def history_steps(case):
    """[(label, user variable files, primitive, platform)] of the steps of case['history'], the derived ones included"""
    h = case['history']
    steps = [('step%d' % k, s.get('files') or [], bool(s.get('primitive')), s.get('platform') or 'default')
             for k, s in enumerate(h['steps'])]
    if h.get('instantiate'):
        last = steps[-1]
        steps.append(('instantiate', last[1], False, last[3]))
        steps.append(('reload-instance', last[1], False, last[3]))
    return steps


def history_platforms(case):
    return [s[3] for s in history_steps(case)]


def _conf_view(conf, g, layered=False):
    concrete = conf.get_flowir_concrete(return_copy=False)
    res = {'comps': _view(concrete.get_components())}
    if layered:
        res['layered'] = _layered_view(None, conf.platform_name, concrete=concrete)
        res['platform'] = conf.platform_name
    res.update(_graph_view(g))
    return res


def impl_history(case, doc):
    """runs the history on ONE configuration object; one entry per step: None (primitive) | {'error'} | view"""
    import yaml
    F, G = _mods()
    import experiment.model.storage as ST
    import experiment.model.conf as CF
    import experiment.model.data as DT
    h = case['history']
    layered = has_platforms(case)
    root = tempfile.mkdtemp(prefix='c03-hist-')
    res = []
    cwd = os.getcwd()
    try:
        pkg = os.path.join(root, 'wf.package')
        for d in ('conf/x', 'data', 'bin'):
            os.makedirs(os.path.join(pkg, d))
        with open(os.path.join(pkg, 'conf', 'flowir_package.yaml'), 'w') as fh:
            yaml.safe_dump(doc, fh, sort_keys=False)
        os.chdir(root)

        def write_files(k, files):
            paths = []
            for j, f in enumerate(files or []):
                d = {}
                if f.get('global'):
                    d['global'] = dict(f['global'])
                if f.get('stages'):
                    d['stages'] = {int(s): dict(v) for s, v in f['stages'].items()}
                pth = os.path.join(root, 'vars-%d-%d.yaml' % (k, j))
                with open(pth, 'w') as fh:
                    yaml.safe_dump(d or {'global': {}}, fh)
                paths.append(pth)
            return paths

        package, conf, paths = None, None, []
        for k, st in enumerate(h['steps']):
            paths = write_files(k, st.get('files'))
            prim = bool(st.get('primitive'))
            plat = st.get('platform')           # None: the default platform
            try:
                g = None
                if h['entry'] == 'package':
                    if k == 0:
                        package = ST.ExperimentPackage.packageFromLocation(pkg, platform=plat, primitive=prim,
                                                                           variable_files=paths)
                        conf = package.configuration
                    else:
                        g = G.WorkflowGraph.graphFromPackage(
                            package, platform=plat, primitive=prim, variable_files=paths,
                            createInstanceConfiguration=False, updateInstanceConfiguration=False)
                        conf = g.configuration
                else:
                    if k == 0:
                        conf = CF.ExperimentConfigurationFactory.configurationForExperiment(
                            pkg, platform=plat, createInstanceFiles=False, updateInstanceFiles=False, primitive=prim,
                            variable_files=paths)
                    else:
                        conf.parametrize(platform=plat, variable_files=paths, systemvars=None, is_instance=False,
                                         createInstanceFiles=False, primitive=prim, updateInstanceFiles=False)
                if prim:
                    res.append(None)
                    continue
                if g is None:
                    g = G.WorkflowGraph(conf, platform=conf.platform_name, primitive=False)
                res.append(_conf_view(conf, g, layered))
            except Exception as exc:  # noqa
                res.append({'error': classify_exc(exc)})
                if conf is None:
                    # the constructor raised: there is no object to parametrise again
                    res.extend({'skipped': 'constructor-raised'} for _ in h['steps'][k + 1:])
                    break
        if h.get('instantiate') and len(res) == len(h['steps']):
            exp = None
            try:
                if package is None:
                    package = ST.ExperimentPackage.packageFromLocation(pkg)
                exp = DT.Experiment.experimentFromPackage(package, location=root, variable_files=paths or None,
                                                          platform=h['steps'][-1].get('platform'))
                res.append(_conf_view(exp.configuration, exp.experimentGraph, layered))
            except Exception as exc:  # noqa
                res.append({'error': classify_exc(exc)})
            try:
                if exp is None:
                    res.append({'skipped': 'no-instance'})
                    return res
                g = G.WorkflowGraph.graphFromExperimentInstanceDirectory(
                    exp.instanceDirectory, primitive=False, createInstanceConfiguration=False,
                    updateInstanceConfiguration=False)
                res.append(_conf_view(g.configuration, g, layered))
            except Exception as exc:  # noqa
                res.append({'error': classify_exc(exc)})
    finally:
        os.chdir(cwd)
        shutil.rmtree(root, ignore_errors=True)
    return res


def parse_ref(ref, stage):
    """(kind, ...) of a reference string of the replicated FlowIR, by the real parser"""
    F, _ = _mods()
    try:
        st, name, fn, method = F.FlowIR.ParseDataReferenceFull(ref, stage)
    except Exception as exc:  # noqa
        return ['unparsable', ref, type(exc).__name__]
    if st is None:
        return ['direct', ref]
    return ['comp', st, name, fn, method]


# ----------------------------------------------------------------------------------------
# oracle: the property text, evaluated on the structured case
# ----------------------------------------------------------------------------------------

def expected(case):
    """What the property says the expansion is.  Returns {'error': kind} | {'nodes', 'edges', 'comps'}."""
    case = normalise(case)
    comps = case['comps']
    byid = {(c['stage'], c['name']): c for c in comps}
    # what every component requests, each resolved in its OWN scope chain (component over stage over global)
    own = {k: count_of(case, c) for k, c in byid.items()}
    flags = {k: is_agg(case, c) for k, c in byid.items()}
    if UNRESOLVED in own.values() or UNRESOLVED in flags.values():
        return {'error': 'unresolved'}
    aggs = {k for k in byid if flags[k]}
    count = {}
    # region: reachable from a replication point without crossing an aggregator; comps are topologically ordered
    for c in comps:
        k = (c['stage'], c['name'])
        vals = set()
        if own[k] is not None:
            vals.add(own[k])
        for r in c['refs']:
            if r['comp']:
                p = (r['stage'], r['name'])
                if p not in byid:
                    return {'error': 'unknown'}
                if p not in aggs and count.get(p) is not None:
                    vals.add(count[p])
        if len(vals) > 1:
            return {'error': 'inconsistent'}
        count[k] = vals.pop() if vals else None
    region = {k for k in byid if count[k] and k not in aggs}
    res = []
    for c in comps:
        k = (c['stage'], c['name'])
        n = count[k]
        if k in region:
            for i in range(n):
                refs = []
                for r in c['refs']:
                    if not r['comp']:
                        refs.append(['direct', r['text']])
                    elif (r['stage'], r['name']) in region:
                        refs.append(['comp', r['stage'], '%s%d' % (r['name'], i), r.get('file'), r['method']])
                    else:
                        refs.append(['comp', r['stage'], r['name'], r.get('file'), r['method']])
                rvars = {}
                for a, r in (c.get('rvars') or {}).items():
                    rvars[a] = ['comp', r['stage'], ('%s%d' % (r['name'], i)) if (r['stage'], r['name']) in region
                                else r['name'], r.get('file'), r['method']]
                res.append({'id': cid(c['stage'], '%s%d' % (c['name'], i)), 'stage': c['stage'], 'refs': refs,
                            'replica': i, 'replicate': n, 'of': cid(*k), 'rvars': rvars,
                            'vars': dict({str(a): str(b) for a, b in (c.get('vars') or {}).items()},
                                         replica=str(i))})
        else:
            refs = []
            for r in c['refs']:
                if not r['comp']:
                    refs.append(['direct', r['text']])
                elif (r['stage'], r['name']) in region and k in aggs:
                    for i in range(count[(r['stage'], r['name'])]):
                        refs.append(['comp', r['stage'], '%s%d' % (r['name'], i), r.get('file'), r['method']])
                else:
                    refs.append(['comp', r['stage'], r['name'], r.get('file'), r['method']])
            res.append({'id': cid(*k), 'stage': c['stage'], 'refs': refs, 'replica': None, 'replicate': None,
                        'of': cid(*k), 'vars': {str(a): str(b) for a, b in (c.get('vars') or {}).items()},
                        'rvars': {a: ['comp', r['stage'], r['name'], r.get('file'), r['method']]
                                  for a, r in (c.get('rvars') or {}).items()}})
    nodes = [o['id'] for o in res]
    if len(set(nodes)) != len(nodes):
        return {'error': 'duplicate'}
    edges = set()
    for o in res:
        for r in o['refs']:
            if r[0] == 'comp':
                edges.add((cid(r[1], r[2]), o['id']))
    return {'nodes': sorted(nodes), 'edges': sorted([list(e) for e in edges]), 'comps': res}


def _check_components(exp, comps, where):
    """the replicated components `comps` against the expected expansion"""
    fails = []
    got = {c['id']: c for c in comps}
    want = {o['id']: o for o in exp['comps']}
    if sorted(got) != sorted(want) or len(comps) != len(exp['comps']):
        fails.append(('wrong-component-set', dict(where, expected=sorted(want), got=sorted(c['id'] for c in comps))))
        return fails
    ids = set(got)
    for k in sorted(want):
        o, g = want[k], got[k]
        prs = [parse_ref(r, g['stage']) for r in g['refs']]
        if prs != o['refs']:
            fails.append(('wrong-references', dict(where, component=k, expected=o['refs'], got=g['refs'])))
        for p in prs:
            if p[0] == 'unparsable' or (p[0] == 'comp' and cid(p[1], p[2]) not in ids):
                fails.append(('dangling-reference', dict(where, component=k, reference=p)))
        # a copy knows its own index (variables.replica = i, whatever the component defines for `replica` itself);
        # every other variable, and every variable of a component that is not a copy, is the component's own
        want_replica = o['vars'].get('replica')
        got_replica = None if g['replica'] is None else str(g['replica'])
        if want_replica is not None and '%(' in want_replica and got_replica is not None:
            # a value that refers to another variable may be handed back resolved (configuration object) or as
            # written (FlowIR dictionary): not compared
            got_replica = want_replica
        got_replicate = g['replicate']
        if isinstance(got_replicate, str):
            # (read back through an override block that restates workflowAttributes.replicate: as written there)
            got_replicate = int(got_replicate) if got_replicate.isdigit() else o['replicate']
        if got_replica != want_replica or (o['replica'] is not None and got_replicate != o['replicate']):
            fails.append(('wrong-replica-variable', dict(where, component=k, expected=[want_replica, o['replicate']],
                                                         got=[g['replica'], g['replicate']])))
        nested = {a for a, b in o['vars'].items() if '%(' in b} | set(o.get('rvars') or {})
        if 'vars' in g and {a: b for a, b in g['vars'].items() if a != 'replica' and a not in nested} != \
                {a: b for a, b in o['vars'].items() if a != 'replica' and a not in nested}:
            fails.append(('component-variables-changed', dict(where, component=k, expected=o['vars'], got=g['vars'])))
        # a component-level variable that holds a reference: in copy i it names copy i of a replicated producer
        for a, wantv in sorted((o.get('rvars') or {}).items()):
            gotv = (g.get('vars') or {}).get(a)
            pr = parse_ref(gotv, g['stage']) if gotv is not None else None
            if pr != wantv:
                fails.append(('wrong-reference-in-variable', dict(where, component=k, variable=a, expected=wantv,
                                                                  got=gotv)))
            elif cid(pr[1], pr[2]) not in ids:
                fails.append(('dangling-reference', dict(where, component=k, variable=a, reference=pr)))
    return fails


def _ref_regex(owner_stage, stage, name, file, method):
    """a reference to component (stage, name) in either spelling that names it from a component of `owner_stage`"""
    body = re.escape(name) + ('' if file is None else '/' + re.escape(file)) + ':' + re.escape(method)
    pre = re.escape('stage%d.' % stage)
    return (pre if stage != owner_stage else '(?:%s)?' % pre) + body


def command_line_tokens(c):
    """the tokens of the command line of component c as the generator wrote it (None when they are not known): the
    command line is <text added later> + render_argt(c['argt']) + <text added later>"""
    argt = c.get('argt')
    if not argt:
        return None
    core = render_argt(argt)
    pos = c['args'].find(core) if core else -1
    if pos < 0:
        return None
    return [{'lit': c['args'][:pos]}] + list(argt) + [{'lit': c['args'][pos + len(core):]}]


def command_line_regex(c, tokens, o, counts, aggregates):
    """What the property says about the command line of the emitted component `o` of component c: the text the user
    wrote around the references is unchanged; a reference (with the file path that follows it) to a replicated producer
    is, in copy i, the reference to copy i with that path; in an aggregating component it is the N references to the
    copies 0..N-1, in index order, each with that path (separated by white space, or by commas for `path,`); every
    other reference is unchanged.  Spelling (relative / absolute) of a reference is free."""
    parts = []
    for t in tokens:
        if 'lit' in t:
            parts.append(re.escape(t['lit']))
            continue
        r = t['ref']
        path = re.escape(t.get('path') or '')
        comma = ',' if t.get('comma') else ''
        n = counts.get(cid(r['stage'], r['name']))

        def one(name):
            return _ref_regex(c['stage'], r['stage'], name, r.get('file'), r['method']) + path

        if n is not None and o['replica'] is not None:
            parts.append(one('%s%d' % (r['name'], o['replica'])) + comma)
        elif n is not None and aggregates:
            sep = r'(?:[ \t]+|[ \t]*,[ \t]*)' if comma else r'[ \t]+'
            parts.append(sep.join(one('%s%d' % (r['name'], i)) for i in range(n)) + (',?' if comma else ''))
        else:
            parts.append(one(r['name']) + comma)
    return '^' + ''.join(parts) + '$'


def _check_args(case, exp, comps, where):
    """the command lines of the replicated components `comps` (raw: before variables are substituted)"""
    fails = []
    if 'error' in exp or not isinstance(comps, list):
        return fails
    got = {c['id']: c for c in comps}
    counts = {o['of']: o['replicate'] for o in exp['comps'] if o['replica'] is not None}
    byid = {cid(c['stage'], c['name']): c for c in case['comps']}
    for o in exp['comps']:
        c, g = byid[o['of']], got.get(o['id'])
        tokens = command_line_tokens(c)
        if g is None or tokens is None:
            continue
        aggregates = is_agg(case, c) is True
        rx = command_line_regex(c, tokens, o, counts, aggregates)
        if re.match(rx, g['args'], re.S) is None:
            uses = any('ref' in t and cid(t['ref']['stage'], t['ref']['name']) in counts for t in tokens)
            slug = 'copy-command-line-does-not-consume-its-own-copies' if o['replica'] is not None else \
                'aggregator-command-line-does-not-consume-the-copies-in-index-order' if (aggregates and uses) else \
                'command-line-outside-replicated-region-changed'
            fails.append((slug, dict(where, component=o['id'], written=c['args'], got=g['args'], expected_regex=rx)))
    return fails


REPLICA_TOKEN = re.compile(r'rep=(\S*)')


def _check_resolved(case, exp, resolved, where):
    """what a user of the graph sees of `replica`: in copy i the variable and every `rep=%(replica)s` of the command
    line are i; a component that is not a copy sees the `replica` of its own scope chain (if any)"""
    fails = []
    byid = {cid(c['stage'], c['name']): c for c in case['comps']}
    for o in exp['comps']:
        r = (resolved or {}).get(o['id'])
        if r is None:
            continue
        if 'error' in r:
            fails.append(('configuration-of-node-raises', dict(where, component=o['id'], error=r['error'])))
            continue
        if 'refs' in r:
            prs = [parse_ref(x, r.get('stage', o['stage'])) for x in r['refs']]
            if prs != o['refs']:
                fails.append(('wrong-references-of-graph-node', dict(where, component=o['id'], expected=o['refs'],
                                                                     got=r['refs'])))
        toks = REPLICA_TOKEN.findall(r['args'])
        if o['replica'] is not None:
            want = str(o['replica'])
            if r['replica'] != want or any(t != want for t in toks):
                fails.append(('copy-does-not-know-its-replica-index',
                              dict(where, component=o['id'], expected=want, variable=r['replica'], arguments=r['args'])))
        else:
            v = chain_lookup(case, byid[o['of']], 'replica')
            if v is not None and '%(' not in str(v) and (r['replica'] != str(v) or any(t != str(v) for t in toks)):
                fails.append(('variable-of-unreplicated-component-changed',
                              dict(where, component=o['id'], expected=str(v), variable=r['replica'],
                                   arguments=r['args'])))
    return fails


def _check_view(case, exp, view, where):
    """one loaded configuration + graph (a step of a history) against the expected expansion"""
    fails = []
    if 'error' in exp:
        if 'error' not in view:
            fails.append(('invalid-workflow-accepted' if exp['error'] != 'duplicate' else 'colliding-names-accepted',
                          dict(where, expected=exp)))
        return fails
    if 'error' in view:
        return [('loader-rejects-valid-workflow', dict(where, error=view['error']))]
    fails.extend(_check_components(exp, view['comps'], where))
    fails.extend(_check_layered(exp, view.get('layered'), where))
    fails.extend(_check_args(case, exp, view.get('layered') if view.get('layered') is not None else view['comps'],
                             where))
    if view['nodes'] != exp['nodes']:
        fails.append(('wrong-node-set', dict(where, expected=exp['nodes'], got=view['nodes'])))
    if view['edges'] != exp['edges']:
        fails.append(('wrong-edge-set', dict(where, expected=exp['edges'], got=view['edges'])))
    fails.extend(_check_resolved(case, exp, view.get('resolved'), where))
    return fails


def _check_layered(exp, layered, where):
    """the replicated FlowIR read back through get_component_configuration(platform) against the expected expansion"""
    if layered is None:
        return []
    where = dict(where, read_through='FlowIRConcrete.get_component_configuration(raw=True, platform)')
    if isinstance(layered, dict):
        return [('replicated-flowir-cannot-be-read-back', dict(where, error=layered['error']))]
    return _check_components(exp, layered, where)


def oracle_history(case, out):
    fails = []
    hist = out.get('history') or []
    steps = history_steps(case)
    for k, (label, files, prim, plat) in enumerate(steps):
        if prim:
            continue
        where = {'path': 'history:%s' % case['history']['entry'], 'step': label, 'platform': plat,
                 'user_variables': layer_files(files)}
        if k < len(hist) and hist[k] is not None and 'skipped' in hist[k]:
            continue
        if k >= len(hist) or hist[k] is None:
            fails.append(('history-step-not-observed', where))
            continue
        c2 = with_user_vars(effective(case, plat), files)
        fails.extend(_check_view(c2, expected(c2), hist[k], where))
    return fails


def oracle_all(case, outs):
    """the oracle on every platform the case is driven on"""
    fails = []
    for p in drive_of(case):
        fails.extend(oracle(case, outs[p], p))
    seen, uniq = set(), []
    for w, d in fails:
        if w not in seen:
            seen.add(w)
            uniq.append((w, d))
    return uniq


def oracle(case, out, platform='default'):
    """list of (slug, detail) — empty when the implementation's result is what the property requires of the workflow
    the document stands for on `platform`"""
    full = case
    case = effective(case, platform)
    exp = expected(case)
    fails = []
    if full.get('history') and 'history' in out:
        fails.extend(oracle_history(full, out))
    fails.extend((w, dict(d, platform=platform)) for w, d in _oracle_main(case, exp, out))
    seen, uniq = set(), []
    for w, d in fails:          # one failure per slug is enough for the verdict; keep the first of each
        if w not in seen:
            seen.add(w)
            uniq.append((w, d))
    return uniq


def _oracle_main(case, exp, out):
    fails = []
    runs = [r for r in out.get('runs', []) if r.get('order') is not None]
    if 'error' in exp:
        # not a workflow the property talks about (inconsistent counts / a count given through a variable that the
        # component cannot see / generated names collide): it must not be expanded silently into something else; a
        # rejection is the proper outcome
        if exp['error'] in ('inconsistent', 'unknown', 'unresolved'):
            if 'replicate_error' not in out and 'graph_error' not in out:
                fails.append(('invalid-workflow-accepted', {'expected': exp}))
            for r in runs:
                if 'error' not in r:
                    fails.append(('invalid-workflow-accepted', {'expected': exp, 'processing_order': r['order']}))
        elif 'graph_error' not in out:
            fails.append(('colliding-names-accepted', {'expected': exp}))
        return fails
    if 'replicate_error' in out:
        return [('replication-raises-on-valid-workflow', {'error': out['replicate_error']})]
    fails.extend(_check_components(exp, out['comps'], {'path': 'FlowIRConcrete.replicate'}))
    fails.extend(_check_layered(exp, out.get('layered'), {'path': 'FlowIRConcrete.replicate'}))
    fails.extend(_check_args(case, exp, out['layered'] if out.get('layered') is not None else out['comps'],
                             {'path': 'FlowIRConcrete.replicate'}))
    # the same expansion whatever the order in which the components are processed
    for r in out.get('runs', []):
        where = {'path': 'FlowIR.apply_replicate', 'processing_order': r['order']}
        if 'error' in r:
            fails.append(('replication-raises-on-valid-workflow', dict(where, error=r['error'])))
        else:
            fails.extend(_check_components(exp, r['comps'], where))
            fails.extend(_check_layered(exp, r.get('layered'), where))
            fails.extend(_check_args(case, exp, r['layered'] if r.get('layered') is not None else r['comps'], where))
    if 'graph_error' in out:
        fails.append(('loader-rejects-valid-workflow', {'error': out['graph_error']}))
    else:
        if out['nodes'] != exp['nodes']:
            fails.append(('wrong-node-set', {'expected': exp['nodes'], 'got': out['nodes']}))
        if out['edges'] != exp['edges']:
            fails.append(('wrong-edge-set', {'expected': exp['edges'], 'got': out['edges']}))
        fails.extend(_check_resolved(case, exp, out.get('resolved'), {'path': 'WorkflowGraph.graphFromFlowIR'}))
    return fails


# ----------------------------------------------------------------------------------------
# generator
# ----------------------------------------------------------------------------------------

def gen_ref(rng, cstage, p, declared_files=None):
    long = True if p['stage'] != cstage else rng.random() < 0.4
    return {'comp': True, 'stage': p['stage'], 'long': long, 'name': p['name'],
            'file': rng.choice(FILES), 'method': 'ref' if rng.random() < 0.25 else rng.choice(METHODS)}


# what a command line puts around a reference: (text right before it, text GLUED right after it).  The second half of the
# list is ordinary shell: command substitution, pipes, redirections, command separators directly after the reference
# or after the file path that follows it
AROUND = [('', ''), ('', ''), ('', ''), ('--in=', ''), ('-f ', ''), ('"', '"'), ("'", "'"), ('(', ''),
          ('$(cat ', ')'), ('"$(cat ', ')"'), ('`cat ', '`'), ('(', ')'), ('', ';'), ('', '|'), ('', '| uniq'),
          ('', '>all.csv'), ('', ';echo done'), ('sort <', '&'), ('', '&&'), ('x=$(cat ', '); echo $x'),
          ('', ');'), ('[ -f ', ' ]'), ('', '>>log'), ('', '|tee o.txt')]
PATHS = ['/sub/x.txt', '/f*.dat', '/a/b', '/x.txt', '/A', '/out/e.csv', '/res_1.csv', '/d.ir/f.dat']


# file names with characters outside [A-Za-z0-9_.*]: after an AGGREGATED reference the code cuts such a path at the first
# of them (finding C03-aggregated-path-cut-at-non-word-character); they are generated once the coordinator has recorded
# the finding (known_findings.json), so that the run rediscovers it; until then the family is left out
PATHS_ODD = ['/out-1.txt', '/a+b.csv', '/run~1/x.dat', '/e@2.csv', '/d-1/f.dat']
ODD_FINDING = 'C03-aggregated-path-cut-at-non-word-character'
_ODD = []


def odd_paths_enabled():
    return True     # repaired in /repo ('fix: a file path after an aggregated reference may contain ...'): ordinary inputs now


def _odd_paths_enabled_before_the_repair():
    if not _ODD:
        try:
            with open(os.path.join(os.path.dirname(os.path.dirname(os.path.abspath(__file__))),
                                   'known_findings.json')) as f:
                doc = json.load(f)
            entries = doc if isinstance(doc, list) else (doc.get('findings') or [])
            _ODD.append(any(isinstance(e, dict) and e.get('id') == ODD_FINDING and e.get('status') == 'known'
                            for e in entries))
        except Exception:  # noqa
            _ODD.append(False)
    return _ODD[0]


def render_argt(argt):
    """the command line a list of tokens stands for: {'lit': text} | {'ref': reference, 'path': '/..' | '', 'comma': bool}"""
    return ''.join(t['lit'] if 'lit' in t else render(t['ref']) + t.get('path', '') + (',' if t.get('comma') else '')
                   for t in argt)


def gen_args(rng, c, comps):
    """-> (command line, its tokens).  Every token that is a reference to a component is kept as such (with the
    spelling used, the file path appended to it and the comma of the aggregator's `path,` idiom): the oracle knows what
    the user wrote around each reference."""
    argt = []
    uses = list(c['refs'])
    for r in c['refs']:
        # the same reference used again (another file of the same producer)
        if r['comp'] and r['method'] == 'ref' and rng.random() < 0.3:
            uses.insert(rng.randrange(len(uses) + 1), r)
    for r in uses:
        if rng.random() < 0.2 or (r['comp'] and r['method'] == 'copyout'):
            # (`:copyout` on a command line is read as `:copy` + `out` by the loader's argument scanner -- not C03)
            continue
        pre, post = rng.choice(AROUND) if rng.random() < 0.6 else rng.choice(AROUND[:8])
        if argt:
            pre = ' ' + pre
        if r['comp']:
            alt = dict(r)
            if r['stage'] == c['stage'] and rng.random() < 0.3:
                alt['long'] = not r['long']
            tok = {'ref': alt, 'path': '', 'comma': False}
            if r['method'] == 'ref' and rng.random() < 0.5:
                tok['path'] = rng.choice(PATHS)
                tok['comma'] = rng.random() < 0.2
                if odd_paths_enabled() and rng.random() < 0.1:
                    tok['path'] = rng.choice(PATHS_ODD)
            if pre:
                argt.append({'lit': pre})
            argt.append(tok)
        else:
            argt.append({'lit': pre + render(r)})
        if post:
            argt.append({'lit': post})
        if rng.random() < 0.15:
            argt.append({'lit': ' ' + rng.choice(['-n', '--flag', '-x=1', '>', 'out.txt', 'A', 'ref'])})
    return render_argt(argt), argt


def _fmt_count(rng, n):
    return rng.choice([n, str(n)])


def _fmt_flag(rng, b):
    return rng.choice(TRUE_SPELLINGS if b else FALSE_SPELLINGS)


def assign_var(rng, case, var, users, fmt, decoy, p_sibling):
    """Define variable `var` in the scopes of the case so that every user (index of a component, wanted value) finds its
    wanted value in ITS scope chain, from a scope drawn at random (global / its stage / itself), and so that as many
    other scopes as possible hold a different value (decoys): the layers it overrides, the stages without users and
    -- the point -- sibling components that define `var` for themselves without using it for this attribute."""
    comps, gvars, svars = case['comps'], case['gvars'], case['svars']
    want = dict(users)
    src = {i: rng.choice(['global', 'global', 'stage', 'own']) for i in want}
    gl = [i for i in sorted(src) if src[i] == 'global']
    gval = want[rng.choice(gl)] if gl else None
    for i in gl:
        if want[i] != gval:
            src[i] = 'own'
    taken = set(want.values())
    for st in sorted({c['stage'] for c in comps}):
        in_st = [i for i in sorted(src) if comps[i]['stage'] == st]
        stu = [i for i in in_st if src[i] == 'stage']
        if any(src[i] == 'global' for i in in_st):
            for i in stu:                       # the stage must not define it: the global value has to shine through
                src[i] = 'global' if want[i] == gval else 'own'
        elif stu:
            sval = want[rng.choice(stu)]
            for i in stu:
                if want[i] != sval:
                    src[i] = 'own'
            svars.setdefault(str(st), {})[var] = fmt(rng, sval)
        elif rng.random() < 0.4:
            svars.setdefault(str(st), {})[var] = fmt(rng, decoy(rng, taken))
    if gval is not None:
        gvars[var] = fmt(rng, gval)
    elif rng.random() < 0.6:
        gvars[var] = fmt(rng, decoy(rng, taken))
    for i in sorted(src):
        if src[i] == 'own':
            comps[i]['vars'][var] = fmt(rng, want[i])
    for j, c in enumerate(comps):
        if j not in src and var not in c['vars'] and rng.random() < p_sibling:
            c['vars'][var] = fmt(rng, decoy(rng, taken))
    return src


def _decoy_count(rng, taken):
    return rng.choice([x for x in (1, 2, 3, 4, 5, 6, 7) if x not in taken])


def _decoy_flag(rng, taken):
    if len(taken) == 1:
        return not next(iter(taken))
    return rng.random() < 0.5


def assign_scopes(rng, case, p_var, p_sibling):
    """Give (some of) the replica counts and aggregate flags of the case through variables; the same one or two
    variable names are shared by all components of the case."""
    comps = case['comps']
    case['gvars'], case['svars'] = {}, {}
    for c in comps:
        c['vars'] = {}
    names = rng.sample(COUNT_VARS, rng.choice([1, 1, 2]))
    users = {}
    for i, c in enumerate(comps):
        if c.get('repl') and rng.random() < p_var:
            var = rng.choice(names)
            users.setdefault(var, []).append((i, c['repl']['n']))
            c['repl'] = {'how': 'var', 'var': var}
        elif c.get('repl'):
            c['repl'] = {'how': rng.choice(['int', 'int', 'str']), 'n': c['repl']['n']}
    for var in names:
        if var in users:
            assign_var(rng, case, var, users[var], _fmt_count, _decoy_count, p_sibling)
    fname = rng.choice([x for x in FLAG_VARS if x not in names])
    fusers = []
    for i, c in enumerate(comps):
        if c.get('agg') is not None and rng.random() < p_var:
            fusers.append((i, flag_value(c['agg'])))
            c['agg'] = {'var': fname}
        elif c.get('agg') is None and c['refs'] and rng.random() < p_var * 0.15:
            fusers.append((i, False))          # a component that says "aggregate: no" through the variable
            c['agg'] = {'var': fname}
    if fusers:
        assign_var(rng, case, fname, fusers, _fmt_flag, _decoy_flag, p_sibling)
    if rng.random() < 0.04:
        # a count given through a variable that only OTHER components define: not visible to the component
        cands = [i for i, c in enumerate(comps) if not c.get('repl') and c.get('agg') is None]
        others = [j for j in range(len(comps))]
        if cands and len(comps) > 1:
            i = rng.choice(cands)
            var = rng.choice(['hidden', 'k'] + names)
            if chain_lookup(case, comps[i], var) is None:
                comps[i]['repl'] = {'how': 'var', 'var': var}
                for j in others:
                    if j != i and rng.random() < 0.7:
                        comps[j]['vars'][var] = _fmt_count(rng, rng.choice([1, 2, 3]))


REPLICA_VALUES = [0, '0', 1, 7, '3', 'none', 2]


def decorate_replica(rng, case, p_own=0.35):
    """Variables called like the injected one: `replica` defined by components for themselves (inside and outside
    the replicated region), by stages, globally; `rep=%(replica)s` on the command line of every component that can
    resolve it (a member of the expected region, or `replica` in its scope chain)."""
    exp = expected(case)
    region = set() if 'error' in exp else {o['of'] for o in exp['comps'] if o['replica'] is not None}
    count_vars = sorted({c['repl']['var'] for c in case['comps'] if (c.get('repl') or {}).get('how') == 'var'})
    if rng.random() < 0.3:
        case['gvars']['replica'] = rng.choice(REPLICA_VALUES)
    for st in sorted({c['stage'] for c in case['comps']}):
        if rng.random() < 0.25:
            case['svars'].setdefault(str(st), {})['replica'] = rng.choice(REPLICA_VALUES)
    for c in case['comps']:
        k = cid(c['stage'], c['name'])
        if rng.random() < p_own:
            v = rng.choice(REPLICA_VALUES)
            if k in region and count_vars and rng.random() < 0.3:
                # what a component exported with dsl_component_blueprint() carries: replica: "%(numberOfX)s"
                cv = rng.choice(count_vars)
                if chain_lookup(case, c, cv) is not None:
                    v = '%%(%s)s' % cv
            c['vars']['replica'] = v
        if (k in region or chain_lookup(case, c, 'replica') is not None) and rng.random() < 0.7:
            c['args'] = (c['args'] + ' rep=%(replica)s').strip()
            if rng.random() < 0.2:
                c['args'] = 'rep=%(replica)s ' + c['args']


def _history_values(rng, case, var):
    """a value for `var` in a user variable file: another count for a count variable, another flag for a flag"""
    is_flag = any(isinstance(c.get('agg'), dict) and c['agg']['var'] == var for c in case['comps'])
    is_count = any((c.get('repl') or {}).get('how') == 'var' and c['repl']['var'] == var for c in case['comps'])
    if var == 'replica':
        return rng.choice([5, '9', 0])
    if is_flag and not is_count:
        return _fmt_flag(rng, rng.random() < 0.5)
    n = rng.choice([1, 2, 3, 4, 5, 5, 6, 11]) if rng.random() < 0.9 else 12
    return _fmt_count(rng, n)


def gen_history(rng, case):
    """Steps of one configuration object: [{'files': [user variable documents], 'primitive': bool}, ...].  The files
    set the variables through which the counts / flags of the case are given (global section and sections of single
    stages), a `replica` now and then, and names nobody reads."""
    names = sorted({c['repl']['var'] for c in case['comps'] if (c.get('repl') or {}).get('how') == 'var'} |
                   {c['agg']['var'] for c in case['comps'] if isinstance(c.get('agg'), dict)})
    if not names:
        return None
    stages = sorted({c['stage'] for c in case['comps']})

    def gen_file():
        f = {}
        for v in names:
            r = rng.random()
            if r < 0.65:
                f.setdefault('global', {})[v] = _history_values(rng, case, v)
            elif r < 0.8:
                f.setdefault('stages', {}).setdefault(str(rng.choice(stages)), {})[v] = _history_values(rng, case, v)
        if rng.random() < 0.15:
            f.setdefault('global', {})['replica'] = _history_values(rng, case, 'replica')
        if rng.random() < 0.15:
            f.setdefault('global', {})['unused'] = 'x'
        return f

    entry = rng.choice(['package', 'package', 'conf'])
    steps = []
    for k in range(rng.choice([2, 3, 3, 4])):
        files = [gen_file() for _ in range(rng.choice([0, 1, 1, 1, 2]))]
        steps.append({'files': [f for f in files if f], 'primitive': rng.random() < 0.25})
    if entry == 'package':
        steps[0] = {'files': [], 'primitive': True} if rng.random() < 0.8 else dict(steps[0], primitive=True)
    steps[-1]['primitive'] = False
    h = {'entry': entry, 'steps': steps}
    if entry == 'package' and rng.random() < 0.25:
        h['instantiate'] = True
    return h


def gen_history_case(rng):
    """a workflow whose counts (and some flags) come through global / stage variables + a history"""
    for _ in range(20):
        case = gen_case(rng, kind=rng.choice(['scopes', 'chain', 'plain', 'cross-stage']), p_var=0.95, p_sibling=0.3,
                        p_own=0.15)
        if 'error' in expected(case):
            continue
        h = gen_history(rng, case)
        if h:
            case['kind'] = 'history'
            case['history'] = h
            case['orders'] = case['orders'][:2]
            if any('%(replica)s' in c['args'] for c in case['comps']):
                # a step may turn a member of the region into an aggregator / a plain component: its command line
                # must still resolve (to the global value) -- copies see their index nevertheless
                case['gvars'].setdefault('replica', rng.choice(REPLICA_VALUES))
            return case
    return None


def _same_ref(a, b):
    return a['comp'] and b['comp'] and (a['stage'], a['name'], a.get('file'), a['method']) == \
        (b['stage'], b['name'], b.get('file'), b['method'])


def add_platforms(rng, case):
    """Adds 1-2 platforms to a plain case: platform sections of the variables the counts / flags come from (global
    and stage sections, so that the platform's global value competes with the default section of the stage), and
    component-level `override.<platform>` blocks that restate references (re-spelled, reordered, with further
    producers, sometimes without one), command.arguments, variables (decoys for the count / flag variables, `replica`,
    names nobody reads), workflowAttributes.replicate / aggregate."""
    comps = case['comps']
    names = rng.sample(PLATFORMS, rng.choice([1, 1, 2]))
    cvars = sorted({c['repl']['var'] for c in comps if (c.get('repl') or {}).get('how') == 'var'})
    fvars = sorted({c['agg']['var'] for c in comps if isinstance(c.get('agg'), dict)})
    stages = sorted({c['stage'] for c in comps})
    counts = [count_of(case, c) for c in comps if c.get('repl')]
    counts = [n for n in counts if isinstance(n, int)] or [2]
    case['plats'] = {}
    for p in names:
        pv = {'global': {}, 'stages': {}}
        newn = rng.choice([1, 2, 3, 4, 5]) if rng.random() < 0.9 else 11
        for v in cvars:
            r = rng.random()
            if r < 0.45:
                pv['global'][v] = _fmt_count(rng, newn)
            elif r < 0.6:
                pv['stages'].setdefault(str(rng.choice(stages)), {})[v] = _fmt_count(rng, newn)
        for v in fvars:
            if rng.random() < 0.3:
                pv['global'][v] = _fmt_flag(rng, rng.random() < 0.5)
        if rng.random() < 0.15:
            pv['global']['replica'] = rng.choice(REPLICA_VALUES)
        if rng.random() < 0.2:
            pv['global']['unused'] = 'x'
        case['plats'][p] = pv
        for idx, c in enumerate(comps):
            if rng.random() > (0.6 if c['refs'] else 0.25):
                continue
            o = {}
            earlier = comps[:idx]
            if c['refs'] and rng.random() < 0.75:
                refs = []
                for r in c['refs']:
                    if rng.random() < 0.12 and len(c['refs']) > 1 and \
                            not any(_same_ref(r, x) for x in (c.get('rvars') or {}).values()):
                        continue                                  # the platform does without this producer
                    r2 = dict(r)
                    if r['comp'] and r['stage'] == c['stage'] and rng.random() < 0.4:
                        r2['long'] = not r['long']
                    refs.append(r2)
                for q in rng.sample(earlier, min(len(earlier), rng.choice([0, 0, 1, 1, 2]))):
                    refs.append(gen_ref(rng, c['stage'], q))
                rng.shuffle(refs)
                o['refs'] = refs
                o['args'], o['argt'] = gen_args(rng, {'refs': refs, 'stage': c['stage']}, comps)
            elif c['refs'] and rng.random() < 0.5:
                o['args'], o['argt'] = gen_args(rng, c, comps)
                o['args'] = (rng.choice(['-p ', '--platform ', '']) + o['args']).strip()
            if rng.random() < 0.35:
                vs = {}
                for v in cvars + fvars:
                    if rng.random() < 0.4:
                        vs[v] = _fmt_count(rng, rng.choice(counts + [newn])) if v in cvars \
                            else _fmt_flag(rng, rng.random() < 0.5)
                if rng.random() < 0.35:
                    vs['replica'] = rng.choice(REPLICA_VALUES)
                if rng.random() < 0.3:
                    vs['unused'] = 'y'
                if vs:
                    o['vars'] = vs
            if c.get('repl') and rng.random() < 0.25:
                # (inside an override block the loader accepts an int or %(var)s, a bool or %(var)s: no "3" / "yes")
                o['repl'] = {'how': 'int', 'n': rng.choice(counts + [newn])}
            if c['refs'] and not c.get('rvars') and rng.random() < 0.12:
                o['agg'] = not flag_value(c.get('agg')) or isinstance(c.get('agg'), dict)
            if o:
                if 'args' in o and ('%(replica)s' in c['args']):
                    o['args'] = (o['args'] + ' rep=%(replica)s').strip()
                c.setdefault('over', {})[p] = o
    case['drive'] = rng.choice([[names[0]], [names[0]], ['default', names[0]], list(names), [names[-1], 'default']])


def add_reference_variables(rng, case):
    """component-level variables that hold a reference (comp['rvars'], also inside override blocks) and are used on
    the command line through %(name)s; only in components that never aggregate and only references the component
    declares on every platform where the variable is visible"""
    plats = sorted(case.get('plats') or {})
    for c in case['comps']:
        if c.get('agg') is not None or any((o.get('agg') is not None) for o in (c.get('over') or {}).values()):
            continue
        lists = [c['refs']] + [o['refs'] for o in (c.get('over') or {}).values() if o.get('refs') is not None]
        common = [r for r in c['refs'] if r['comp'] and r['method'] != 'copyout'
                  and all(any(_same_ref(r, x) for x in l) for l in lists)]
        if common and rng.random() < 0.4:
            r = dict(rng.choice(common))
            if r['stage'] == c['stage'] and rng.random() < 0.4:
                r['long'] = not r['long']
            nm = rng.choice(RVAR_NAMES)
            c.setdefault('rvars', {})[nm] = r
            c['args'] = (c['args'] + ' --%s=%%(%s)s' % (nm, nm)).strip()
        for p in plats:
            o = (c.get('over') or {}).get(p)
            if not o or rng.random() > 0.4:
                continue
            refs = [r for r in (o['refs'] if o.get('refs') is not None else c['refs'])
                    if r['comp'] and r['method'] != 'copyout']
            if refs:
                nm = rng.choice(RVAR_NAMES)
                o.setdefault('rvars', {})[nm] = dict(rng.choice(refs))
                if o.get('args') is not None:
                    o['args'] = (o['args'] + ' --%s=%%(%s)s' % (nm, nm)).strip()


def _restated(case, p):
    """does some override block of platform p restate references / the command line / variables"""
    return any(((c.get('over') or {}).get(p) or {}) for c in case['comps'])


def gen_platform_case(rng, with_history=False):
    """a workflow with platforms, driven on non-default platforms"""
    best = None
    for _ in range(12):
        case = gen_case(rng, kind=rng.choice(['overlap', 'chain', 'plain', 'cross-stage', 'scopes']),
                        p_var=rng.choice([0.3, 0.9]), p_sibling=0.3, p_own=0.25)
        if 'error' in expected(case):
            continue
        add_platforms(rng, case)
        add_reference_variables(rng, case)
        case['kind'] = 'platform'
        case['orders'] = case['orders'][:3]
        if any('%(replica)s' in c['args'] for c in case['comps']):
            # a platform may turn a member of the region into an aggregator / a plain component: its command line
            # must still resolve (to the global value) -- copies see their index nevertheless
            case['gvars'].setdefault('replica', rng.choice(REPLICA_VALUES))
        if with_history:
            h = gen_history(rng, case) or {'entry': rng.choice(['package', 'conf']),
                                           'steps': [{'files': [], 'primitive': False}, {'files': [], 'primitive': False}]}
            names = ['default'] + sorted(case['plats'])
            fixed = rng.choice(names[1:]) if rng.random() < 0.5 else None
            for st in h['steps']:
                pl = fixed or rng.choice(names)
                if pl != 'default':
                    st['platform'] = pl
            if h['steps'][-1].get('platform') is None:
                h['steps'][-1]['platform'] = names[1]
            h.pop('instantiate', None)
            case['history'] = h
            case['kind'] = 'platform-history'
            case['drive'] = case['drive'][:1]
            case['orders'] = case['orders'][:2]
            if any('%(replica)s' in c['args'] or '%(replica)s' in str((o or {}).get('args'))
                   for c in case['comps'] for o in [None] + list((c.get('over') or {}).values())):
                case['gvars'].setdefault('replica', rng.choice(REPLICA_VALUES))
        best = case
        good = [p for p in drive_of(case) if p != 'default' and 'error' not in expected(effective(case, p))
                and _restated(case, p)]
        if good or rng.random() < 0.12:
            return case
    return best


def add_reference_variables_plain(rng, case):
    case.setdefault('plats', {})
    add_reference_variables(rng, case)
    if not case['plats']:
        case.pop('plats')


def gen_orders(rng, n):
    """topological order, its reverse (=> every pair in both relative orders) and random shuffles"""
    orders = [list(range(n)), list(range(n - 1, -1, -1))]
    for _ in range(2):
        o = list(range(n))
        rng.shuffle(o)
        if o not in orders:
            orders.append(o)
    return orders


def gen_case(rng, kind=None, p_var=None, p_sibling=None, p_own=0.35):
    kind = kind or rng.choice(['overlap', 'overlap', 'overlap', 'chain', 'cross-stage', 'plain', 'inconsistent',
                               'scopes', 'scopes', 'scopes'])
    ncomp = rng.randint(2, 7) if kind != 'scopes' else rng.randint(3, 7)
    pool = list(POOL)
    if kind in ('overlap', 'cross-stage'):
        # a small sub pool makes overlapping pairs likely
        base = rng.choice(['A', 'gen', 'B', 'a', 'C'])
        pool = [x for x in POOL if base in x] + [base]
    nstages = rng.choice([1, 2, 2, 3]) if kind != 'scopes' else rng.choice([1, 1, 2, 2, 3])
    ids = []
    tries = 0
    while len(ids) < ncomp and tries < 100:
        tries += 1
        k = (rng.randrange(nstages), rng.choice(pool))
        if kind == 'cross-stage' and ids and rng.random() < 0.5:
            k = (rng.randrange(nstages), rng.choice(ids)[1])
        if k not in ids:
            ids.append(k)
    used = sorted({k[0] for k in ids})     # the loader wants stage indices 0..k without gaps
    ids = [(used.index(st), nm) for st, nm in ids]
    ids.sort(key=lambda k: k[0])           # stable: producers of earlier stages first
    the_n = rng.choice([1, 2, 2, 2, 3, 3, 4, 11])
    if the_n == 11 and rng.random() < 0.7:
        the_n = 2
    # several independent replicated regions with different counts (they must not meet, else the counts are inconsistent)
    other_n = rng.choice([x for x in (1, 2, 3, 4) if x != the_n]) if kind == 'scopes' and rng.random() < 0.4 else the_n
    comps = []
    any_rep = False
    for idx, (st, nm) in enumerate(ids):
        c = {'stage': st, 'name': nm, 'refs': [], 'repl': None, 'agg': None, 'args': ''}
        cands = comps[:]
        if cands and rng.random() < 0.85:
            for p in rng.sample(cands, min(len(cands), rng.choice([1, 1, 2, 2, 3]))):
                for _ in range(rng.choice([1, 1, 1, 2])):
                    c['refs'].append(gen_ref(rng, st, p))
        if rng.random() < 0.35:
            c['refs'].append({'comp': False, 'text': rng.choice(DIRECT) % rng.choice(pool)})
        rng.shuffle(c['refs'])
        preplicated = (0.3 if any_rep else 0.6) if kind != 'scopes' else (0.45 if any_rep else 0.7)
        if rng.random() < preplicated and (idx < len(ids) - 1 or not any_rep):
            n = the_n if kind != 'inconsistent' or rng.random() < 0.5 else the_n + 1
            if kind == 'scopes' and not c['refs'] and rng.random() < 0.5:
                n = other_n
            c['repl'] = {'n': n, 'how': 'int'}
            any_rep = True
        if c['refs'] and rng.random() < 0.3:
            c['agg'] = rng.choice(TRUE_SPELLINGS)
        elif rng.random() < 0.1:
            c['agg'] = rng.choice([False, 'no', 'false'])
        c['args'], c['argt'] = gen_args(rng, c, comps)
        comps.append(c)
    order = list(range(len(comps)))
    rng.shuffle(order)
    case = {'kind': kind, 'comps': comps, 'order': order, 'orders': gen_orders(rng, len(comps))}
    if p_var is not None:
        assign_scopes(rng, case, p_var, p_sibling)
    elif kind == 'scopes':
        assign_scopes(rng, case, 0.9, 0.6)
    else:
        assign_scopes(rng, case, 0.45, 0.35)
    if rng.random() < 0.5:
        decorate_replica(rng, case, p_own)
    if rng.random() < 0.3:
        add_reference_variables_plain(rng, case)
    return case


# ----------------------------------------------------------------------------------------
# classification / non-triviality
# ----------------------------------------------------------------------------------------

BOUNDARY = set('abcdefghijklmnopqrstuvwxyzABCDEFGHIJKLMNOPQRSTUVWXYZ0123456789_.#/-')


def spelling_overlaps(case):
    """Does a purely textual rewriting (str.replace of both spellings) have something to get wrong?  True iff, in some
    component that consumes from a replicated producer, a spelling S (long `stageN.P[/f]:m` or short `P[/f]:m`) of a
    reference to a replicated producer occurs in a declared reference string or in the command line of that component
    (a) inside a longer token: directly after a character of [A-Za-z0-9_.#/-] (other than S being the short spelling
        right after its own `stageN.` prefix), or directly before a word character, or
    (b) as the short spelling while the producer lives in another stage than the component (there the short
        spelling names a different component)."""
    exp = expected(case)
    if 'error' in exp:
        return False
    region_of = {o['of'] for o in exp['comps'] if o['replica'] is not None}
    for c in case['comps']:
        keys = []
        for r in c['refs']:
            if r['comp'] and cid(r['stage'], r['name']) in region_of:
                keys.append((render(dict(r, long=True)), r['stage'], False))
                keys.append((render(dict(r, long=False)), r['stage'], True))
        if not keys:
            continue
        for text in [render(r) for r in c['refs']] + [c['args']]:
            for k, kstage, short in keys:
                pos = text.find(k)
                while pos >= 0:
                    before, after = text[:pos], text[pos + len(k):]
                    pre = 'stage%d.' % kstage
                    if after[:1] and (after[0].isalnum() or after[0] == '_'):
                        return True
                    if before and before[-1] in BOUNDARY:
                        own_prefix = short and before.endswith(pre) and (
                            len(before) == len(pre) or before[-len(pre) - 1] not in BOUNDARY)
                        if not own_prefix:
                            return True
                    elif short and kstage != c['stage']:
                        return True
                    pos = text.find(k, pos + 1)
    return False


def _eff_of(case, detail):
    return effective(case, (detail or {}).get('platform') or 'default')


def classify_textual_overlap(what, case, detail):
    return what in ('loader-rejects-valid-workflow', 'wrong-references', 'dangling-reference', 'wrong-edge-set') \
        and spelling_overlaps(_eff_of(case, detail))


def aggregator_repeats_reference(case):
    """some aggregating component declares the same (producer, file, method) twice (e.g. once per spelling) and that
    producer is replicated"""
    exp = expected(case)
    if 'error' in exp:
        return False
    region_of = {o['of'] for o in exp['comps'] if o['replica'] is not None}
    for c in case['comps']:
        if is_agg(case, c) is True:
            seen = set()
            for r in c['refs']:
                if r['comp'] and cid(r['stage'], r['name']) in region_of:
                    t = (r['stage'], r['name'], r.get('file'), r['method'])
                    if t in seen:
                        return True
                    seen.add(t)
    return False


def classify_aggregator_repeat(what, case, detail):
    return what == 'wrong-references' and aggregator_repeats_reference(_eff_of(case, detail))


ODD_PATH_CHAR = re.compile(r'[^A-Za-z0-9_.*/]')


def aggregated_path_with_odd_character(case):
    """some aggregating component uses, on its command line, a reference to a replicated producer followed by a file
    path with a character outside [A-Za-z0-9_.*] (out-1.txt, a+b.csv)"""
    exp = expected(case)
    if 'error' in exp:
        return False
    region_of = {o['of'] for o in exp['comps'] if o['replica'] is not None}
    for c in case['comps']:
        if is_agg(case, c) is True:
            for t in command_line_tokens(c) or []:
                if 'ref' in t and cid(t['ref']['stage'], t['ref']['name']) in region_of \
                        and ODD_PATH_CHAR.search(t.get('path') or ''):
                    return True
    return False


def classify_aggregated_odd_path(what, case, detail):
    return what == 'aggregator-command-line-does-not-consume-the-copies-in-index-order' \
        and aggregated_path_with_odd_character(_eff_of(case, detail))


CLASSIFIERS = {'c03_reference_spelling_inside_other_token': classify_textual_overlap,
               'c03_aggregator_declares_reference_twice': classify_aggregator_repeat,
               'c03_aggregated_path_with_character_outside_word_class': classify_aggregated_odd_path}


def scope_tags(case):
    """which scope situations of the variables that give counts / flags occur in the case"""
    tags = set()
    for i, c in enumerate(case['comps']):
        for attr, var in (('count', (c.get('repl') or {}).get('var') if (c.get('repl') or {}).get('how') == 'var'
                           else None),
                          ('flag', c['agg']['var'] if isinstance(c.get('agg'), dict) else None)):
            if var is None:
                continue
            tags.add('%s-via-variable' % attr)
            own = var in (c.get('vars') or {})
            stg = var in ((case.get('svars') or {}).get(str(c['stage'])) or {})
            glb = var in (case.get('gvars') or {})
            tags.add('var-from:' + ('own' if own else 'stage' if stg else 'global' if glb else 'nowhere'))
            if own + stg + glb > 1:
                tags.add('var-shadows-outer-scope')
            mine = chain_lookup(case, c, var)
            for j, o in enumerate(case['comps']):
                if j != i and var in (o.get('vars') or {}) and str(o['vars'][var]) != str(mine):
                    tags.add('sibling-defines-same-variable-differently')
                    if o['stage'] == c['stage']:
                        tags.add('same-stage-sibling-defines-same-variable-differently')
    return sorted(tags)


def features(case):
    """tags + non-triviality; a case with platforms is judged on the platforms it is driven on"""
    case = normalise(case)
    if not has_platforms(case):
        return _features(case)
    tags, nontrivial = set(), False
    for p in drive_of(case) + (history_platforms(case) if case.get('history') else []):
        eff = effective(case, p)
        t, nt = _features(dict(eff, history=None))
        tags.update(t)
        tags.add('platform:' + ('default' if p == 'default' else 'non-default'))
        if p == 'default':
            continue
        exp = expected(eff)
        if 'error' in exp:
            continue
        region_of = {o['of'] for o in exp['comps'] if o['replica'] is not None}
        for c, e in zip(case['comps'], eff['comps']):
            o = (c.get('over') or {}).get(p)
            if not o:
                continue
            k = cid(c['stage'], c['name'])
            uses = any(r['comp'] and cid(r['stage'], r['name']) in region_of for r in e['refs'])
            kind = 'copy' if k in region_of else 'aggregator' if is_agg(eff, e) is True else 'plain'
            for f in ('refs', 'args', 'vars', 'rvars', 'repl', 'agg'):
                if o.get(f) is not None and o.get(f) != {}:
                    tags.add('override:%s:%s' % (kind, f))
            if 'replica' in (o.get('vars') or {}):
                tags.add('override:%s:defines-replica' % kind)
            if uses and (o.get('refs') is not None or o.get('args') is not None or o.get('rvars')):
                tags.add('override-restates-rewired-strings')
                nontrivial = nontrivial or nt
        pv = (case.get('plats') or {}).get(p) or {}
        if pv.get('global') or pv.get('stages'):
            tags.add('platform-variable-sections')
    if case.get('history'):
        h = case['history']
        tags.add('history:entry:' + h['entry'])
        tags.add('history:steps:%d' % len(h['steps']))
        if len(set(history_platforms(case))) > 1:
            tags.add('history:platform-changes-between-steps')
    if any(c.get('rvars') for c in case['comps']):
        tags.add('reference-in-variable')
    return sorted(tags), nontrivial


def _features(case):
    exp = expected(case)
    tags = ['kind:' + case.get('kind', '?'), 'ncomp:%d' % len(case['comps'])] + scope_tags(case)
    if any(c.get('rvars') for c in case['comps']):
        tags.append('reference-in-variable')
    if 'error' in exp:
        tags.append('expected:' + exp['error'])
        return tags, False
    copies = [o for o in exp['comps'] if o['replica'] is not None]
    aggs = [c for c in case['comps'] if is_agg(case, c) is True]
    rewired = 0
    for o in exp['comps']:
        src = next(c for c in case['comps'] if cid(c['stage'], c['name']) == o['of'])
        if [parse_free(r) for r in src['refs']] != o['refs']:
            rewired += 1
    if copies:
        tags.append('replicated')
    if aggs:
        tags.append('has-aggregator')
    if rewired:
        tags.append('rewired')
    if spelling_overlaps(case):
        tags.append('spelling-overlap')
    if aggregator_repeats_reference(case):
        tags.append('aggregator-repeats-reference')
    if len({count_of(case, c) for c in case['comps'] if c.get('repl')}) > 1:
        tags.append('several-counts')
    if any(r['comp'] and r['long'] for c in case['comps'] for r in c['refs']):
        tags.append('long-spelling')
    if any(r['comp'] and not r['long'] for c in case['comps'] for r in c['refs']):
        tags.append('short-spelling')
    if any(r['comp'] and r.get('file') and '/' in r['file'] for c in case['comps'] for r in c['refs']):
        tags.append('nested-path')
    names = [c['name'] for c in case['comps']]
    if len(set(names)) < len(names):
        tags.append('equal-names-across-stages')
    region_of = {o['of'] for o in copies}
    if any('replica' in (c.get('vars') or {}) and cid(c['stage'], c['name']) in region_of for c in case['comps']):
        tags.append('replicated-component-defines-replica-itself')
    if any('replica' in (c.get('vars') or {}) and cid(c['stage'], c['name']) not in region_of for c in case['comps']):
        tags.append('unreplicated-component-defines-replica')
    if 'replica' in (case.get('gvars') or {}) or any('replica' in (v or {}) for v in (case.get('svars') or {}).values()):
        tags.append('stage-or-global-scope-defines-replica')
    if any('%(replica)s' in c['args'] for c in case['comps']):
        tags.append('command-line-uses-replica')
    for c in case['comps']:
        toks = command_line_tokens(c) or []
        for a, b in zip(toks, toks[1:] + [{'lit': ''}]):
            if 'ref' not in a:
                continue
            who = 'aggregated' if (is_agg(case, c) is True and cid(a['ref']['stage'], a['ref']['name']) in region_of) \
                else 'replicated' if cid(a['ref']['stage'], a['ref']['name']) in region_of else 'plain'
            nxt = b.get('lit', ' ')[:1]
            tags.append('command-line:%s-%s-then-%s' % (who, 'path' if a.get('path') else 'reference',
                        'comma-idiom' if a.get('comma') else 'end-or-space' if nxt in ('', ' ') else
                        'quote' if nxt in '"\'' else 'shell-punctuation'))
    tags = sorted(set(tags))
    nontrivial = bool(copies) and rewired > 0
    if case.get('history'):
        h = case['history']
        tags.append('history:entry:' + h['entry'])
        tags.append('history:steps:%d' % len(h['steps']))
        if h.get('instantiate'):
            tags.append('history:instantiate+reload')
        sets = []
        for _label, files, prim, _plat in history_steps(case):
            if prim:
                tags.append('history:primitive-step')
                continue
            e = expected(with_user_vars(case, files))
            sets.append(json.dumps(e.get('nodes', e.get('error'))))
            tags.append('history:step-expected:' + (e['error'] if 'error' in e else 'expansion'))
        if len(set(sets)) > 1:
            tags.append('history:steps-differ-in-expansion')
        # a history is non-trivial when two of its replicated steps must give different expansions
        nontrivial = len(set(sets)) > 1
    return tags, nontrivial


def parse_free(r):
    if not r['comp']:
        return ['direct', r['text']]
    return ['comp', r['stage'], r['name'], r.get('file'), r['method']]


# ----------------------------------------------------------------------------------------
# checking
# ----------------------------------------------------------------------------------------

NESTED = set()      # (component id, variable) whose value refers to another variable: handed back resolved or as written


def _nested_of(mtext):
    res = set()
    for o in mtext:
        for blk in (o, o.get('layered') or {}):
            for a, b in (blk.get('vars') or []):
                if '%(' in str(b):
                    res.add((o['id'], str(a)))
    return res


def canon_text(comps, copies):
    """`copies` = ids of the components that are copies (the model's view): `replicate` is compared for those only
    (a component that is not expanded keeps whatever the document says)"""
    res = []
    for c in comps:
        v = c.get('vars')
        v = sorted([str(a), str(b)] for a, b in (v.items() if isinstance(v, dict) else (v or []))
                   if (c['id'], str(a)) not in NESTED)
        res.append([c['id'], c['refs'], c['args'], v, c['replicate'] if c['id'] in copies else None])
    return sorted(res, key=lambda x: (x[0], str(x)))


def compare_history(ctx, case, out, mh):
    """model of the configuration object (ReplConf) vs the real one, step by step, at the graph level"""
    hist = out.get('history') or []
    for k, (label, _files, prim, _plat) in enumerate(history_steps(case)):
        if prim or k >= len(hist) or hist[k] is None or k >= len(mh['steps']) or mh['steps'][k] is None \
                or 'skipped' in hist[k]:
            continue
        m, v = mh['steps'][k], hist[k]
        rel = 'configuration after a history of parametrisations [%s]: ' % label
        if 'error' in m:
            if m['error'] != 'duplicate':
                ctx.compare(rel + 'error kind == ReplConf.run', case, {'error': m['error']},
                            {'error': v.get('error', 'accepted')})
            continue
        if 'error' in v:
            ctx.compare(rel + 'verdict == ReplConf.run', case, 'loaded', {'error': v['error']})
            continue
        ctx.compare(rel + 'nodes == ReplConf.run', case, sorted(o['id'] for o in m['comps']), v['nodes'])
        ctx.compare(rel + 'edges == Repl.edges of ReplConf.run', case, sorted(set(map(tuple, m['edges']))),
                    sorted(set(map(tuple, v['edges']))))
        ctx.compare(rel + 'replica / replicate of the copies == ReplConf.run', case,
                    sorted([o['id'], str(o['replica']), o['replicate']] for o in m['comps'] if o['replica'] is not None),
                    sorted([c['id'], str(c['replica']), c['replicate']] for c in v['comps']
                           if c['id'] in {o['id'] for o in m['comps'] if o['replica'] is not None}))


def check_cases(ctx, cases, keep=None):
    cases = [normalise(c) for c in cases]
    pairs = [(i, p) for i, c in enumerate(cases) for p in drive_of(c)]
    mres = ctx.model([model_request(cases[i], p) for i, p in pairs])
    mouts = dict(zip(pairs, mres)) if mres is not None else None
    # the model of the configuration object knows one document: histories that stay on one platform
    hidx = [i for i, c in enumerate(cases) if c.get('history') and len(set(history_platforms(c))) == 1]
    hmouts = ctx.model([model_history_request(cases[i]) for i in hidx]) if (hidx and mouts is not None) else None
    hm = dict(zip(hidx, hmouts)) if hmouts is not None else {}
    for idx, case in enumerate(cases):
        outs = impl_all(case)
        if keep is not None:
            keep(case, outs)
        first = outs[drive_of(case)[0]]
        if idx in hm:
            compare_history(ctx, case, first, hm[idx])
        tags, nontrivial = features(case)
        ctx.case(case, nontrivial=nontrivial, tags=list(tags) + [
            'impl:' + ('graph-error:' + first['graph_error'].split(':')[0] if 'graph_error' in first else 'loaded')])
        for what, detail in oracle_all(case, outs):
            out = outs.get(detail.get('platform')) or first
            ctx.fail(what, case, dict(detail, impl={k: out[k] for k in out if k.endswith('error')}))
        if mouts is None:
            continue
        for p in drive_of(case):
            compare_model(ctx, case, effective(case, p), p, mouts[(idx, p)], outs[p])


def canon_layered(view):
    res = []
    for c in view:
        v = c.get('vars')
        v = sorted([str(a), str(b)] for a, b in (v.items() if isinstance(v, dict) else (v or []))
                   if (c['id'], str(a)) not in NESTED)
        res.append([c['id'], c['refs'], c['args'], v])
    return sorted(res, key=lambda x: (x[0], str(x)))


def compare_model(ctx, full, case, platform, m, out):
    """model vs implementation for the workflow `case` = effective(full, platform)"""
    ctx.compare('model rendering of the declared references (ReplOver.layerRaw of the platform) == generated '
                'reference strings', full, m['in_refs'], [[render(r) for r in c['refs']] for c in case['comps']])
    if 'error' in m:
        ctx.tag('model:error:' + m['error'])
        if m['error'] == 'duplicate':
            impl_err = out.get('graph_error', 'accepted')
        else:
            impl_err = out.get('replicate_error', 'accepted')
        ctx.compare('replication error kind == Repl.expand error', full, {'error': m['error']}, {'error': impl_err})
        if m['error'] != 'duplicate':
            for r in out.get('runs', []):
                ctx.compare('apply_replicate(components in a chosen processing order) error kind == '
                            'ReplVars.expandRaw error', full, {'error': m['error']},
                            {'error': r.get('error', 'accepted')})
        return
    ctx.tag('model:ok')
    if 'replicate_error' in out:
        ctx.compare('replicated components == Repl.goText', full, 'ok', {'error': out['replicate_error']})
        return
    case = full
    NESTED.clear()
    NESTED.update(_nested_of(m['text']))
    if 'layered' in out:
        mlay = [dict(o['layered'], id=o['id']) for o in m['text']]
        ctx.compare('replicated FlowIR read back through get_component_configuration(platform) == '
                    'ReplOver.readBack of ReplOver.goBlocks', full, canon_layered(mlay),
                    canon_layered(out['layered']) if isinstance(out['layered'], list) else out['layered'])
        for r in out.get('runs', []):
            if 'layered' in r:
                ctx.compare('apply_replicate(chosen processing order) read back through '
                            'get_component_configuration(platform) == ReplOver.readBack', full, canon_layered(mlay),
                            canon_layered(r['layered']) if isinstance(r['layered'], list) else r['layered'])
    copies = {o['id'] for o in m['text'] if o['replica'] is not None}
    ctx.compare('replicated components (references, arguments, variables, replicate) == Repl.goText + '
                'variables of ReplOver.goBlocks', case, canon_text(m['text'], copies), canon_text(out['comps'], copies))
    for r in out.get('runs', []):
        # the model's answer does not depend on the processing order (resolveAll_perm,
        # count_independent_of_siblings): the code must give it for every order
        ctx.compare('apply_replicate(components in a chosen processing order) == Repl.goText of '
                    'ReplVars.resolveAll', case, canon_text(m['text'], copies),
                    canon_text(r['comps'], copies) if 'comps' in r else {'error': r['error'], 'order': r['order']})
    if 'graph_error' in out:
        ctx.compare('loader verdict == Repl.expand verdict', case, 'loaded', {'error': out['graph_error']})
    else:
        ctx.compare('graph nodes == Repl.expand components', case, sorted(o['id'] for o in m['graph']), out['nodes'])
        ctx.compare('graph edges == Repl.edges', case, sorted(set(map(tuple, m['edges']))),
                    sorted(set(map(tuple, out['edges']))))


def shrink_orders(n):
    if n <= 4:
        return [list(o) for o in itertools.permutations(range(n))]
    ident = list(range(n))
    return [ident, ident[::-1]] + [ident[k:] + ident[:k] for k in range(1, n)]


def shrink(what, case):
    """greedy: drop components, references, variables, path/variable decorations while the same oracle failure persists;
    the command line is first reduced to the plain list of the declared references and then kept in step with them; the
    processing orders tried are all permutations (<= 4 components) or the rotations of the topological order"""
    import time
    deadline = time.time() + 20

    def well_formed(c):
        """a variable that holds a reference holds one the component declares (on every platform concerned)"""
        for p in set(drive_of(c) + (history_platforms(c) if c.get('history') else [])):
            for x in effective(c, p)['comps']:
                if any(not any(_same_ref(r, y) for y in x['refs']) for r in (x.get('rvars') or {}).values()):
                    return False
        return True

    def fails(c):
        stages = sorted({x['stage'] for x in c['comps']})
        if stages != list(range(len(stages))) or time.time() > deadline or not well_formed(c):
            return False            # (out of time: keep what has been reached so far)
        try:
            return any(w == what for w, _ in oracle_all(c, impl_all(c)))
        except Exception:  # noqa
            return False

    def plain_args(x, refs, old, blk=None, keep_tokens=True):
        blk = x if blk is None else blk
        if blk.get('argt') and keep_tokens:
            # the command line keeps what the user wrote around the references that are still declared
            blk['argt'] = [t for t in blk['argt'] if 'lit' in t or any(_same_ref(t['ref'], r) for r in refs)]
            a = render_argt(blk['argt']).strip()
            if a != render_argt(blk['argt']):
                blk.pop('argt')
        else:
            blk.pop('argt', None)
            a = ' '.join(render(r) for r in refs if not (r['comp'] and r['method'] == 'copyout'))
        for nm in RVAR_NAMES:
            if '%%(%s)s' % nm in old:
                a += ' --%s=%%(%s)s' % (nm, nm)
        if '%(replica)s' in old:
            a += ' rep=%(replica)s'
        return a.strip()

    def plain(c, keep_tokens=True):
        c = copy.deepcopy(c)
        for x in c['comps']:
            x['args'] = plain_args(x, x['refs'], x['args'], None, keep_tokens and tokens_matter)
            for o in (x.get('over') or {}).values():
                if o.get('args') is not None:
                    o['args'] = plain_args(x, o['refs'] if o.get('refs') is not None else x['refs'], o['args'], o,
                                           keep_tokens and tokens_matter)
        c['order'] = list(range(len(c['comps'])))
        c['orders'] = shrink_orders(len(c['comps'])) if not c.get('history') else [c['order']]
        return c

    # the text around the references is first dropped altogether (plain list of the declared references); when the
    # failure needs it, it is kept (and kept in step with the declared references)
    tokens_matter = False
    if not fails(plain(normalise(case))):
        tokens_matter = True
    case = normalise(case)
    cur = plain(case)
    if not fails(cur):
        return case
    # platforms: one driven platform, as few override blocks / platform sections as possible
    if has_platforms(cur):
        for p in drive_of(cur):
            cand = dict(copy.deepcopy(cur), drive=[p])
            if len(drive_of(cur)) > 1 and fails(cand):
                cur = cand
                break
        for ci in range(len(cur['comps'])):
            for p in sorted(cur['comps'][ci].get('over') or {}):
                cand = copy.deepcopy(cur)
                del cand['comps'][ci]['over'][p]
                if fails(cand):
                    cur = cand
                    continue
                for f in sorted(cur['comps'][ci]['over'][p]):
                    cand = copy.deepcopy(cur)
                    del cand['comps'][ci]['over'][p][f]
                    if fails(cand):
                        cur = cand
        for p in sorted(cur.get('plats') or {}):
            cand = copy.deepcopy(cur)
            cand['plats'][p] = {}
            if fails(cand):
                cur = cand
    # a history: as few steps as possible, no instantiation
    if cur.get('history'):
        h = cur['history']
        if h.get('instantiate'):
            cand = copy.deepcopy(cur)
            cand['history'].pop('instantiate')
            if fails(cand):
                cur = cand
        k = 1
        while k < len(cur['history']['steps']) - 1:
            cand = copy.deepcopy(cur)
            cand['history']['steps'].pop(k)
            if fails(cand):
                cur = cand
            else:
                k += 1
        cand = copy.deepcopy(cur)
        cand.pop('history')
        if fails(cand):
            cur = cand
    changed = True
    while changed:
        changed = False
        for i in range(len(cur['comps']) - 1, -1, -1):
            cand = copy.deepcopy(cur)
            gone = cand['comps'].pop(i)
            for c in cand['comps']:
                for blk in [c] + [o for o in (c.get('over') or {}).values() if o.get('refs') is not None]:
                    blk['refs'] = [r for r in blk['refs']
                                   if not (r['comp'] and (r['stage'], r['name']) == (gone['stage'], gone['name']))]
                for blk in [c] + list((c.get('over') or {}).values()):
                    for nm in [a for a, r in (blk.get('rvars') or {}).items()
                               if (r['stage'], r['name']) == (gone['stage'], gone['name'])]:
                        del blk['rvars'][nm]
            cand = plain(cand)
            if cand['comps'] and fails(cand):
                cur, changed = cand, True
        # variables, scope by scope
        scopes = [('gvars', None)] + [('svars', k) for k in sorted(cur.get('svars') or {})] + \
                 [('comp', i) for i in range(len(cur['comps']))]
        for kind, key in scopes:
            def scope_of(c):
                return c['gvars'] if kind == 'gvars' else c['svars'][key] if kind == 'svars' else c['comps'][key]['vars']
            for var in sorted(scope_of(cur)):
                cand = copy.deepcopy(cur)
                del scope_of(cand)[var]
                if fails(cand):
                    cur, changed = cand, True
        for ci in range(len(cur['comps'])):
            for ri in range(len(cur['comps'][ci]['refs']) - 1, -1, -1):
                cand = copy.deepcopy(cur)
                gone_ref = cand['comps'][ci]['refs'].pop(ri)
                for blk in [cand['comps'][ci]] + list((cand['comps'][ci].get('over') or {}).values()):
                    for nm in [a for a, r in (blk.get('rvars') or {}).items() if _same_ref(r, gone_ref)]:
                        del blk['rvars'][nm]
                cand = plain(cand)
                if fails(cand):
                    cur, changed = cand, True
            for p in sorted(cur['comps'][ci].get('over') or {}):
                orefs = cur['comps'][ci]['over'][p].get('refs')
                for ri in range(len(orefs or []) - 1, -1, -1):
                    cand = copy.deepcopy(cur)
                    cand['comps'][ci]['over'][p]['refs'].pop(ri)
                    cand['comps'][ci]['over'][p].pop('rvars', None)
                    cand = plain(cand)
                    if fails(cand):
                        cur, changed = cand, True
            for ri in range(len(cur['comps'][ci]['refs'])):
                r = cur['comps'][ci]['refs'][ri]
                for key, val in (('file', None), ('method', 'ref')):
                    if r['comp'] and r.get(key) != val:
                        cand = copy.deepcopy(cur)
                        cand['comps'][ci]['refs'][ri][key] = val
                        cand = plain(cand)
                        if fails(cand):
                            cur, changed = cand, True
            rp = cur['comps'][ci].get('repl')
            if rp and rp['how'] != 'int' and isinstance(count_of(cur, cur['comps'][ci]), int):
                cand = copy.deepcopy(cur)
                cand['comps'][ci]['repl'] = {'how': 'int', 'n': count_of(cur, cur['comps'][ci])}
                if fails(cand):
                    cur, changed = cand, True
            if cur['comps'][ci].get('agg') not in (None, True) and is_agg(cur, cur['comps'][ci]) != UNRESOLVED:
                cand = copy.deepcopy(cur)
                cand['comps'][ci]['agg'] = True if is_agg(cur, cur['comps'][ci]) else None
                if fails(cand):
                    cur, changed = cand, True
    # keep only one failing processing order next to the topological one when a single order is enough
    for o in cur['orders']:
        cand = dict(copy.deepcopy(cur), orders=[o])
        if fails(cand):
            cur = cand
            break
    return cur


def R(stage, name, long=False, file=None, method='ref'):
    return {'comp': True, 'stage': stage, 'long': long, 'name': name, 'file': file, 'method': method}


def K(stage, name, refs=(), n=None, agg=None, args=None, vars=None, over=None, rvars=None, argt=None):
    refs = list(refs)
    if isinstance(n, str):
        repl = {'how': 'var', 'var': n}
    else:
        repl = {'n': n, 'how': 'int'} if n else None
    c = {'stage': stage, 'name': name, 'refs': refs, 'repl': repl, 'agg': agg, 'vars': dict(vars or {}),
         'args': ' '.join(render(r) for r in refs) if args is None else args}
    if over:
        c['over'] = copy.deepcopy(over)
    if rvars:
        c['rvars'] = copy.deepcopy(rvars)
    if argt:
        # T(text) / (reference, path[, comma]) tokens: the command line is their rendering
        c['argt'] = [{'lit': t} if isinstance(t, str) else
                     {'ref': t[0], 'path': t[1], 'comma': bool(t[2:] and t[2])} for t in argt]
        c['args'] = render_argt(c['argt'])
    return c


def O(refs=None, args=None, **kw):
    """an override block"""
    o = dict(kw)
    if refs is not None:
        o['refs'] = list(refs)
        o['args'] = ' '.join(render(r) for r in refs) if args is None else args
    elif args is not None:
        o['args'] = args
    return o


CORPUS = [
    # DESIGN section 8 #1: the short spelling of A is a suffix of the reference to BA (= Witness.old_infix)
    {'kind': 'corpus:infix', 'comps': [K(0, 'A', n=2), K(0, 'BA'), K(0, 'C', [R(0, 'A'), R(0, 'BA')])]},
    # same in an aggregator
    {'kind': 'corpus:infix-aggregate', 'comps': [K(0, 'A', n=2), K(0, 'BA'), K(0, 'C', [R(0, 'A'), R(0, 'BA')], agg=True)]},
    # equal names in two stages: the short spelling names the component of the consumer's stage (= Witness.old_cross_stage)
    {'kind': 'corpus:cross-stage', 'comps': [K(0, 'A', n=2), K(1, 'A'), K(1, 'C', [R(0, 'A', long=True), R(1, 'A')])]},
    # a file called like a replicated component
    {'kind': 'corpus:direct', 'comps': [K(0, 'A', n=1), K(0, 'C', [R(0, 'A'), {'comp': False, 'text': 'data/A:ref'}])]},
    # the saltcurve shape: source -> replicas -> aggregator -> plain
    {'kind': 'corpus:chain', 'comps': [K(0, 'gen', n=3), K(0, 'work', [R(0, 'gen', file='out.txt', method='copy')]),
                                       K(1, 'agg', [R(0, 'work', long=True, method='output')], agg='yes',
                                         args='stage0.work:output'),
                                       K(1, 'post', [R(1, 'agg')])]},
    {'kind': 'corpus:copy-copyout', 'comps': [K(0, 'A', n=2), K(0, 'C', [R(0, 'A', method='copy'), R(0, 'A', method='copyout')])]},
    {'kind': 'corpus:clash', 'comps': [K(0, 'A', n=2), K(0, 'A1'), K(0, 'C', [R(0, 'A'), R(0, 'A1')])]},
    # an aggregator that declares the same reference in both spellings
    {'kind': 'corpus:aggregate-twice', 'comps': [K(0, 'A', n=2), K(0, 'D', [R(0, 'A'), R(0, 'A', long=True)], agg=True)]},
    # the copies of `stage` are called like the replicated component `stage0` (found by the thorough tier: a second
    # rewriting pass over already rewritten text turned stage0.stage0 into stage0.stage00)
    {'kind': 'corpus:copy-named-like-replicated', 'comps': [
        K(0, 'stage', n=2), K(0, 'stage0', n=2),
        K(1, 'D', [R(0, 'stage', long=True, file='res_1.csv', method='copy'),
                   R(0, 'stage0', long=True, file='res_1.csv', method='copy')], agg=True)]},
    # an aggregator of stage 1 consuming the replicated gen2 of stage 0 (long spelling) and of its own stage (short)
    {'kind': 'corpus:aggregate-cross-stage', 'comps': [
        K(0, 'gen2', n=3), K(1, 'gen2', n=3),
        K(1, 'D', [R(0, 'gen2', long=True, file='x/A', method='copy'), R(1, 'gen2', file='x/A', method='copy')],
          agg=True)]},
    {'kind': 'corpus:paths', 'comps': [K(0, 'A', n=2), K(0, 'D', [R(0, 'A')], agg=True,
                                                         args='A:ref/x.txt A:ref/y.txt, -f A:ref')]},
    # a sibling defines, for itself, the variable through which another component of the stage gives its count
    {'kind': 'corpus:sibling-defines-count-variable', 'gvars': {'numberPoints': 4}, 'svars': {},
     'comps': [K(0, 'calibrate', vars={'numberPoints': 1}),
               K(0, 'simulate', [R(0, 'calibrate')], n='numberPoints'),
               K(0, 'analyse', [R(0, 'simulate')]),
               K(0, 'collect', [R(0, 'analyse')], agg=True)]},
    # the three layers at once: global < stage < component; two replication points in stage 0, one in stage 1
    {'kind': 'corpus:count-variable-layers', 'gvars': {'n': '5'}, 'svars': {'0': {'n': 2}, '1': {}},
     'comps': [K(0, 'A', n='n'), K(0, 'B', n='n', vars={'n': '2'}), K(0, 'X', vars={'n': 7}),
               K(0, 'C', [R(0, 'A'), R(0, 'B'), R(0, 'X')]),
               K(1, 'E', n='n', vars={'n': 2}), K(1, 'Y', vars={'n': 3}),
               K(1, 'F', [R(0, 'C', long=True), R(1, 'E'), R(1, 'Y')]),
               K(1, 'G', [R(1, 'F')], agg=True)]},
    # the aggregate flag through a variable: global "no", the collector says "yes" for itself, its sibling "no"
    {'kind': 'corpus:aggregate-flag-variable', 'gvars': {'doAggregate': 'no', 'n': 3}, 'svars': {},
     'comps': [K(0, 'A', n='n'), K(0, 'B', [R(0, 'A')], agg={'var': 'doAggregate'}),
               K(0, 'S', vars={'doAggregate': 'yes', 'n': 1}),
               K(0, 'D', [R(0, 'B'), R(0, 'S')], agg={'var': 'doAggregate'}, vars={'doAggregate': 'yes'}),
               K(0, 'T', [R(0, 'D')], vars={'doAggregate': 'no'})]},
    # a count variable that only a sibling defines is not visible to the component
    {'kind': 'corpus:count-variable-of-sibling-only', 'gvars': {}, 'svars': {},
     'comps': [K(0, 'S', vars={'k': 2}), K(0, 'A', [R(0, 'S')], n='k')]},
    # components that define `replica` themselves (a default so that they resolve un-replicated; what a component
    # exported by dsl_component_blueprint() carries), the stage and the global scope define it too: copy i sees i
    {'kind': 'corpus:component-defines-replica', 'gvars': {'points': 3, 'replica': 9}, 'svars': {'0': {'replica': '8'}},
     'comps': [K(0, 'sample', n='points', vars={'replica': 0}, args='rep=%(replica)s'),
               K(0, 'analyse', [R(0, 'sample')], vars={'replica': '%(points)s'}, args='-i rep=%(replica)s sample:ref'),
               K(0, 'plain', [R(0, 'sample')], args='rep=%(replica)s sample:ref'),
               K(0, 'collect', [R(0, 'analyse'), R(0, 'plain')], agg=True, vars={'replica': 7},
                 args='analyse:ref plain:ref rep=%(replica)s'),
               K(0, 'other', vars={'replica': '5'}, args='rep=%(replica)s')]},
    # the package is loaded, then the same configuration object is parametrised with points=4, points=5 and without
    # user variables (WorkflowGraph.graphFromPackage on an already loaded package)
    {'kind': 'corpus:reparametrised-package', 'gvars': {'points': 2}, 'svars': {},
     'comps': [K(0, 'sample', n='points', args='rep=%(replica)s'),
               K(1, 'analyse', [R(0, 'sample', long=True)]),
               K(1, 'collect', [R(1, 'analyse')], agg=True)],
     'history': {'entry': 'package', 'instantiate': True,
                 'steps': [{'files': [], 'primitive': True},
                           {'files': [{'global': {'points': 4}}], 'primitive': False},
                           {'files': [{'global': {'points': 3}}, {'global': {'points': 5}}], 'primitive': False},
                           {'files': [], 'primitive': False},
                           {'files': [{'stages': {'0': {'points': 3}}}], 'primitive': False}]}},
    # the same through the configuration object itself, a primitive parametrisation in between
    {'kind': 'corpus:reparametrised-configuration', 'gvars': {'n': 2, 'doAggregate': 'no'}, 'svars': {'0': {'n': 3}},
     'comps': [K(0, 'A', n='n'), K(0, 'B', [R(0, 'A')]),
               K(1, 'D', [R(0, 'B', long=True)], agg={'var': 'doAggregate'}, vars={'doAggregate': 'yes'}),
               K(1, 'E', [R(0, 'B', long=True)], agg={'var': 'doAggregate'})],
     'history': {'entry': 'conf',
                 'steps': [{'files': [{'global': {'n': 1}}], 'primitive': False},
                           {'files': [{'global': {'n': 4}}], 'primitive': True},
                           {'files': [{'stages': {'0': {'n': '2'}}, 'global': {'doAggregate': 'yes'}}],
                            'primitive': False},
                           {'files': [], 'primitive': False}]}},
    # a consumer of a replicated producer whose override block for `hpc` restates references and command line (a
    # further, non-replicated producer on that platform): copy i consumes copy i on hpc as well
    {'kind': 'corpus:override-references', 'gvars': {}, 'svars': {}, 'plats': {'hpc': {}}, 'drive': ['default', 'hpc'],
     'comps': [K(0, 'Simulate', n=2, args='rep=%(replica)s'), K(0, 'Reference'),
               K(0, 'Analyse', [R(0, 'Simulate')],
                 over={'hpc': O([R(0, 'Simulate'), R(0, 'Reference')])}),
               K(1, 'Collect', [R(0, 'Analyse', long=True)], agg=True)]},
    # the aggregator itself restates its references on the platform
    {'kind': 'corpus:override-aggregator-references', 'gvars': {}, 'svars': {}, 'plats': {'hpc': {}}, 'drive': ['hpc'],
     'comps': [K(0, 'Simulate', n=2), K(0, 'Reference'),
               K(0, 'Analyse', [R(0, 'Simulate')]),
               K(1, 'Collect', [R(0, 'Analyse', long=True)], agg=True,
                 over={'hpc': O([R(0, 'Analyse', long=True), R(0, 'Reference', long=True)],
                                args='-x stage0.Analyse:ref/out.txt stage0.Reference:ref')})]},
    # the override block defines `replica` (and the count comes from the platform's global section, which wins over
    # the default section of the stage)
    {'kind': 'corpus:override-replica-variable', 'gvars': {'n': 2}, 'svars': {'0': {'n': 5}},
     'plats': {'cloud': {'global': {'n': '3'}}}, 'drive': ['cloud', 'default'],
     'comps': [K(0, 'Simulate', n='n', args='rep=%(replica)s'),
               K(0, 'Analyse', [R(0, 'Simulate')], args='Simulate:ref rep=%(replica)s',
                 over={'cloud': O(args='-c Simulate:ref rep=%(replica)s', vars={'replica': 7, 'unused': 'y'})})]},
    # references inside component-level variables, also inside the override block; replicate restated per platform
    {'kind': 'corpus:override-reference-in-variable', 'gvars': {}, 'svars': {}, 'plats': {'hpc': {}, 'cloud': {}},
     'drive': ['hpc', 'cloud', 'default'],
     'comps': [K(0, 'A', n=2, over={'hpc': {'repl': {'how': 'int', 'n': 3}}}), K(0, 'BA'),
               K(0, 'C', [R(0, 'A', file='out.txt', method='copy'), R(0, 'BA')],
                 args='--inp=%(inp)s BA:ref', rvars={'inp': R(0, 'A', file='out.txt', method='copy')},
                 over={'hpc': O(args='--feed=%(feed)s %(inp)s', rvars={'feed': R(0, 'BA', long=True)}),
                       'cloud': O([R(0, 'BA'), R(0, 'A', long=True, file='out.txt', method='copy')],
                                  args='%(inp)s BA:ref')})]},
    # one configuration object re-parametrised from the default platform to hpc and back
    {'kind': 'corpus:override-history', 'gvars': {'points': 2}, 'svars': {}, 'plats': {'hpc': {'global': {'points': 3}}},
     'drive': ['hpc'],
     'comps': [K(0, 'sample', n='points'), K(0, 'ref'),
               K(1, 'analyse', [R(0, 'sample', long=True)],
                 over={'hpc': O([R(0, 'ref', long=True), R(0, 'sample', long=True)])}),
               K(1, 'collect', [R(1, 'analyse')], agg=True)],
     'history': {'entry': 'conf',
                 'steps': [{'files': [], 'primitive': False},
                           {'files': [{'global': {'points': 4}}], 'primitive': False, 'platform': 'hpc'},
                           {'files': [], 'primitive': True},
                           {'files': [], 'primitive': False, 'platform': 'hpc'},
                           {'files': [], 'primitive': False}]}},
    # ordinary shell around aggregated references: command substitution, pipe, redirection, `;` glued to the file path
    # (or to the reference itself); the same command line in a replicated consumer and in an unreplicated component
    {'kind': 'corpus:aggregated-path-then-shell-punctuation', 'gvars': {}, 'svars': {},
     'comps': [K(0, 'Prepare'), K(0, 'Sim', [R(0, 'Prepare')], n=3),
               K(1, 'Collect', [R(0, 'Sim', long=True), R(0, 'Prepare', long=True)], agg=True,
                 argt=['-c "echo lines=$(cat ', (R(0, 'Sim', long=True), '/out/energies.csv'), '); sort ',
                       (R(0, 'Sim', long=True), '/energies.csv'), '| uniq >all.csv; wc -l ',
                       (R(0, 'Sim', long=True), '/summary.txt'), ' ', (R(0, 'Sim', long=True), ''), '; cat <',
                       (R(0, 'Sim', long=True), '/a.csv', True), '>o; ls ', (R(0, 'Prepare', long=True), '/seed.txt'),
                       ')"']),
               K(0, 'Post', [R(0, 'Sim'), R(0, 'Prepare')],
                 argt=['x=$(cat ', (R(0, 'Sim'), '/out/e.csv'), '); sort ', (R(0, 'Sim', long=True), '/e.csv'), '|uniq>',
                       (R(0, 'Prepare'), '/o.txt'), ';']),
               K(1, 'Report', [R(1, 'Collect'), R(0, 'Prepare', long=True)],
                 argt=['$(cat ', (R(1, 'Collect'), '/all.csv'), ');ls ', (R(0, 'Prepare', long=True), '/seed.txt'),
                       '|wc'])]},
]


def run(ctx):
    ctx.classifiers = CLASSIFIERS
    ctx.shrinker = shrink
    ctx.rule = ("cases = acyclic workflows of 2-7 components over 1-3 stages, names drawn from a pool built to overlap "
                "(suffix/prefix/infix pairs such as A/BA/AB/ABA/xA, trailing digits A1/A10/gen2, names that look like "
                "reference parts: stage/stage0/ref/copy), equal names in different stages, replica counts 1-4 (11 "
                "sometimes) given as int, string or %(var)s, aggregate flags given literally or as %(var)s, where the "
                "one or two variable names of a case are defined with different values at several scopes at once "
                "(global, stage, the component itself, sibling components of the same and of other stages that do "
                "not use them), several replication points per stage (kind 'scopes': also with different counts), a "
                "few counts given through a variable that only siblings define (must be rejected), references "
                "in both spellings with optional (nested) file paths and the six non-loop methods, direct references "
                "to files named like components, aggregators spelled True/yes/true/y, command lines using the "
                "references with path suffixes and separators, and with ordinary shell text glued right before / right "
                "after a reference or the file path that follows it (command substitution `$(cat X:ref/f)`, back "
                "ticks, `;` `|` `>` `>>` `<` `&` `&&` `)` `]`, quotes, the aggregator's `path,` idiom): the command line "
                "is kept as tokens and the raw command line of every emitted component must be the text the user wrote "
                "with each reference token replaced as the property says (copy i: copy i of a replicated producer; "
                "aggregator: the N copies in index order, each with the file path of the token, separated by blanks "
                "or commas; everything else unchanged; spelling of a reference free); "
                "the document lists the components in a random order and "
                "FlowIR.apply_replicate is additionally driven with the components in explicit processing orders "
                "(topological, reversed, two random shuffles: every pair of components in both relative orders). "
                "In half of the cases variables called like the injected one are defined: `replica` by components for "
                "themselves (inside and outside the replicated region, also as %(countvar)s), by stages and globally, "
                "and `rep=%(replica)s` is put on the command lines; the graph is asked for the resolved variable and "
                "command line of every node. kind 'history' (about 1 in 6): the document is written to a package "
                "directory, loaded, and the SAME configuration object is re-parametrised 1-3 times (graphFromPackage "
                "on the loaded package / conf.parametrize; primitive steps in between; sometimes instantiated with "
                "experimentFromPackage and read back with graphFromExperimentInstanceDirectory) with user variable "
                "files (0-2 per step, global and stage sections) that change the variables the counts / flags are "
                "given through (counts 1-6, 11, 12); every step is compared with the expansion of the document "
                "under the user variables of that step. A sample of 60 (quick) / 300 (thorough) cases + the corpus is "
                "run again at the end in another order, and a third of them once more with all loggers enabled at "
                "DEBUG level: identical answers required. "
                "kind 'platform' (about 1 in 5; 1 in 7 of them with a history whose steps name a platform each, also "
                "changing between the steps of one configuration object): the document lists 1-2 further platforms "
                "(hpc/cloud/lsf-gpu) with their own global / stage sections for the variables the counts and flags "
                "come from (so that the platform's global value competes with the default section of the stage), and "
                "components carry override.<platform> blocks restating references (re-spelled, reordered, with "
                "further producers, sometimes without one), command.arguments, variables (decoys for the count / flag "
                "variables, `replica`, unused names), workflowAttributes.replicate / aggregate; every path is driven "
                "on the platforms of case['drive'] (one or two, mostly non-default) and the replicated FlowIR is also "
                "read back through FlowIRConcrete(replicated, platform).get_component_configuration(raw=True); the "
                "oracle is evaluated on the workflow the document stands for on that platform. In 3 of 10 workflows "
                "component-level variables (also inside override blocks) hold a declared reference and are used on "
                "the command line through %(name)s. "
                "non-trivial (platform cases) = on a driven non-default platform the expansion has a copy, a rewired "
                "component, and some component that consumes a replicated producer has an override block restating "
                "references / command line / a reference-valued variable; "
                "non-trivial (other cases) = the expected expansion has at least one copy and at least one component whose "
                "references are rewired (history: two replicated steps of the history must give different "
                "expansions); distinct by canonical JSON of the case.")
    ctx.assumptions = [
        "component names are non-empty ASCII words over [A-Za-z0-9_-], not one of the special folders; producers live "
        "in the consumer's stage or an earlier one; replica counts >= 1",
        "the structured form of a generated reference is what ParseDataReferenceFull returns for its rendering "
        "(checked for every expanded reference by the oracle through the real parser; C09 covers the parser itself)",
        "workflows whose generated copy names collide with declared names (A with 2 replicas next to A1) are outside "
        "the property: the expected outcome is a rejection by the loader",
        "DoWhile placeholders (names with #) are not generated (C05)",
        "an attribute given through a variable is exactly `%(name)s`; variable values are integers / digit strings "
        "(counts) or booleans / true-yes-false-no spellings (flags) without nested %(..)s references",
        "user variables (variable files) are layered over the variables the package gives each stage, the global "
        "section first, then the section of the stage; variables a component defines itself stay on top (what "
        "_patch_in_variable_files does; layering of several files is C15's subject)",
        "a component-level variable whose value refers to another variable (replica: '%(n)s') is not compared in "
        "components that are not copies (the configuration object hands it back resolved, the FlowIR as written)",
        "the workflow a document stands for on platform p: global variables = default global section updated with "
        "p's; variables of a stage = default section of the stage without the names p's global section defines, "
        "updated with p's section of the stage; every component with its override.p block layered on top "
        "(dictionaries merged key by key, lists and strings replaced) -- the layering itself is C04's subject, here "
        "it defines which workflow is replicated; inside an override block replicate is an int or %(var)s and "
        "aggregate a bool or %(var)s (the loader's schema)",
        "a variable that holds a reference holds exactly one reference string the component declares on that "
        "platform, and only in components that never aggregate; references inside global / stage variables are not "
        "generated (the code rewrites the strings of the component only)",
    ]
    ctx.trusted.append("C03: networkx.topological_sort (the model receives the components in a topological order "
                       "computed by the generator); FlowIRConcrete.instance() as the provider of the global/stage "
                       "scopes handed to apply_replicate on the default platform (on other platforms the scopes and the "
                       "layering of override blocks are modelled: ReplOver.platGlobal/platStage/layerRaw, compared "
                       "through the resolved counts); variable values without nested %(..)s references")
    rng = ctx.rng
    quick = ctx.tier == 'quick'
    cases = [dict(c, order=list(range(len(c['comps']))), orders=shrink_orders(len(c['comps']))) for c in CORPUS]
    n = 420 if quick else 2800
    nh = 90 if quick else 480
    npl = 130 if quick else 1000
    for i in range(n):
        cases.append(gen_case(rng))
        if i * nh // n != (i + 1) * nh // n:       # the histories are spread over the run
            hc = gen_history_case(rng)
            if hc:
                cases.append(hc)
        if i * npl // n != (i + 1) * npl // n:     # and so are the workflows with platforms
            pc = gen_platform_case(rng, with_history=(rng.random() < 0.15))
            if pc:
                cases.append(pc)
    # E: a sample of the cases is run again at the end (another order, after all the others), once with the same
    # ambient settings and once with logging enabled
    chosen = set(rng.sample(range(len(cases)), min(len(cases), 60 if quick else 300)))
    chosen |= {i for i, c in enumerate(cases) if str(c.get('kind', '')).startswith('corpus:')}
    first = {}
    counter = [0]

    def keep(case, out):
        if counter[0] in chosen:
            first[counter[0]] = (case, json.dumps(out, sort_keys=True, default=str))
        counter[0] += 1

    B = 500
    for i in range(0, len(cases), B):
        check_cases(ctx, cases[i:i + B], keep=keep)
    rerun(ctx, first)


def rerun(ctx, first):
    """family: process-level / class-level state shared between independent loads (caches keyed by names, class
    attributes mutated in place) and ambient settings (logging level)"""
    idxs = sorted(first)
    ctx.rng.shuffle(idxs)
    for mode in ('same-settings', 'logging-debug'):
        for i in idxs:
            case, before = first[i]
            if mode == 'logging-debug' and i % 3:
                continue
            again = json.dumps(run_with_logging(case) if mode == 'logging-debug' else impl_all(case),
                               sort_keys=True, default=str)
            ctx.tag('rerun:' + mode)
            if again != before:
                a, b = json.loads(before), json.loads(again)
                plat = next(p for p in a if a[p] != b.get(p))
                a, b = a[plat], b.get(plat) or {}
                keys = sorted(k for k in set(a) | set(b) if a.get(k) != b.get(k))
                ctx.fail('result-depends-on-earlier-cases' if mode == 'same-settings'
                         else 'result-depends-on-logging-level', case,
                         {'differs_in': keys, 'on_platform': plat, 'first': {k: a.get(k) for k in keys[:2]},
                          'again': {k: b.get(k) for k in keys[:2]}, 'mode': mode})
        idxs.reverse()


def run_with_logging(case):
    """impl_run with the loggers of the code under test enabled at DEBUG level (records are discarded)"""
    real_disable = logging.disable
    root = logging.getLogger()
    level, handlers = root.level, list(root.handlers)
    sink = logging.NullHandler()
    try:
        logging.disable = lambda *a, **k: None        # impl_run disables logging: not this time
        real_disable(logging.NOTSET)
        root.handlers = [sink]
        root.setLevel(logging.DEBUG)
        return impl_all(case)
    finally:
        logging.disable = real_disable
        root.handlers = handlers
        root.setLevel(level)


def replay(ctx, doc):
    ctx.classifiers = CLASSIFIERS
    case = doc.get('input') or doc['no_longer_checks'][-1]['input']
    first = {}
    check_cases(ctx, [case], keep=lambda c, o: first.update({0: (c, json.dumps(o, sort_keys=True, default=str))}))
    rerun(ctx, first)
