"""C15 child process: load packages in THIS interpreter (its PYTHONHASHSEED is chosen by the parent,
harness/c15.py) and print one canonical JSON dump per job.

usage: PYTHONHASHSEED=<n> /venv/bin/python harness/c15_child.py <jobs.json> <out.json>

jobs.json = {"jobs": [{"id": str, "kind": "flowir"|"dsl", "doc": <document>, "doc_key_seed": int,
                      "files": {relpath: text}, "file_order_seed": int,
                      "variable_files": [{"name": str, "doc": {...}}], "variable_order": [names...],
                      "platform": str|null, "again": bool (load it a second time at the end)}], "scratch": dir,
             "logging": "debug" | absent}
Each job is materialised by the child under scratch/<child-tag>/<id> with
  * the keys of every mapping of the documents permuted by doc_key_seed (the documents stay equal as
    Python values),
  * files and directory entries created in an order permuted by file_order_seed,
then loaded through ExperimentPackage.packageFromLocation + Experiment.experimentFromPackage.
The dump holds: component names, graph edges, per component the resolved configuration (variables
substituted), the task environment, memoization hashes (strong + fuzzy), and the layered user variables.
Everything that comes from a set/dict is sorted, the scratch directory is replaced by $I.

"listing" (in jobs.json): the order in which THIS process sees the entries of every directory (os.listdir /
os.scandir, hence glob, os.walk, shutil): absent = what the file system gives, "ascending", "descending",
"shuffle:<seed>" (a fixed permutation per directory).  That is what differs between ext4, tmpfs, NFS, APFS ...

kind "dosini": {"doc": {"experiment": {platform|"default": {section: {option: value}}},
                        "variables": {platform|"default": {section: {name: value}}},
                        "stages": [{component: {option: value}}, ...], "status": {...}|absent},
                "history": [{"variable_files": [names], "platform": str|null}, ...]}
is written as a DOSINI package (conf/experiment[.<platform>].conf, conf/variables.conf, conf/variables.d/<platform>.conf,
conf/stages.d/stage<N>.conf); every entry of "history" is an earlier load of the directory with
createInstanceFiles=True (what a launch does: it stores the instance flavour stage<N>.instance.conf, ... next to the
package flavour) performed BEFORE the loads that are dumped.
"""
import json
import os
import random
import sys
import logging
import warnings

warnings.filterwarnings("ignore")
logging.disable(logging.CRITICAL)


def install_listing_order(mode):
    """every directory listing of this process is reordered: os.listdir and os.scandir (glob, os.walk, shutil and
    pathlib go through them)"""
    if not mode:
        return
    orig_listdir, orig_scandir = os.listdir, os.scandir

    def reorder(items, key):
        items = sorted(items, key=key)
        if mode == "ascending":
            return items
        if mode == "descending":
            return items[::-1]
        seed = mode.split(":", 1)[1]
        random.Random("%s|%s" % (seed, "|".join(str(key(i)) for i in items))).shuffle(items)
        return items

    def name_of(x):
        x = x.name if hasattr(x, "name") else x
        return x.decode("utf-8", "surrogateescape") if isinstance(x, bytes) else x

    def listdir(*a, **k):
        return reorder(orig_listdir(*a, **k), name_of)

    class Scan(object):
        def __init__(self, *a, **k):
            with orig_scandir(*a, **k) as it:
                self._entries = iter(reorder(list(it), name_of))

        def __iter__(self):
            return self

        def __next__(self):
            return next(self._entries)

        def close(self):
            self._entries = iter(())

        def __enter__(self):
            return self

        def __exit__(self, *exc):
            self.close()
            return False

    os.listdir = listdir
    os.scandir = Scan


def ini_text(sections):
    lines = []
    for sec, opts in sections.items():
        lines.append("[%s]" % sec)
        for k, v in (opts or {}).items():
            lines.append("%s=%s" % (k, v))
        lines.append("")
    return "\n".join(lines) + "\n"


def dosini_entries(doc):
    """(relative path, text) of every file of the DOSINI package"""
    entries = []
    for plat, sections in (doc.get("experiment") or {}).items():
        entries.append(("conf/experiment.conf" if plat == "default" else "conf/experiment.%s.conf" % plat,
                        ini_text(sections)))
    for plat, sections in (doc.get("variables") or {}).items():
        entries.append(("conf/variables.conf" if plat == "default" else "conf/variables.d/%s.conf" % plat,
                        ini_text(sections)))
    for i, comps in enumerate(doc.get("stages") or []):
        entries.append(("conf/stages.d/stage%d.conf" % i, ini_text(comps)))
    if doc.get("status"):
        entries.append(("conf/status.conf", ini_text(doc["status"])))
    return entries


def permute_keys(obj, rnd):
    """same value, different insertion order of every mapping (lists keep their order: it is data)"""
    if isinstance(obj, dict):
        keys = list(obj.keys())
        rnd.shuffle(keys)
        return {k: permute_keys(obj[k], rnd) for k in keys}
    if isinstance(obj, list):
        return [permute_keys(x, rnd) for x in obj]
    return obj


def unjson_keys(obj):
    """JSON turns integer keys into strings: the generator marks them as '#<int>'"""
    if isinstance(obj, dict):
        out = {}
        for k, v in obj.items():
            if isinstance(k, str) and k.startswith("#") and k[1:].lstrip("-").isdigit():
                k = int(k[1:])
            out[k] = unjson_keys(v)
        return out
    if isinstance(obj, list):
        return [unjson_keys(x) for x in obj]
    return obj


def materialise(job, root):
    import yaml
    rnd = random.Random(job.get("doc_key_seed", 0))
    frnd = random.Random(job.get("file_order_seed", 0))
    pkg = os.path.join(root, "p.package")
    entries = []  # (relpath, text)
    doc = permute_keys(unjson_keys(job["doc"]), rnd)
    if job.get("kind") == "dosini":
        entries.extend(dosini_entries(doc))
    else:
        main = "conf/flowir_package.yaml" if job.get("kind", "flowir") == "flowir" else "conf/dsl.yaml"
        entries.append((main, yaml.safe_dump(doc, sort_keys=False)))
    for rel, text in job.get("files", {}).items():
        entries.append((rel, text))
    frnd.shuffle(entries)
    for rel, text in entries:
        p = os.path.join(pkg, rel)
        os.makedirs(os.path.dirname(p), exist_ok=True)
        with open(p, "w") as fh:
            fh.write(text)
    vdir = os.path.join(root, "vars")
    os.makedirs(vdir, exist_ok=True)
    vfs = list(job.get("variable_files", []))
    frnd.shuffle(vfs)
    paths = {}
    for vf in vfs:
        p = os.path.join(vdir, vf["name"])
        vdoc = permute_keys(unjson_keys(vf["doc"]), rnd)
        if vf["name"].endswith(".conf"):
            # the DOSINI spelling of a user variable file: [GLOBAL] and [STAGE<N>] sections
            sections = {}
            for sec, body in vdoc.items():
                if sec == "global":
                    sections["GLOBAL"] = body
                else:
                    for st, sv in body.items():
                        sections["STAGE%d" % int(st)] = sv
            text = ini_text(sections)
        else:
            text = yaml.safe_dump(vdoc, sort_keys=False)
        with open(p, "w") as fh:
            fh.write(text)
        paths[vf["name"]] = p
    job["_vpaths"] = paths
    return pkg, [paths[n] for n in job.get("variable_order", [])]


def scrub(x, root):
    if isinstance(x, str):
        return x.replace(root, "$I")
    if isinstance(x, dict):
        return {str(k): scrub(v, root) for k, v in sorted(x.items(), key=lambda kv: str(kv[0]))}
    if isinstance(x, (list, tuple)):
        return [scrub(v, root) for v in x]
    if isinstance(x, (set, frozenset)):
        return sorted(scrub(v, root) for v in x)
    if isinstance(x, (int, float, bool)) or x is None:
        return x
    return str(x)


def err_kind(exc):
    return type(exc).__name__


def via_configuration(pkg, vfiles, job, how):
    """user variables + variables of every component as seen through the configuration object"""
    import experiment.model.conf
    import experiment.model.storage
    import experiment.model.graph
    try:
        if how == "init":
            conf = experiment.model.conf.ExperimentConfigurationFactory.configurationForExperiment(
                pkg, platform=job.get("platform"), createInstanceFiles=False, updateInstanceFiles=False,
                primitive=False, variable_files=list(vfiles))
        elif how == "instance":
            # the instance flavour an earlier launch stored in the directory
            conf = experiment.model.conf.ExperimentConfigurationFactory.configurationForExperiment(
                pkg, platform=job.get("platform"), createInstanceFiles=False, updateInstanceFiles=False,
                primitive=False, variable_files=None, is_instance=True)
        else:
            package = experiment.model.storage.ExperimentPackage.packageFromLocation(pkg, platform=job.get("platform"))
            g = experiment.model.graph.WorkflowGraph.graphFromPackage(
                package, platform=job.get("platform"), primitive=False, variable_files=list(vfiles),
                createInstanceConfiguration=False, updateInstanceConfiguration=False)
            conf = g.configuration
        concrete = conf.get_flowir_concrete(return_copy=False)
        res = {"user_variables": conf.get_user_variables(), "components": {}}
        for cid in sorted(concrete.get_component_identifiers(True)):
            cfg = concrete.get_component_configuration(cid, raw=False, include_default=True, is_primitive=False)
            res["components"]["stage%d.%s" % cid] = {"variables": cfg.get("variables"),
                                                     "arguments": cfg.get("command", {}).get("arguments")}
        return res
    except Exception as exc:  # noqa
        return {"error": err_kind(exc), "_msg": str(exc)[:800]}


def load(job, root):
    import re
    import experiment.model.storage
    import experiment.model.data
    pkg, vfiles = materialise(job, root)
    out = {}
    os.chdir(root)
    if job.get("history"):
        import experiment.model.conf
        out["history"] = []
        for h in job["history"]:
            try:
                experiment.model.conf.ExperimentConfigurationFactory.configurationForExperiment(
                    pkg, platform=h.get("platform"), primitive=False, is_instance=False,
                    variable_files=[job["_vpaths"][n] for n in h.get("variable_files", [])] or None,
                    createInstanceFiles=True, updateInstanceFiles=True)
                out["history"].append("ok")
            except Exception as exc:  # noqa
                out["history"].append("error:" + err_kind(exc))
        out["_conf_listing"] = sorted(os.path.relpath(os.path.join(d, f), pkg)
                                      for d, _s, fs in os.walk(os.path.join(pkg, "conf")) for f in fs)
    try:
        package = experiment.model.storage.ExperimentPackage.packageFromLocation(pkg, platform=job.get("platform"))
        exp = experiment.model.data.Experiment.experimentFromPackage(
            package, location=root, variable_files=vfiles or None, platform=job.get("platform"))
    except Exception as exc:  # noqa
        return dict(out, error=err_kind(exc), _msg=str(exc)[:1500].replace(root, "$I"))
    inst = exp.instanceDirectory.location
    g = exp.experimentGraph
    conf = exp.configuration
    concrete = conf.get_flowir_concrete(return_copy=False)

    def clean(x):
        x = scrub(x, root)
        # the instance directory name carries a timestamp
        s = json.dumps(x, sort_keys=True)
        s = s.replace(os.path.basename(inst), "INSTANCE")
        s = re.sub(r"p-\d{8}T\d{6}\.\d+\.instance", "INSTANCE", s)
        return json.loads(s)

    out["names"] = sorted(g.graph.nodes)
    out["edges"] = sorted([a, b] for a, b in g.graph.edges)
    out["platform"] = conf.get_platform_name()
    comps = {}
    for n in sorted(g.graph.nodes):
        d = {}
        spec = g.graph.nodes[n]["componentSpecification"] if "componentSpecification" in g.graph.nodes[n] else None
        try:
            cid = spec.identification
            d["config"] = concrete.get_component_configuration(
                (cid.stageIndex, cid.componentName), raw=False, include_default=True, is_primitive=False)
        except Exception as exc:  # noqa
            d["config"] = {"error": err_kind(exc)}
        try:
            env = g.environmentForNode(n)
            # keep only what the package can influence: the launch environment is the same in every child,
            # but keep the dump small
            d["environment"] = {k: v for k, v in env.items() if k not in ("PYTHONHASHSEED", "FLOW_RUN_ID")}
        except Exception as exc:  # noqa
            d["environment"] = {"error": err_kind(exc)}
        try:
            d["references"] = list(spec.rawDataReferences)
            d["producers"] = sorted(x for x in g.graph.predecessors(n))
        except Exception as exc:  # noqa
            d["references"] = {"error": err_kind(exc)}
        try:
            d["arguments"] = spec.resolveArguments(ignoreErrors=True)
        except Exception as exc:  # noqa
            d["arguments"] = {"error": err_kind(exc)}
        try:
            d["hash"] = spec.memoization_hash
        except Exception as exc:  # noqa
            d["hash"] = {"error": err_kind(exc)}
        try:
            d["hash_fuzzy"] = spec.memoization_hash_fuzzy
        except Exception as exc:  # noqa
            d["hash_fuzzy"] = {"error": err_kind(exc)}
        try:
            d["memo_info"] = spec.memoization_info
        except Exception as exc:  # noqa
            d["memo_info"] = {"error": err_kind(exc)}
        comps[n] = d
    out["components"] = comps
    # the two entry points that take the list of user variable files themselves
    # (FlowIRExperimentConfiguration.__init__ and .parametrize; experimentFromPackage above pre-merges the files)
    out["conf_init"] = via_configuration(pkg, vfiles, job, "init")
    out["conf_parametrize"] = via_configuration(pkg, vfiles, job, "parametrize")
    if job.get("history"):
        out["instance_flavour"] = via_configuration(pkg, vfiles, job, "instance")
    try:
        out["user_variables"] = conf.get_user_variables()
    except Exception as exc:  # noqa
        out["user_variables"] = {"error": err_kind(exc)}
    try:
        out["global_variables"] = conf.get_global_variables()
    except Exception as exc:  # noqa
        out["global_variables"] = {"error": err_kind(exc)}
    try:
        envs = {}
        for p in concrete.platforms:
            envs[p] = concrete.get_environments(p)
        out["environments"] = envs
    except Exception as exc:  # noqa
        out["environments"] = {"error": err_kind(exc)}
    try:
        out["manifest"] = conf.manifestData
        out["top_level_folders"] = sorted(conf.top_level_folders)
    except Exception as exc:  # noqa
        out["manifest"] = {"error": err_kind(exc)}
    return clean(out)


def main():
    jobs_path, out_path = os.path.abspath(sys.argv[1]), os.path.abspath(sys.argv[2])
    spec = json.load(open(jobs_path))
    tag = spec["tag"]
    install_listing_order(spec.get("listing"))
    if spec.get("logging") == "debug":
        # an ambient setting a user can change: every logger enabled at DEBUG level, the records are discarded
        logging.disable(logging.NOTSET)
        logging.getLogger().handlers = [logging.NullHandler()]
        logging.getLogger().setLevel(logging.DEBUG)
    results = {}
    for job in spec["jobs"]:
        root = os.path.join(spec["scratch"], "%s-%s" % (tag, job["id"]))
        os.makedirs(root, exist_ok=True)
        try:
            results[job["id"]] = load(job, root)
        except Exception as exc:  # noqa
            import traceback
            results[job["id"]] = {"child_error": err_kind(exc), "tb": traceback.format_exc()[-1500:]}
    # process-level state shared between independent loads: the jobs marked `again` are loaded once more, after all
    # the others and in the reverse order, into a fresh directory; the parent requires the same dump
    for job in reversed(spec["jobs"]):
        if not job.get("again"):
            continue
        root = os.path.join(spec["scratch"], "%s-%s-again" % (tag, job["id"]))
        os.makedirs(root, exist_ok=True)
        try:
            results[job["id"] + "@again"] = load(job, root)
        except Exception as exc:  # noqa
            import traceback
            results[job["id"] + "@again"] = {"child_error": err_kind(exc), "tb": traceback.format_exc()[-1500:]}
    with open(out_path, "w") as fh:
        json.dump({"hashseed": os.environ.get("PYTHONHASHSEED"), "results": results}, fh, sort_keys=True)
    sys.stdout.flush()
    os._exit(0)


if __name__ == "__main__":
    main()
