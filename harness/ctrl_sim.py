"""Shared code of the C01 / C02 checks: workflow generator, exit scripts, schedules, model requests,
model-independent oracles.  The deterministic runtime itself is harness/detsim.py."""
from __future__ import annotations

import os
import shutil
import tempfile

from harness import detsim

REASONS = ["Success", "KnownIssue", "SystemIssue", "SubmissionFailed", "UnknownIssue", "Killed", "Cancelled",
           "ResourceExhausted"]
FINAL = ("finished", "failed", "shutdown")
RESUB_CAP = 5
MAX_OPS = 400


# ----------------------------------------------------------------------------------------
# workflow templates (FlowIR before replication)
# ----------------------------------------------------------------------------------------

def _decorate(rng, c):
    """random failure-handling attributes of one template"""
    if "shutdownOn" not in c["wa"] and rng.random() < 0.45:
        c["wa"]["shutdownOn"] = sorted(rng.sample(["KnownIssue", "SystemIssue", "UnknownIssue", "Cancelled",
                                                   "ResourceExhausted", "Killed", "SubmissionFailed"],
                                                  rng.choice([1, 1, 2, 3])))
    if rng.random() < 0.25:
        c["wa"]["restartHookOn"] = sorted(rng.sample(["KnownIssue", "ResourceExhausted", "SystemIssue",
                                                      "UnknownIssue"], rng.choice([1, 2])))
    if rng.random() < 0.5:
        c["wa"]["maxRestarts"] = rng.choice([0, 1, 2, 3])


def gen_template(rng, two_stage=False, size=None, stages=None):
    """Random FlowIR template: list of components in dependency order over `stages` consecutive stages.
    Replicas / inherited replicas / aggregators are produced later by the *real* replication code of the
    package loader.  `aggregate: true` is also put on components without any replicated input (second-level
    aggregators, collectors of plain producers)."""
    k = size or rng.choice([2, 3, 3, 4, 4, 5, 6])
    nst = stages if stages is not None else (2 if two_stage else 1)
    nst = max(1, min(nst, k))
    cuts = sorted(rng.sample(range(1, k), nst - 1)) if nst > 1 else []
    stage_of = [sum(1 for x in cuts if x <= i) for i in range(k)]
    comps = []
    replicated = []     # template is (transitively) replicated
    have_rep = False
    for i in range(k):
        stage = stage_of[i]
        c = {"name": "c%d" % i, "stage": stage, "refs": [], "wa": {}}
        earlier = list(range(i))
        npred = 0 if i == 0 else rng.choice([0, 1, 1, 1, 2, 2, 3])
        preds = sorted(rng.sample(earlier, min(npred, len(earlier))))
        if i > 0 and stage != stage_of[i - 1] and not preds and rng.random() < 0.5:
            preds = [rng.choice(earlier)]
        c["refs"] = preds
        is_rep = any(replicated[p] for p in preds)
        if is_rep and rng.random() < 0.55:
            c["wa"]["aggregate"] = True
            is_rep = False
        elif not is_rep and preds and rng.random() < 0.12:
            c["wa"]["aggregate"] = True          # aggregating without a replicated input
        elif not have_rep and not is_rep and rng.random() < 0.45:
            c["wa"]["replicate"] = rng.choice([2, 2, 3])
            have_rep = True
            is_rep = True
        same_stage_preds = [p for p in preds if comps[p]["stage"] == stage]
        if same_stage_preds and rng.random() < (0.5 if stage >= 1 else 0.3):
            c["wa"]["repeatInterval"] = 1
            other = [p for p in earlier if comps[p]["stage"] < stage and p not in preds]
            if stage >= 1 and other and len(same_stage_preds) == len(preds) and rng.random() < 0.7:
                # observer of a same-stage subject that also consumes from an earlier stage: the repeating
                # exception must not extend to that producer
                preds = sorted(preds + [rng.choice(other)])
                c["refs"] = preds
                is_rep_new = any(replicated[p] for p in preds)
                if is_rep_new and not is_rep and not c["wa"].get("aggregate"):
                    is_rep = True
        _decorate(rng, c)
        replicated.append(is_rep)
        comps.append(c)
    return comps


def _normalise(comps):
    """stage numbers -> 0..m-1 (keeps the order), names c0.."""
    stages = sorted(set(c["stage"] for c in comps))
    for i, c in enumerate(comps):
        c["stage"] = stages.index(c["stage"])
        c["name"] = "c%d" % i
    return comps


def gen_shaped(rng):
    """Templates built around a motif (the purely random generator reaches these shapes only rarely):
      xagg      replicated producer, other components of its stage, an aggregating consumer in the same or a
                LATER stage, optionally a second-level aggregator (no replicated input) and a plain consumer;
      chain     a producer with a shutdown list, a sibling, consumers spread over the following stages;
      observer  a repeating component with several same-stage subjects that become launchable in different
                scheduler passes, optionally one more input from an earlier stage.
    Failure-handling attributes are random as in gen_template."""
    motif = rng.choice(["xagg", "xagg", "chain", "observer"])
    comps = []

    def add(stage, refs, **wa):
        comps.append({"name": "", "stage": stage, "refs": sorted(set(refs)), "wa": dict(wa)})
        return len(comps) - 1
    if motif == "xagg":
        src = add(0, []) if rng.random() < 0.5 else None
        rep = add(0, [src] if src is not None and rng.random() < 0.7 else [], replicate=rng.choice([2, 2, 3]))
        sibs = [add(0, [src] if src is not None and rng.random() < 0.5 else [])
                for _ in range(rng.choice([1, 1, 2]))]
        if rng.random() < 0.3:
            rep2 = add(0, [rep])            # inherits the replication
        else:
            rep2 = None
        sa = rng.choice([0, 1, 1, 1, 2])
        if sa == 2:
            add(1, [rng.choice(sibs)] if rng.random() < 0.5 else [])
        refs = [rep2 if rep2 is not None and rng.random() < 0.7 else rep]
        if rng.random() < 0.35:
            refs.append(rng.choice(sibs))   # a non-replicated input as well
        agg = add(sa, refs, aggregate=True)
        if rng.random() < 0.5:
            add(rng.choice([sa, sa + 1]), [agg], aggregate=True)      # aggregator without replicated input
        if rng.random() < 0.5:
            add(rng.choice([sa, sa + 1]), [agg])
    elif motif == "chain":
        prod = add(0, [], shutdownOn=sorted(rng.sample(["KnownIssue", "SystemIssue", "UnknownIssue", "Cancelled",
                                                        "ResourceExhausted"], rng.choice([1, 2, 4]))))
        sib = add(0, [])
        s1 = rng.choice([0, 1, 1])
        c1 = add(s1, [prod] + ([sib] if rng.random() < 0.3 else []),
                 **({"aggregate": True} if rng.random() < 0.25 else {}))
        s2 = rng.choice([s1, s1 + 1])
        add(s2, [c1])
        add(rng.choice([s1, s2]), [])
        if rng.random() < 0.4:
            add(s2 + 1, [rng.choice([sib, c1])])
    else:
        a = add(0, [])
        st = rng.choice([0, 0, 1])
        b = add(st, [a])
        c = add(st, [b])
        subj = [b, c] if st == 0 and rng.random() < 0.5 else [c, add(st, [])]
        if st == 0 and rng.random() < 0.5:
            subj.append(a)
        refs = list(subj)
        if st == 1 and rng.random() < 0.6:
            refs.append(a)
        add(st, refs, repeatInterval=1)
        if rng.random() < 0.4:
            add(st + 1, [rng.choice(subj)])
    for c in comps:
        _decorate(rng, c)
    return _normalise(comps)


def gen_workflow(rng, p_shaped=0.4, stages=(1, 1, 2, 2, 3)):
    """(template, stages with continue-on-error)"""
    if rng.random() < p_shaped:
        t = gen_shaped(rng)
    else:
        t = gen_template(rng, stages=rng.choice(list(stages)))
    last = max(c["stage"] for c in t)
    cont = [k for k in range(last) if rng.random() < 0.3]
    return t, cont


def flowir_yaml(template, cont=()):
    import yaml
    comps = []
    for c in template:
        refs = []
        for p in c["refs"]:
            pc = template[p]
            refs.append("stage%d.%s:ref" % (pc["stage"], pc["name"]))
        d = {"name": c["name"], "stage": c["stage"],
             "command": {"executable": "ls", "arguments": " ".join(refs)},
             "references": refs}
        if c["wa"]:
            d["workflowAttributes"] = dict(c["wa"])
        comps.append(d)
    doc = {"components": comps}
    if cont:
        doc["variables"] = {"default": {"stages": {int(k): {"continue-on-error": "1"} for k in cont}}}
    return yaml.safe_dump(doc)


# ----------------------------------------------------------------------------------------
# static description of the built experiment (read from the real objects)
# ----------------------------------------------------------------------------------------

def describe(sim):
    comps = []
    for r in sim.refs:
        c = sim.comp[r]
        spec = c.specification
        cs = spec.componentSpecification
        wa = spec.workflowAttributes
        maxr = wa.get("maxRestarts", None)
        if maxr is None:
            maxr = 3
        comps.append({
            "ref": r, "stage": int(c.stageIndex), "preds": list(sim.preds[r]),
            "isRepeat": bool(wa["isRepeat"]),
            "isAgg": bool(cs.isAggregating or cs.isAggregatingLoopedNodes),
            "isRepl": bool(cs.isReplicating),
            "shutdownOn": list(wa["shutdownOn"]),
            "restartOn": list(wa.get("restartHookOn", [])),
            "maxRestarts": int(maxr),
        })
    return {"comps": comps, "order": list(sim.order), "lastStage": int(sim.exp.numStages() - 1),
            "cont": [int(st.index) for st in sim.exp._stages if st.continueOnError]}


def gen_scripts(rng, info, flavour=None):
    """exit reason of every task execution, per component reference"""
    flavour = flavour or rng.choice(["success", "success", "shutdown", "fail", "mixed", "mixed", "restarts",
                                     "one-bad", "one-bad"])
    scripts = {}
    the_one = rng.randrange(len(info["comps"])) if flavour == "one-bad" else None
    for ci, c in enumerate(info["comps"]):
        so = c["shutdownOn"]
        ro = [x for x in c["restartOn"] if x != "SubmissionFailed"]
        fatal = [x for x in ["KnownIssue", "SystemIssue", "UnknownIssue", "Cancelled", "ResourceExhausted"]
                 if x not in so and x not in c["restartOn"]]
        kind = "ok"
        r = rng.random()
        if flavour == "shutdown" and so and r < 0.6:
            kind = "shutdown"
        elif flavour == "fail" and r < 0.35:
            kind = "fail"
        elif flavour == "mixed":
            kind = rng.choice(["ok", "ok", "ok", "shutdown" if so else "ok", "fail", "restart", "resub"])
        elif flavour == "restarts":
            kind = rng.choice(["ok", "restart", "restart", "resub", "resub-many"])
        elif flavour == "one-bad" and ci == the_one:
            kind = rng.choice(["fail", "fail", "shutdown" if so else "fail"])
        s = []
        if kind in ("restart",) and ro:
            s = [rng.choice(ro) for _ in range(rng.randint(1, 4))]
            kind = rng.choice(["ok", "ok", "shutdown" if so else "ok", "fail"])
        elif kind == "resub":
            s = ["SubmissionFailed"] * rng.randint(1, 3)
            if rng.random() < 0.3:
                s.insert(rng.randint(0, len(s)), "Success") if False else None
            kind = rng.choice(["ok", "ok", "fail"])
        elif kind == "resub-many":
            s = ["SubmissionFailed"] * rng.randint(4, 7)
            kind = "ok"
        if kind == "shutdown" and so:
            s.append(rng.choice(so))
        elif kind == "fail" and fatal:
            s.append(rng.choice(fatal))
        elif rng.random() < 0.5:
            s.append("Success")
        scripts[c["ref"]] = s
    return flavour, scripts


# ----------------------------------------------------------------------------------------
# the documented rules, restated in Python (independent of the Lean model)
# ----------------------------------------------------------------------------------------

def own_outcome(c, script):
    """final state that the component's own executions lead to (restart policy of the harness' FakeEngine +
    Controller._restartComponent + TransitionComponentToFinalState)"""
    restarts = 0
    resub = 0
    k = 0
    while True:
        r = script[k] if k < len(script) else "Success"
        k += 1
        if r == "Success":
            resub = 0
        restart = False
        if r in c["restartOn"]:
            restart = restarts + 1 <= c["maxRestarts"]
        elif r == "SubmissionFailed":
            restart = resub < RESUB_CAP and restarts + 1 <= c["maxRestarts"]
        if restart:
            if r == "SubmissionFailed":
                resub += 1
            else:
                restarts += 1
            if k > 200:
                return "finished"
            continue
        if r == "Success":
            return "finished"
        return "shutdown" if r in c["shutdownOn"] else "failed"


def expected_states(info, scripts):
    out = []
    for i, c in enumerate(info["comps"]):
        ps = [out[p] for p in c["preds"]]
        repl = [out[p] for p in c["preds"] if info["comps"][p]["isRepl"]]
        nonrepl = [out[p] for p in c["preds"] if not info["comps"][p]["isRepl"]]
        if "failed" in ps:
            st = "shutdown"
        elif c["isAgg"] and ("shutdown" in nonrepl or (repl and all(x == "shutdown" for x in repl))):
            st = "shutdown"
        elif (not c["isAgg"]) and "shutdown" in ps:
            st = "shutdown"
        else:
            st = own_outcome(c, scripts.get(c["ref"], []))
        out.append(st)
    return out


def launch_violations(info, i, states, started):
    """C01 restated on the true states at the moment component i is launched.
    states[p] = true state name of every component, started[p] = producer's engine has been run."""
    c = info["comps"][i]
    bad = []
    for p in c["preds"]:
        st = states[p]
        pc = info["comps"][p]
        if st not in FINAL:
            if not (c["isRepeat"] and pc["stage"] == c["stage"] and started[p]):
                bad.append("launched-before-producer-final")
        if st == "failed":
            bad.append("launched-on-failed-producer")
        if st == "shutdown" and not c["isAgg"]:
            bad.append("nonaggregating-launched-on-shutdown-producer")
    if c["isAgg"]:
        repl = [states[p] for p in c["preds"] if info["comps"][p]["isRepl"]]
        nonrepl = [states[p] for p in c["preds"] if not info["comps"][p]["isRepl"]]
        if "shutdown" in nonrepl:
            bad.append("aggregating-launched-on-shutdown-nonreplicated-producer")
        if repl and all(x == "shutdown" for x in repl):
            bad.append("aggregating-launched-with-all-replicated-producers-shutdown")
    return sorted(set(bad))


# ----------------------------------------------------------------------------------------
# schedules
# ----------------------------------------------------------------------------------------

PERSONALITIES = {
    "uniform": dict(exit=3, fin=3, pm=3, sched=3, tick=0.3),
    "late-fin": dict(exit=4, fin=0.5, pm=3, sched=4, tick=0.3),
    "late-pm": dict(exit=4, fin=3, pm=0.4, sched=4, tick=0.3),
    "sched-heavy": dict(exit=1, fin=1, pm=1, sched=6, tick=0.2),
    "eager": dict(exit=1, fin=8, pm=8, sched=4, tick=0.1),
    "burst-exits": dict(exit=10, fin=1, pm=1, sched=1, tick=0.1),
}


def random_chooser(rng, personality, p_kill=0.0, max_ops=MAX_OPS):
    w = PERSONALITIES[personality]
    state = {"n": 0, "killed": False}

    def choose(sim):
        state["n"] += 1
        if state["n"] > max_ops:
            return None
        cands = []
        weights = []
        for op in sim.enabled():
            cands.append(op)
            weights.append(w[op[0]])
        cands.append(["sched"])
        weights.append(w["sched"] if len(cands) > 1 else 1000)
        if len(cands) > 1:
            cands.append(["tick", rng.randrange(len(sim.refs))])
            weights.append(w["tick"])
        if p_kill and not state["killed"] and rng.random() < p_kill:
            state["killed"] = True
            return ["kill"]
        return rng.choices(cands, weights)[0]
    return choose


# ----------------------------------------------------------------------------------------
# one run of the real controller
# ----------------------------------------------------------------------------------------

class RunResult:
    pass


def final_state_changes(info, snaps):
    """'exactly one final state', evaluated on the recorded states: [component, first final state, later state]
    for every component that was seen in a final state and later in a different state"""
    first = {}
    out = []
    for snap in snaps:
        for i, c in enumerate(snap["comps"]):
            st = c[0]
            if i in first:
                if st != first[i] and [i, first[i], st] not in out:
                    out.append([i, first[i], st])
            elif st in FINAL:
                first[i] = st
    return out


def run_real(template, scripts, chooser_factory, check_launch=True, cont=()):
    """Builds the experiment, runs the stage loop (Controller.initialise / Controller.run() per stage) under
    `chooser`, returns a RunResult (info, scripts actually used, ops, snaps, result of the last run(), results per
    stage, final states, launch oracle failures ...)"""
    tmp = tempfile.mkdtemp(prefix="c01-")
    cwd = os.getcwd()
    res = RunResult()
    sim = None
    try:
        sim = detsim.Sim(flowir_yaml(template, cont), tmp, {})
        info = describe(sim)
        if callable(scripts):
            scripts = scripts(info)
        sim.scripts = {r: list(scripts.get(r, [])) for r in sim.refs}
        res.info = info
        res.scripts = {r: list(scripts.get(r, [])) for r in sim.refs}
        res.launches = []
        res.launch_bad = []

        def on_launch(ref):
            i = sim.index[ref]
            states = [sim.state_name(r) for r in sim.refs]
            started = [bool(sim.engine(r).started) for r in sim.refs]
            staged = [sim.comp[r] in sim.controller.comp_staged_in for r in sim.refs]
            res.launches.append([i, [[p, states[p] if states[p] in FINAL else None, staged[p]]
                                     for p in info["comps"][i]["preds"]]])
            first = sim.engine(ref).runs == 1      # ComponentState.run() by the scheduler; later runs are restarts
            for b in launch_violations(info, i, states, started):
                # a restart re-executes a component that was launched legitimately; what must still hold then is
                # the finality clause (final states are permanent), the failed/shut-down clauses speak about
                # the launch decision (restart policy is property C12)
                if first or b == "launched-before-producer-final":
                    res.launch_bad.append([b if first else "restart:" + b, i, len(sim.trace)])
        if check_launch:
            sim.launch_hook = on_launch
        res.result = sim.run(chooser_factory(sim))
        res.results = list(sim.results)
        res.ops = sim.ops()
        res.snaps = [s for _, s in sim.trace]
        res.flips = final_state_changes(info, res.snaps)
        res.stage_states = sim.stage_states()
        res.final = [sim.state_name(r) for r in sim.refs]
        res.done = [r in sim.controller.comp_done for r in sim.refs]
        try:
            res.stage_state = detsim.STATE_NAMES.get(sim.controller.stageState(), str(sim.controller.stageState()))
        except Exception as exc:  # noqa
            res.stage_state = "error:" + type(exc).__name__
        res.stop = bool(sim.controller.stop_executing)
        res.n_sched = sim.n_sched
        return res
    finally:
        if sim is not None:
            sim.close()
        os.chdir(cwd)
        shutil.rmtree(tmp, ignore_errors=True)


def model_request(info, scripts, ops):
    comps = []
    for c in info["comps"]:
        d = {k: c[k] for k in ("stage", "preds", "isRepeat", "isAgg", "isRepl", "shutdownOn", "restartOn",
                               "maxRestarts")}
        d["script"] = list(scripts.get(c["ref"], []))
        comps.append(d)
    return {"comps": comps, "order": info["order"], "lastStage": info["lastStage"],
            "cont": list(info.get("cont", [])), "ops": ops}


def first_mismatch(model_snaps, real_snaps):
    for i, (m, r) in enumerate(zip(model_snaps, real_snaps)):
        if m != r:
            return i
    if len(model_snaps) != len(real_snaps):
        return min(len(model_snaps), len(real_snaps))
    return None


def window_scheds(res):
    """number of scheduler passes executed while some component is final but not yet in comp_done"""
    n = 0
    for op, snap in zip(res.ops, res.snaps):
        if op[0] == "sched" and any(c[0] in FINAL and not c[1] for c in snap["comps"]):
            n += 1
    return n
