"""Shared code of the C01 / C02 checks: workflow generator, exit scripts, schedules, model requests,
model-independent oracles.  The deterministic runtime itself is harness/detsim.py."""
from __future__ import annotations

import os
import shutil
import tempfile

from harness import detsim

REASONS = ["Success", "KnownIssue", "SystemIssue", "SubmissionFailed", "UnknownIssue", "Killed", "Cancelled",
           "ResourceExhausted"]
FINAL = ("finished", "failed", "shutdown")
RESUB_CAP = 5
MAX_OPS = 400


# ----------------------------------------------------------------------------------------
# workflow templates (FlowIR before replication)
# ----------------------------------------------------------------------------------------

def _decorate(rng, c):
    """random failure-handling attributes of one template"""
    if "shutdownOn" not in c["wa"] and rng.random() < 0.45:
        c["wa"]["shutdownOn"] = sorted(rng.sample(["KnownIssue", "SystemIssue", "UnknownIssue", "Cancelled",
                                                   "ResourceExhausted", "Killed", "SubmissionFailed"],
                                                  rng.choice([1, 1, 2, 3])))
    if rng.random() < 0.25:
        c["wa"]["restartHookOn"] = sorted(rng.sample(["KnownIssue", "ResourceExhausted", "SystemIssue",
                                                      "UnknownIssue"], rng.choice([1, 2])))
    if rng.random() < 0.5:
        c["wa"]["maxRestarts"] = rng.choice([0, 1, 2, 3])


def gen_template(rng, two_stage=False, size=None, stages=None):
    """Random FlowIR template: list of components in dependency order over `stages` consecutive stages.
    Replicas / inherited replicas / aggregators are produced later by the *real* replication code of the
    package loader.  `aggregate: true` is also put on components without any replicated input (second-level
    aggregators, collectors of plain producers)."""
    k = size or rng.choice([2, 3, 3, 4, 4, 5, 6])
    nst = stages if stages is not None else (2 if two_stage else 1)
    nst = max(1, min(nst, k))
    cuts = sorted(rng.sample(range(1, k), nst - 1)) if nst > 1 else []
    stage_of = [sum(1 for x in cuts if x <= i) for i in range(k)]
    comps = []
    replicated = []     # template is (transitively) replicated
    have_rep = False
    for i in range(k):
        stage = stage_of[i]
        c = {"name": "c%d" % i, "stage": stage, "refs": [], "wa": {}}
        earlier = list(range(i))
        npred = 0 if i == 0 else rng.choice([0, 1, 1, 1, 2, 2, 3])
        preds = sorted(rng.sample(earlier, min(npred, len(earlier))))
        if i > 0 and stage != stage_of[i - 1] and not preds and rng.random() < 0.5:
            preds = [rng.choice(earlier)]
        c["refs"] = preds
        is_rep = any(replicated[p] for p in preds)
        if is_rep and rng.random() < 0.55:
            c["wa"]["aggregate"] = True
            is_rep = False
        elif not is_rep and preds and rng.random() < 0.12:
            c["wa"]["aggregate"] = True          # aggregating without a replicated input
        elif not have_rep and not is_rep and rng.random() < 0.45:
            c["wa"]["replicate"] = rng.choice([2, 2, 3]) if rng.random() < 0.97 else rng.choice([10, 11])
            have_rep = True
            is_rep = True
        same_stage_preds = [p for p in preds if comps[p]["stage"] == stage]
        if same_stage_preds and rng.random() < (0.5 if stage >= 1 else 0.3):
            c["wa"]["repeatInterval"] = 1
            other = [p for p in earlier if comps[p]["stage"] < stage and p not in preds]
            if stage >= 1 and other and len(same_stage_preds) == len(preds) and rng.random() < 0.7:
                # observer of a same-stage subject that also consumes from an earlier stage: the repeating
                # exception must not extend to that producer
                preds = sorted(preds + [rng.choice(other)])
                c["refs"] = preds
                is_rep_new = any(replicated[p] for p in preds)
                if is_rep_new and not is_rep and not c["wa"].get("aggregate"):
                    is_rep = True
        elif preds and not same_stage_preds and stage >= 1 and rng.random() < 0.2:
            # a repeating consumer whose producers all live in EARLIER stages: no same-stage subject, the repeating
            # exception of the launch rule never applies to it, and all its producers may have ended before it is
            # staged in
            c["wa"]["repeatInterval"] = 1
        _decorate(rng, c)
        replicated.append(is_rep)
        comps.append(c)
    return comps


def _normalise(comps):
    """stage numbers -> 0..m-1 (keeps the order), names c0.."""
    stages = sorted(set(c["stage"] for c in comps))
    for i, c in enumerate(comps):
        c["stage"] = stages.index(c["stage"])
        c["name"] = "c%d" % i
    return comps


def gen_shaped(rng):
    """Templates built around a motif (the purely random generator reaches these shapes only rarely):
      xagg      replicated producer, other components of its stage, an aggregating consumer in the same or a
                LATER stage, optionally a second-level aggregator (no replicated input) and a plain consumer;
      chain     a producer with a shutdown list, a sibling, consumers spread over the following stages;
      observer  a repeating component with several same-stage subjects that become launchable in different
                scheduler passes, optionally one more input from an earlier stage.
      xobserver repeating consumers whose producers live in EARLIER stages only, and / or a repeating consumer of an
                earlier-stage producer plus a same-stage subject WITHOUT inputs (promoted: it runs - and may end -
                while the earlier stage is still current, so the observer can be staged in after all its producers
                ended); optionally consumers of the observers.
    Failure-handling attributes are random as in gen_template."""
    motif = rng.choice(["xagg", "xagg", "chain", "observer", "xobserver", "xobserver"])
    comps = []

    def add(stage, refs, **wa):
        comps.append({"name": "", "stage": stage, "refs": sorted(set(refs)), "wa": dict(wa)})
        return len(comps) - 1
    if motif == "xagg":
        src = add(0, []) if rng.random() < 0.5 else None
        rep = add(0, [src] if src is not None and rng.random() < 0.7 else [], replicate=rng.choice([2, 2, 3]))
        sibs = [add(0, [src] if src is not None and rng.random() < 0.5 else [])
                for _ in range(rng.choice([1, 1, 2]))]
        if rng.random() < 0.3:
            rep2 = add(0, [rep])            # inherits the replication
        else:
            rep2 = None
        sa = rng.choice([0, 1, 1, 1, 2])
        if sa == 2:
            add(1, [rng.choice(sibs)] if rng.random() < 0.5 else [])
        refs = [rep2 if rep2 is not None and rng.random() < 0.7 else rep]
        if rng.random() < 0.35:
            refs.append(rng.choice(sibs))   # a non-replicated input as well
        agg = add(sa, refs, aggregate=True)
        if rng.random() < 0.5:
            add(rng.choice([sa, sa + 1]), [agg], aggregate=True)      # aggregator without replicated input
        if rng.random() < 0.5:
            add(rng.choice([sa, sa + 1]), [agg])
    elif motif == "chain":
        prod = add(0, [], shutdownOn=sorted(rng.sample(["KnownIssue", "SystemIssue", "UnknownIssue", "Cancelled",
                                                        "ResourceExhausted"], rng.choice([1, 2, 4]))))
        sib = add(0, [])
        s1 = rng.choice([0, 1, 1])
        c1 = add(s1, [prod] + ([sib] if rng.random() < 0.3 else []),
                 **({"aggregate": True} if rng.random() < 0.25 else {}))
        s2 = rng.choice([s1, s1 + 1])
        add(s2, [c1])
        add(rng.choice([s1, s2]), [])
        if rng.random() < 0.4:
            add(s2 + 1, [rng.choice([sib, c1])])
    elif motif == "xobserver":
        a = add(0, [])
        b = add(0, [a] if rng.random() < 0.5 else [])
        st = rng.choice([1, 1, 2])
        if st == 2:
            add(1, [rng.choice([a, b])] if rng.random() < 0.6 else [])
        kind = rng.choice(["earlier-only", "earlier-only", "promoted-subject", "promoted-subject", "both"])
        obs = []
        if kind in ("earlier-only", "both"):
            refs = [rng.choice([a, b])] + ([a, b] if rng.random() < 0.3 else [])
            obs.append(add(st, refs, repeatInterval=1))
        if kind in ("promoted-subject", "both"):
            subj = add(st, [])
            refs = [subj, rng.choice([a, b])] if rng.random() < 0.8 else [subj]
            obs.append(add(st, refs, repeatInterval=1))
        if rng.random() < 0.4:
            add(rng.choice([st, st + 1]), [rng.choice(obs)])
        if rng.random() < 0.25:
            add(st, [], repeatInterval=1)           # a repeating component without any producer
    else:
        a = add(0, [])
        st = rng.choice([0, 0, 1])
        b = add(st, [a])
        c = add(st, [b])
        subj = [b, c] if st == 0 and rng.random() < 0.5 else [c, add(st, [])]
        if st == 0 and rng.random() < 0.5:
            subj.append(a)
        refs = list(subj)
        if st == 1 and rng.random() < 0.6:
            refs.append(a)
        add(st, refs, repeatInterval=1)
        if rng.random() < 0.4:
            add(st + 1, [rng.choice(subj)])
    for c in comps:
        _decorate(rng, c)
    return _normalise(comps)


def gen_workflow(rng, p_shaped=0.4, stages=(1, 1, 2, 2, 3)):
    """(template, stages with continue-on-error)"""
    if rng.random() < p_shaped:
        t = gen_shaped(rng)
    else:
        t = gen_template(rng, stages=rng.choice(list(stages)))
    last = max(c["stage"] for c in t)
    cont = [k for k in range(last) if rng.random() < 0.3]
    return t, cont


def flowir_yaml(template, cont=()):
    import yaml
    comps = []
    for c in template:
        refs = []
        for p in c["refs"]:
            pc = template[p]
            refs.append("stage%d.%s:ref" % (pc["stage"], pc["name"]))
        d = {"name": c["name"], "stage": c["stage"],
             "command": {"executable": "ls", "arguments": " ".join(refs)},
             "references": refs}
        if c["wa"]:
            d["workflowAttributes"] = dict(c["wa"])
        comps.append(d)
    doc = {"components": comps}
    if cont:
        doc["variables"] = {"default": {"stages": {int(k): {"continue-on-error": "1"} for k in cont}}}
    return yaml.safe_dump(doc)


# ----------------------------------------------------------------------------------------
# static description of the built experiment (read from the real objects)
# ----------------------------------------------------------------------------------------

def describe(sim):
    comps = []
    for r in sim.refs:
        c = sim.comp[r]
        spec = c.specification
        cs = spec.componentSpecification
        wa = spec.workflowAttributes
        maxr = wa.get("maxRestarts", None)
        if maxr is None:
            maxr = 3
        comps.append({
            "ref": r, "stage": int(c.stageIndex), "preds": list(sim.preds[r]),
            "isRepeat": bool(wa["isRepeat"]),
            "isAgg": bool(cs.isAggregating or cs.isAggregatingLoopedNodes),
            "isRepl": bool(cs.isReplicating),
            "shutdownOn": list(wa["shutdownOn"]),
            "restartOn": list(wa.get("restartHookOn", [])),
            "maxRestarts": int(maxr),
        })
    return {"comps": comps, "order": list(sim.order), "lastStage": int(sim.exp.numStages() - 1),
            "cont": [int(st.index) for st in sim.exp._stages if st.continueOnError]}


def base_reason(entry):
    """script entries are exit reasons, optionally with a suffix that says HOW a real engine gets the reason:
    "X:os" / "X:launch" (X = SubmissionFailed: the task generator raises OSError / JobLaunchError, no Task exists),
    "UnknownIssue:raise" (the task generator raises something else), "X:perf" / "X:matrix" (a Task is created and
    exits with X, then the engine's post-exit pipeline raises: FinalisePerformanceInfo cannot read the task's
    performance information / cannot update the performance table)"""
    return entry.partition(":")[0]


def _launch_variant(rng, reason, real):
    if not real:
        return reason
    if reason == "SubmissionFailed":
        return reason + rng.choice(["", ":os", ":launch", ":os", ":launch"])
    if reason == "UnknownIssue" and rng.random() < 0.34:
        return reason + ":raise"
    if rng.random() < 0.3:
        # the task exits with `reason`; then the engine's own post-exit bookkeeping fails (the reason of the execution
        # is still the task's)
        return reason + rng.choice([":perf", ":matrix"])
    return reason


def gen_scripts(rng, info, flavour=None, real=False):
    """exit reason of every task execution, per component reference (`real`: the components run real engines, so a
    reason may also come from a failing launch)"""
    flavour = flavour or rng.choice(["success", "success", "shutdown", "fail", "mixed", "mixed", "restarts",
                                     "restarts", "one-bad", "one-bad"])
    scripts = {}
    the_one = rng.randrange(len(info["comps"])) if flavour == "one-bad" else None
    for ci, c in enumerate(info["comps"]):
        so = c["shutdownOn"]
        ro = [x for x in c["restartOn"] if x != "SubmissionFailed"]
        fatal = [x for x in ["KnownIssue", "SystemIssue", "UnknownIssue", "Cancelled", "ResourceExhausted"]
                 if x not in so and x not in c["restartOn"]]
        kind = "ok"
        r = rng.random()
        if flavour == "shutdown" and so and r < 0.6:
            kind = "shutdown"
        elif flavour == "fail" and r < 0.35:
            kind = "fail"
        elif flavour == "mixed":
            kind = rng.choice(["ok", "ok", "ok", "shutdown" if so else "ok", "fail", "restart", "resub",
                               "restart-resub"])
        elif flavour == "restarts":
            kind = rng.choice(["ok", "restart", "restart", "resub", "resub-many", "restart-resub", "restart-resub"])
        elif flavour == "one-bad" and ci == the_one:
            kind = rng.choice(["fail", "fail", "shutdown" if so else "fail"])
        s = []
        if kind in ("restart",) and ro:
            s = [rng.choice(ro) for _ in range(rng.randint(1, 4))]
            kind = rng.choice(["ok", "ok", "shutdown" if so else "ok", "fail"])
        elif kind == "resub":
            s = ["SubmissionFailed"] * rng.randint(1, 3)
            kind = rng.choice(["ok", "ok", "fail"])
        elif kind == "resub-many":
            s = ["SubmissionFailed"] * rng.randint(4, 7)
            kind = "ok"
        elif kind == "restart-resub":
            # launches that fail AFTER the component was restarted (the two budgets - restarts, consecutive
            # re-submissions - must be spent separately), possibly interleaved
            n_r = rng.randint(1, 2) if ro else 0
            s = [rng.choice(ro) for _ in range(n_r)] + ["SubmissionFailed"] * rng.randint(1, 5)
            if ro and rng.random() < 0.3:
                s += [rng.choice(ro)] + ["SubmissionFailed"] * rng.randint(0, 2)
            kind = rng.choice(["ok", "ok", "ok", "fail"])
        if kind == "shutdown" and so:
            s.append(rng.choice(so))
        elif kind == "fail" and fatal:
            s.append(rng.choice(fatal))
        elif rng.random() < 0.5:
            s.append("Success")
        scripts[c["ref"]] = [_launch_variant(rng, x, real and not c["isRepeat"]) for x in s]
    return flavour, scripts


# ----------------------------------------------------------------------------------------
# the documented rules, restated in Python (independent of the Lean model)
# ----------------------------------------------------------------------------------------

def own_outcome(c, script):
    """final state that the component's own executions lead to (restart policy of the harness' FakeEngine +
    Controller._restartComponent + TransitionComponentToFinalState)"""
    restarts = 0
    resub = 0
    k = 0
    while True:
        r = base_reason(script[k]) if k < len(script) else "Success"
        k += 1
        if r == "Success":
            resub = 0
        restart = False
        if r in c["restartOn"]:
            restart = restarts + 1 <= c["maxRestarts"]
        elif r == "SubmissionFailed":
            restart = resub < RESUB_CAP and restarts + 1 <= c["maxRestarts"]
        if restart:
            if r == "SubmissionFailed":
                resub += 1
            else:
                restarts += 1
            if k > 200:
                return "finished"
            continue
        if r == "Success":
            return "finished"
        return "shutdown" if r in c["shutdownOn"] else "failed"


def own_executions(c, script):
    """number of task executions after which `own_outcome(c, script)` is reached (the execution whose exit is final)"""
    restarts = 0
    resub = 0
    k = 0
    while True:
        r = base_reason(script[k]) if k < len(script) else "Success"
        k += 1
        if r == "Success":
            resub = 0
        restart = False
        if r in c["restartOn"]:
            restart = restarts + 1 <= c["maxRestarts"]
        elif r == "SubmissionFailed":
            restart = resub < RESUB_CAP and restarts + 1 <= c["maxRestarts"]
        if restart and k <= 200:
            if r == "SubmissionFailed":
                resub += 1
            else:
                restarts += 1
            continue
        return k


def expected_states(info, scripts):
    out = []
    for i, c in enumerate(info["comps"]):
        ps = [out[p] for p in c["preds"]]
        repl = [out[p] for p in c["preds"] if info["comps"][p]["isRepl"]]
        nonrepl = [out[p] for p in c["preds"] if not info["comps"][p]["isRepl"]]
        if "failed" in ps:
            st = "shutdown"
        elif c["isAgg"] and ("shutdown" in nonrepl or (repl and all(x == "shutdown" for x in repl))):
            st = "shutdown"
        elif (not c["isAgg"]) and "shutdown" in ps:
            st = "shutdown"
        else:
            st = own_outcome(c, scripts.get(c["ref"], []))
        out.append(st)
    return out


def launch_violations(info, i, states, started):
    """C01 restated on the true states at the moment component i is launched.
    states[p] = true state name of every component, started[p] = producer's engine has been run."""
    c = info["comps"][i]
    bad = []
    for p in c["preds"]:
        st = states[p]
        pc = info["comps"][p]
        if st not in FINAL:
            if not (c["isRepeat"] and pc["stage"] == c["stage"] and started[p]):
                bad.append("launched-before-producer-final")
        if st == "failed":
            bad.append("launched-on-failed-producer")
        if st == "shutdown" and not c["isAgg"]:
            bad.append("nonaggregating-launched-on-shutdown-producer")
    if c["isAgg"]:
        repl = [states[p] for p in c["preds"] if info["comps"][p]["isRepl"]]
        nonrepl = [states[p] for p in c["preds"] if not info["comps"][p]["isRepl"]]
        if "shutdown" in nonrepl:
            bad.append("aggregating-launched-on-shutdown-nonreplicated-producer")
        if repl and all(x == "shutdown" for x in repl):
            bad.append("aggregating-launched-with-all-replicated-producers-shutdown")
    return sorted(set(bad))


# ----------------------------------------------------------------------------------------
# schedules
# ----------------------------------------------------------------------------------------

PERSONALITIES = {
    "uniform": dict(exit=3, fin=3, pm=3, sched=3, tick=0.3),
    "late-fin": dict(exit=4, fin=0.5, pm=3, sched=4, tick=0.3),
    "late-pm": dict(exit=4, fin=3, pm=0.4, sched=4, tick=0.3),
    "sched-heavy": dict(exit=1, fin=1, pm=1, sched=6, tick=0.2),
    "eager": dict(exit=1, fin=8, pm=8, sched=4, tick=0.1),
    "burst-exits": dict(exit=10, fin=1, pm=1, sched=1, tick=0.1),
}


def random_chooser(rng, personality, p_kill=0.0, max_ops=MAX_OPS, p_split=0.0, p_complete=0.0, drain=False):
    """p_split: probability that a chosen delivery of a finished-notification is executed in three separately
    scheduled parts (["finA", c], later ["finB", c], later ["finC", c]: before / under / after comp_lock);
    p_complete: probability per step that the external stage-completion hook of the current stage (rarely: of an
    earlier stage, whose poll timer is still running) answers True - at most once per stage.
    The chooser gives up (-> result "stopped") when nothing but scheduler passes has been possible for 8 consecutive
    steps: no task can exit, nothing is queued, and the loop of run() still does not end.
    drain: when the op budget is used up the chooser does not stop (a stop would be mistaken for a stage loop that does
    not terminate) but goes on eagerly - the first enabled op, a scheduler pass when nothing is enabled - until the stage
    loop ends, nothing has been possible for 8 steps, or five times the budget is spent."""
    w = PERSONALITIES[personality]
    state = {"n": 0, "killed": False, "idle": 0}

    def choose(sim):
        state["n"] += 1
        budget = max(max_ops, 40 * len(sim.refs))
        if state["n"] > budget:
            if not drain or state["n"] > 5 * budget:
                return None
            en = sim.enabled()
            if en:
                state["idle"] = 0
                return en[0]
            state["idle"] += 1
            return None if state["idle"] > 8 else ["sched"]
        if p_complete and rng.random() < p_complete:
            ks = [k for k in range(sim.stage_no + 1) if sim.can_complete(k)]
            if ks:
                return ["complete", ks[-1] if rng.random() < 0.85 else rng.choice(ks)]
        cands = []
        weights = []
        en = sim.enabled()
        if en:
            state["idle"] = 0
        else:
            state["idle"] += 1
            if state["idle"] > 8:
                return None
        for op in en:
            cands.append(op)
            weights.append(w.get(op[0], w["fin"]))
        cands.append(["sched"])
        weights.append(w["sched"] if len(cands) > 1 else 1000)
        if len(cands) > 1:
            cands.append(["tick", rng.randrange(len(sim.refs))])
            weights.append(w["tick"])
        if p_kill and not state["killed"] and rng.random() < p_kill:
            state["killed"] = True
            return ["kill"]
        op = rng.choices(cands, weights)[0]
        if p_split and op[0] == "fin" and rng.random() < p_split:
            return ["finA", op[1]]
        return op
    return choose


# ----------------------------------------------------------------------------------------
# one run of the real controller
# ----------------------------------------------------------------------------------------

class RunResult:
    pass


# Real engines: the package carries a restart hook that always prepares the restart, so that "the exit reason is on
# restartHookOn and the budget is not spent" is what decides a restart - as with the stand-in engines and in
# Ctrl.restartable (what a hook may answer, and the fallback without a hook, are property C12's business)
RESTART_HOOK = """
def Restart(workingDirectory, restarts, componentName, log, exitReason, exitCode):
    return True
"""


def final_state_changes(info, snaps):
    """'exactly one final state', evaluated on the recorded states: [component, first final state, later state]
    for every component that was seen in a final state and later in a different state"""
    first = {}
    out = []
    for snap in snaps:
        for i, c in enumerate(snap["comps"]):
            st = c[0]
            if i in first:
                if st != first[i] and [i, first[i], st] not in out:
                    out.append([i, first[i], st])
            elif st in FINAL:
                first[i] = st
    return out


class _Verbose:
    """ambient setting a user may change: logging enabled down to level 1 (records are created and dropped by a
    NullHandler) instead of detsim's logging.disable(CRITICAL)"""

    def __init__(self, on):
        self.on = bool(on)

    def __enter__(self):
        if self.on:
            import logging
            root = logging.getLogger()
            self.saved = (logging.root.manager.disable, root.level, list(root.handlers))
            if not root.handlers:
                root.addHandler(logging.NullHandler())
            for h in root.handlers:
                if isinstance(h, logging.StreamHandler) and not isinstance(h, logging.FileHandler):
                    root.removeHandler(h)
            if not root.handlers:
                root.addHandler(logging.NullHandler())
            root.setLevel(1)
            logging.disable(logging.NOTSET)
        return self

    def __exit__(self, *a):
        if self.on:
            import logging
            root = logging.getLogger()
            logging.disable(self.saved[0])
            root.setLevel(self.saved[1])
            root.handlers[:] = self.saved[2]
        return False


def run_real(template, scripts, chooser_factory, check_launch=True, cont=(), real=False, verbose=False):
    """Builds the experiment, runs the stage loop (Controller.initialise / Controller.run() per stage) under
    `chooser`, returns a RunResult (info, scripts actually used, ops, snaps, result of the last run(), results per
    stage, final states, launch oracle failures ...)"""
    with _Verbose(verbose):
        return _run_real(template, scripts, chooser_factory, check_launch, cont, real)


def _run_real(template, scripts, chooser_factory, check_launch=True, cont=(), real=False):
    tmp = tempfile.mkdtemp(prefix="c01-")
    cwd = os.getcwd()
    res = RunResult()
    sim = None
    try:
        sim = detsim.Sim(flowir_yaml(template, cont), tmp, {}, real_engines=real,
                         extra_files={"hooks/restart.py": RESTART_HOOK} if real else None)
        info = describe(sim)
        if callable(scripts):
            scripts = scripts(info)
        sim.scripts = {r: list(scripts.get(r, [])) for r in sim.refs}
        res.info = info
        res.scripts = {r: list(scripts.get(r, [])) for r in sim.refs}
        res.launches = []
        res.launch_bad = []

        def on_launch(ref):
            i = sim.index[ref]
            states = [sim.state_name(r) for r in sim.refs]
            # ground truth: a producer that ended in a final state is judged by the FIRST final state it entered
            # (its own exit / the first finish() call), not by what the controller says about it at launch time
            truth = [sim.true_state(r) for r in sim.refs]
            started = [bool(sim.engine(r).started) for r in sim.refs]
            staged = [sim.comp[r] in sim.controller.comp_staged_in for r in sim.refs]
            res.launches.append([i, [[p, states[p] if states[p] in FINAL else None, staged[p]]
                                     for p in info["comps"][i]["preds"]]])
            first = sim.engine(ref).runs == 1      # ComponentState.run() by the scheduler; later runs are restarts
            for b in launch_violations(info, i, truth, started):
                # a restart re-executes a component that was launched legitimately; what must still hold then is
                # the finality clause (final states are permanent), the failed/shut-down clauses speak about
                # the launch decision (restart policy is property C12)
                if first or b == "launched-before-producer-final":
                    res.launch_bad.append([b if first else "restart:" + b, i, len(sim.trace)])
        if check_launch:
            sim.launch_hook = on_launch
        res.result = sim.run(chooser_factory(sim))
        res.results = list(sim.results)
        res.ops = sim.ops()
        res.snaps = [s for _, s in sim.trace]
        res.flips = final_state_changes(info, res.snaps)
        res.stage_states = sim.stage_states()
        res.final = [sim.state_name(r) for r in sim.refs]
        res.done = [r in sim.controller.comp_done for r in sim.refs]
        try:
            res.stage_state = detsim.STATE_NAMES.get(sim.controller.stageState(), str(sim.controller.stageState()))
        except Exception as exc:  # noqa
            res.stage_state = "error:" + type(exc).__name__
        res.stop = bool(sim.controller.stop_executing)
        res.n_sched = sim.n_sched
        res.pool_errors = list(sim.pool_errors)
        res.live = sim.live()
        res.can_exit = sim.running()
        res.told = [bool(getattr(sim.engine(r), "producersFinished", False)) for r in sim.refs]
        res.exit_log = {r: [list(x) for x in v] for r, v in sim.exit_log.items()}
        res.finish_log = list(sim.finish_log)
        res.first_final = [sim.first_final.get(r) for r in sim.refs]
        return res
    finally:
        if sim is not None:
            sim.close()
        os.chdir(cwd)
        shutil.rmtree(tmp, ignore_errors=True)


def model_request(info, scripts, ops):
    comps = []
    for c in info["comps"]:
        d = {k: c[k] for k in ("stage", "preds", "isRepeat", "isAgg", "isRepl", "shutdownOn", "restartOn",
                               "maxRestarts")}
        d["script"] = [base_reason(x) for x in scripts.get(c["ref"], [])]
        comps.append(d)
    # an op that was not enabled on the real system when it was recorded (["skip", ...]) is a no-op
    ops = [["tick", 0] if o[0] == "skip" else o for o in ops]
    return {"comps": comps, "order": info["order"], "lastStage": info["lastStage"],
            "cont": list(info.get("cont", [])), "ops": ops}


def launch_of(entry):
    """script entry -> what the task generator did at that launch, in the vocabulary of St4sd.Ctrl.Launch"""
    base, _, how = entry.partition(":")
    if how in ("os", "launch"):
        return "submitError"
    if how == "raise":
        return "otherError"
    if how in ("perf", "matrix"):
        return "taskFault:" + base
    return "task:" + base


def engine_request(info, exit_log):
    """(launches per component for the model, reasons the real engines reported)"""
    launches, reported = [], []
    for c in info["comps"]:
        log = exit_log.get(c["ref"], [])
        launches.append([launch_of(e) for e, _r in log])
        reported.append([r for _e, r in log])
    return launches, reported


def first_mismatch(model_snaps, real_snaps):
    for i, (m, r) in enumerate(zip(model_snaps, real_snaps)):
        if m != r:
            return i
    if len(model_snaps) != len(real_snaps):
        return min(len(model_snaps), len(real_snaps))
    return None


def hook_report(res):
    """what the firings of the stage-completion hook did in this run: per firing the stage and the components of that
    stage that were waiting (not staged in, not asked to finish, not final) when it fired; and, at the end of the run,
    the components of the current stage that are not recorded in comp_done (`blockers`: what the loop of run() waits for)"""
    comps = res.info["comps"]
    fired = []
    for k, (op, snap) in enumerate(zip(res.ops, res.snaps)):
        if op[0] == "complete" and k > 0:
            before = res.snaps[k - 1]["comps"]
            fired.append({"stage": op[1], "at": k,
                          "waiting": [i for i, c in enumerate(before)
                                      if comps[i]["stage"] == op[1] and not c[2] and not c[4] and c[0] not in FINAL]})
    last = res.snaps[-1] if res.snaps else {"comps": [], "stage": 0, "pending": []}
    blockers = [i for i, c in enumerate(last["comps"]) if comps[i]["stage"] == last["stage"] and not c[1]]
    return {"fired": fired, "blockers": blockers, "stage": last["stage"], "pending": last.get("pending", []),
            "live": list(getattr(res, "live", [])),
            "blocker_states": [[last["comps"][i][0], last["comps"][i][2]] for i in blockers]}


def window_scheds(res):
    """number of scheduler passes executed while some component is final but not yet in comp_done"""
    n = 0
    for op, snap in zip(res.ops, res.snaps):
        if op[0] == "sched" and any(c[0] in FINAL and not c[1] for c in snap["comps"]):
            n += 1
    return n


# ----------------------------------------------------------------------------------------
# DoWhile: the set of producers of a consumer of a loop grows while the workflow runs (C01 only; the Lean model has no
# loops: these cases are the failing-input search of the launch rules on the real Controller)
# ----------------------------------------------------------------------------------------

def gen_loop_case(rng):
    """A package with one DoWhile document imported at stage S (S in {0, 1}): looped component `work` (optionally fed by
    a source outside the loop), optionally a second looped component `check` (consumer of `work`) that produces the
    loop condition (otherwise `work` does); consumers OUTSIDE the loop that reference the looped component:
    `after` (plain `:ref`), optionally `after2` (consumer of the other looped component), optionally `collect`
    (`:loopref`, aggregates the iterations), each in the stage of the loop or in the next one; optionally a bystander in
    the stage of the loop.  `iters` = number of iterations the condition producer asks for."""
    S = rng.choice([0, 0, 1])
    iters = rng.choice([1, 2, 2, 3, 3, 4])
    has_src = S == 1 or rng.random() < 0.5
    two = rng.random() < 0.5
    # with two looped components either of them may produce the condition (the other one can then end shut-down in
    # an iteration that is followed by further iterations)
    cond = rng.choice(["check", "check", "work"]) if two else "work"
    consumers = [{"name": "after", "stage": S + rng.choice([0, 0, 1]), "of": "work", "method": "ref"}]
    if two and rng.random() < 0.6:
        consumers.append({"name": "after2", "stage": S + rng.choice([0, 1]), "of": "check", "method": "ref"})
    if rng.random() < 0.4:
        consumers.append({"name": "collect", "stage": S + rng.choice([0, 1]), "of": "work", "method": "loopref"})
    wa = {}
    for n in ["work"] + (["check"] if two else []):
        w = {}
        if rng.random() < 0.3:
            w["shutdownOn"] = sorted(rng.sample(["KnownIssue", "SystemIssue", "Cancelled"], rng.choice([1, 2])))
        if rng.random() < 0.3:
            w["restartHookOn"] = ["ResourceExhausted"]
        wa[n] = w
    return {"loop": {"stage": S, "iters": iters, "src": has_src, "two": two, "cond": cond, "consumers": consumers,
                     "bystander": rng.random() < 0.5, "wa": wa},
            "scripts": None, "seed": rng.randrange(1 << 30), "personality": rng.choice(sorted(PERSONALITIES)),
            "p_split": rng.choice([0.3, 0.6, 0.9]), "flavour": rng.choice(["success", "success", "success", "mixed"]),
            "real": rng.random() < 0.2}


def loop_package(lp):
    """(main FlowIR text, {relative path: text})"""
    import yaml
    S = lp["stage"]

    def comp(name, stage, refs, wa=None):
        d = {"name": name, "stage": stage, "command": {"executable": "echo", "arguments": " ".join(refs) or "hello"},
             "references": list(refs)}
        if wa:
            d["workflowAttributes"] = dict(wa)
        return d
    loop = [comp("work", 0, ["in0:ref"] if lp["src"] else [], lp["wa"].get("work"))]
    if lp["two"]:
        loop.append(comp("check", 0, ["work:ref"], lp["wa"].get("check")))
    side = lp.get("side")
    if side:
        # a looped component next to work/check (independent, or a consumer of one of them) - optional key, C01
        loop.append(comp("side", 0, ["%s:ref" % side["of"]] if side.get("of") else [], lp["wa"].get("side")))
    dw = {"type": "DoWhile", "inputBindings": {"in0": {"type": "ref"}} if lp["src"] else {}, "loopBindings": {},
          "condition": "%s/iteration.next:output" % lp["cond"], "components": loop}
    main = []
    if lp["src"]:
        main.append(comp("src", 0, []))
    if lp["bystander"]:
        main.append(comp("other", S, []))
    main.append({"stage": S, "name": "loop", "$import": "dowhile.yaml",
                 "bindings": {"in0": "stage0.src:ref"} if lp["src"] else {}})
    for c in lp["consumers"]:
        main.append(comp(c["name"], c["stage"], ["stage%d.%s:%s" % (S, c["of"], c["method"])]))
    return yaml.safe_dump({"components": main}), {"conf/dowhile.yaml": yaml.safe_dump(dw)}


def loop_upstream(lp, name):
    """names of the looped components `name` (transitively) consumes from inside the loop, `name` included"""
    deps = {"work": [], "check": ["work"] if lp.get("two") else None,
            "side": ([lp["side"]["of"]] if lp["side"].get("of") else []) if lp.get("side") else None}
    seen, todo = set(), [name]
    while todo:
        n = todo.pop()
        if n in seen or deps.get(n) is None:
            continue
        seen.add(n)
        todo += deps[n]
    return seen


def loop_names(lp):
    return ["work"] + (["check"] if lp.get("two") else []) + (["side"] if lp.get("side") else [])


def gen_loop_case_offpath(rng):
    """DoWhile packages built around the motif "a looped component that is OFF the critical path of the loop
    condition": the next iteration is instantiated as soon as the producer of the condition has finished, so an
    instance of such a component can still be running when newer instances of it exist, have run and are over.
    Looped components: work, optionally check (consumer of work), optionally side (independent of the others or a
    consumer of one of them); the condition is produced by any of them, but so that at least one looped component is
    not upstream of it.  Consumers outside the loop reference the off-path components (:ref and/or :loopref, same or
    next stage), one more references a random looped component.  case["laggards"] names the off-path components;
    laggard_chooser keeps their older instances running for a while."""
    S = rng.choice([0, 0, 1])
    iters = rng.choice([2, 2, 3, 3, 4])
    has_src = S == 1 or rng.random() < 0.4
    shape = rng.choice(["check-after-cond", "side-independent", "side-independent", "side-after-work",
                        "side-after-check", "three"])
    lp = {"stage": S, "iters": iters, "src": has_src, "two": False, "cond": "work", "side": None}
    if shape == "check-after-cond":
        lp.update(two=True, cond="work")
    elif shape == "side-independent":
        lp.update(two=rng.random() < 0.5, side={"of": None})
        lp["cond"] = rng.choice(["work", "check"]) if lp["two"] else "work"
    elif shape == "side-after-work":
        lp.update(two=rng.random() < 0.5, side={"of": "work"})
        lp["cond"] = rng.choice(["work", "check"]) if lp["two"] else "work"
    elif shape == "side-after-check":
        lp.update(two=True, side={"of": "check"}, cond=rng.choice(["work", "check"]))
    else:
        lp.update(two=True, side={"of": rng.choice([None, "work"])}, cond="work")
    names = loop_names(lp)
    off = sorted(n for n in names if n not in loop_upstream(lp, lp["cond"]))
    consumers = []
    used = set()
    for n in off:
        ms = rng.choice([["loopref"], ["ref"], ["ref", "loopref"]])
        for m in ms:
            nm = ("collect" if m == "loopref" else "after") + ("" if not used else str(len(used)))
            used.add(nm)
            consumers.append({"name": nm, "stage": S + rng.choice([0, 0, 1]), "of": n, "method": m})
    if rng.random() < 0.5:
        consumers.append({"name": "extra", "stage": S + rng.choice([0, 1]), "of": rng.choice(names),
                          "method": rng.choice(["ref", "loopref"])})
    wa = {}
    for n in names:
        w = {}
        if rng.random() < 0.2:
            w["shutdownOn"] = sorted(rng.sample(["KnownIssue", "SystemIssue", "Cancelled"], rng.choice([1, 2])))
        if rng.random() < 0.2:
            w["restartHookOn"] = ["ResourceExhausted"]
        wa[n] = w
    lp.update(consumers=consumers, bystander=rng.random() < 0.3, wa=wa)
    return {"loop": lp, "laggards": off, "hold": rng.choice([12, 30, 60]),
            "scripts": None, "seed": rng.randrange(1 << 30), "personality": rng.choice(sorted(PERSONALITIES)),
            "p_split": rng.choice([0.0, 0.3, 0.6]), "flavour": rng.choice(["success", "success", "success", "mixed"]),
            "real": rng.random() < 0.15}


def laggard_chooser(inner, rng, laggards, hold):
    """schedule bias for DoWhile runs: the task of an instance of a looped component named in `laggards` is kept running
    (its ["exit", i] is vetoed: another op is drawn, at last a scheduler pass) while the instance of the NEXT iteration
    does not exist or is not over, and for a geometric number of further draws after that; at most `hold` vetoes per
    instance (every second instance is not held at all), so that every run still ends"""
    vetoes = {}
    free = {}

    def choose(sim):
        op = None
        for _try in range(4):
            op = inner(sim)
            if op is None or op[0] != "exit":
                return op
            ref = sim.refs[op[1]]
            k, name = _iteration_of(ref)
            if k is None or name not in laggards:
                return op
            if ref not in free:
                free[ref] = rng.random() < 0.35
            if free[ref] or vetoes.get(ref, 0) >= hold:
                return op
            nxt = "%s.%d#%s" % (ref.split(".", 1)[0], k + 1, name)
            over = nxt in sim.comp and sim.state_name(nxt) in FINAL
            if over and rng.random() < 0.25:
                free[ref] = True
                return op
            vetoes[ref] = vetoes.get(ref, 0) + 1
        return ["sched"]
    choose.notify = getattr(inner, "notify", None) or (lambda *a: None)
    return choose


def loop_model_requests(lp, res):
    """Correspondence of a DoWhile run whose tasks all succeed with the Lean model St4sd.CtrlLoop (one request per
    consumer outside the loop): the real trace is translated step by step into model ops - ["exit",k,n] for every
    looped instance that entered a final state in the step, ["crit",k,n,1] / ["post",k,n] for the locked part and the
    comp_done.add of a finished-notification of a looped instance (op fin = both, finB / finC one each), ["sched"]
    for every scheduler pass (and for any other step in which the consumer was launched) - and the abstraction of
    the real state after every step (current iteration; phase of every instance: 0 not over, 1 final, 2 locked part
    of finishedCheck done, 3 in comp_done; consumer launched) is what the model must answer.
    -> [(consumer ref, request, expected snaps)]"""
    names = loop_names(lp)
    pre = "stage%d." % lp["stage"]

    def inst(ref):
        k, name = _iteration_of(ref)
        if k is None or name not in names or not ref.startswith(pre):
            return None
        return k, names.index(name)
    insts = [inst(r) for r in res.refs]
    out = []
    for c in lp["consumers"]:
        cref = "stage%d.%s" % (c["stage"], c["name"])
        if cref not in res.refs:
            continue
        ci = res.refs.index(cref)
        groups, expected = [], []
        prev = []
        for op, snap in zip(res.ops, res.snaps):
            comps = snap["comps"]
            infl = dict((i, st) for i, st in snap.get("inflight", []))
            g = []
            for i in range(len(comps)):
                if insts[i] is not None and comps[i][0] in FINAL and not (i < len(prev) and prev[i][0] in FINAL):
                    g.append(["exit", insts[i][0], insts[i][1]])
            kind = op[0]
            if kind in ("fin", "finB", "finC") and insts[op[1]] is not None:
                k, n = insts[op[1]]
                if kind in ("fin", "finB"):
                    g.append(["crit", k, n, 1])
                if kind in ("fin", "finC"):
                    g.append(["post", k, n])
            launched = ci < len(comps) and comps[ci][3] > 0
            if kind == "sched" or (launched and not (ci < len(prev) and prev[ci][3] > 0)):
                g.append(["sched"])
            groups.append(g)
            cur = max(insts[i][0] for i in range(len(comps)) if insts[i] is not None)
            ph = [[0] * len(names) for _ in range(cur + 1)]
            for i in range(len(comps)):
                if insts[i] is None:
                    continue
                st, done = comps[i][0], comps[i][1]
                ph[insts[i][0]][insts[i][1]] = 3 if done else 2 if infl.get(i) == 2 else 1 if st in FINAL else 0
            expected.append({"cur": cur, "launched": bool(launched), "ph": ph})
            prev = comps
        req = {"loop": {"n": len(names), "cond": names.index(lp["cond"]), "refs": [names.index(c["of"])]},
               "script": [k + 1 < lp["iters"] for k in range(lp["iters"])], "ops": groups}
        out.append((cref, req, expected))
    return out


def _iteration_of(ref):
    """("stage0.1#work") -> (1, "work"); (None, name) for a component outside a loop"""
    name = ref.split(".", 1)[1]
    if "#" in name:
        k, n = name.split("#", 1)
        if k.isdigit():
            return int(k), n
    return None, name


def run_loop(case, chooser_factory):
    """runs a DoWhile package on the real Controller; the launch rules are evaluated at the END of the run on the set of
    producers every launched component finally has in the graph (iterations are added while the workflow runs)"""
    lp = case["loop"]
    tmp = tempfile.mkdtemp(prefix="c01l-")
    cwd = os.getcwd()
    res = RunResult()
    sim = None
    try:
        main, extra = loop_package(lp)
        if case.get("real"):
            extra = dict(extra, **{"hooks/restart.py": RESTART_HOOK})
        sim = detsim.Sim(main, tmp, {}, extra_files=extra, real_engines=bool(case.get("real")))
        scripts = case.get("scripts") or {}
        rng = case.get("_rng")

        def script_for(ref):
            # drawn when the component appears (iterations do not exist at the start)
            if ref not in scripts:
                k, name = _iteration_of(ref)
                s = []
                if rng is not None and case.get("flavour") == "mixed" and rng.random() < 0.3:
                    wa = lp["wa"].get(name, {}) if k is not None else {}
                    pool = list(wa.get("shutdownOn", [])) + list(wa.get("restartHookOn", [])) + ["SubmissionFailed"]
                    if rng.random() < 0.15:
                        pool.append("UnknownIssue")
                    s = [rng.choice(pool)]
                scripts[ref] = s
            return scripts[ref]

        def sync_scripts():
            for r in sim.refs:
                sim.scripts[r] = list(script_for(r))
        sync_scripts()

        def on_exit(ref, reason):
            k, name = _iteration_of(ref)
            if k is not None and name == lp["cond"] and reason == "Success":
                d = sim.comp[ref].specification.directory
                with open(os.path.join(d, "iteration.next"), "w") as fh:
                    fh.write("True\n" if k + 1 < lp["iters"] else "False\n")
        sim.exit_hook = on_exit
        launches = []

        def on_launch(ref):
            if sim.engine(ref).runs == 1:
                started = dict((r, bool(sim.engine(r).started)) for r in sim.refs)
                launches.append([ref, sim.launch_clock.get(ref), len(sim.trace), started])
        sim.launch_hook = on_launch
        inner = chooser_factory(sim)

        def chooser(s):
            if len(s.scripts) != len(scripts) or any(r not in scripts or s.scripts.get(r) != scripts[r]
                                                     for r in s.refs):
                sync_scripts()
            return inner(s)
        chooser.notify = getattr(inner, "notify", None) or (lambda *a: None)
        res.result = sim.run(chooser)
        res.results = list(sim.results)
        res.ops = sim.ops()
        res.snaps = [sn for _op, sn in sim.trace]
        res.refs = list(sim.refs)
        res.scripts = {r: list(scripts.get(r, [])) for r in sim.refs}
        res.final = [sim.state_name(r) for r in sim.refs]
        res.pool_errors = list(sim.pool_errors)
        # what the C02 oracle needs (run-to-verdict of a workflow whose set of components grows while it runs)
        res.done = [r in sim.controller.comp_done for r in sim.refs]
        res.stage_of = [int(sim.comp[r].stageIndex) for r in sim.refs]
        res.stage_states = sim.stage_states()
        res.execs = [int(sim.execs.get(r, 0)) for r in sim.refs]
        res.first_final = [sim.first_final.get(r) for r in sim.refs]
        res.flips = final_state_changes(None, [sn for _, sn in sim.trace])
        res.live = [sim.refs[i] for i in sim.live()]
        res.exit_log = {r: [list(x) for x in v] for r, v in sim.exit_log.items()}
        res.policy = []
        for r in sim.refs:
            wa = sim.comp[r].specification.workflowAttributes
            maxr = wa.get("maxRestarts", None)
            res.policy.append({"ref": r, "shutdownOn": list(wa["shutdownOn"]),
                               "restartOn": list(wa.get("restartHookOn", [])),
                               "maxRestarts": int(3 if maxr is None else maxr)})
        G = sim.controller.graph
        res.iterations = 1 + max([k for k, _n in (_iteration_of(r) for r in sim.refs) if k is not None] or [0])
        res.launch_bad = []
        res.launches = []
        for ref, clock, at, started in launches:
            c = sim.comp[ref]
            spec = c.specification
            cs = spec.componentSpecification
            is_agg = bool(cs.isAggregating or cs.isAggregatingLoopedNodes)
            is_rep = bool(spec.workflowAttributes["isRepeat"])
            preds = sorted(p for p in G.predecessors(ref) if p in sim.comp)
            res.launches.append([ref, preds])
            # the iterations of a looped component that a later iteration has superseded: the controller propagates
            # failure / shut-down from the LATEST iteration only (Controller._true_nodes_from_identifiers(...,
            # only_latest_looped=True), a documented design decision of DoWhile); the property text quantifies over
            # DAGs, so the failed / shut-down clauses are evaluated on the latest iteration and on producers outside
            # loops, the finality clause on every producer
            latest = {}
            for p in preds:
                k, name = _iteration_of(p)
                if k is not None:
                    key = (sim.comp[p].stageIndex, name)
                    latest[key] = max(latest.get(key, -1), k)
            for p in preds:
                fa = sim.final_clock.get(p)
                truth = sim.first_final.get(p)
                k, name = _iteration_of(p)
                superseded = k is not None and k < latest[(sim.comp[p].stageIndex, name)]
                if fa is None or fa > clock:
                    if not (is_rep and sim.comp[p].stageIndex == c.stageIndex and started.get(p)):
                        res.launch_bad.append(["launched-before-producer-final", ref, p, at])
                elif superseded:
                    pass
                elif truth == "failed":
                    res.launch_bad.append(["launched-on-failed-producer", ref, p, at])
                elif truth == "shutdown" and not is_agg:
                    res.launch_bad.append(["nonaggregating-launched-on-shutdown-producer", ref, p, at])
        res.inflight_scheds = sum(1 for op, snap in sim.trace if op[0] == "sched" and "inflight" in snap)
        # instances of looped components that were still running when the instance of the NEXT iteration was over,
        # and the consumers outside the loop that were launched after such an instance ended (they had to wait for it)
        res.outlived = []
        for r in sim.refs:
            k, name = _iteration_of(r)
            if k is None:
                continue
            nxt = "%s.%d#%s" % (r.split(".", 1)[0], k + 1, name)
            a, b = sim.final_clock.get(r), sim.final_clock.get(nxt)
            if a is not None and b is not None and a > b:
                res.outlived.append(r)
        res.waited_for_outlived = sorted(set(
            ref for ref, clock, _at, _st in launches if _iteration_of(ref)[0] is None
            for p in G.predecessors(ref) if p in res.outlived and sim.final_clock[p] <= clock))
        return res
    finally:
        if sim is not None:
            sim.close()
        os.chdir(cwd)
        shutil.rmtree(tmp, ignore_errors=True)
