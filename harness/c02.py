"""C02 — Stage outcome does not depend on the ordering of notifications.

Implementation under test: the real Controller.initialise() / Controller.run() / ComponentState / StageState of
/repo under the deterministic runtime of harness/detsim.py: notifications go through the Controller's real RxPY
pipelines (observe_on(controllerPool) / filter(finishCalled is False), in the order the code composes them; the pool
is a queue drained by the harness), and in about a third of the groups the components run the REAL Engine
(run / LaunchTask / HandleTaskExit / restart / kill / shutdown / exitReason) with a scripted task generator whose
launches may also raise (SubmissionFailed by OSError / JobLaunchError, UnknownIssue by another exception).  Per case one (workflow of 1-3 stages, exit script per
task execution) is run through the whole stage loop (run() per stage, initialise() of the next stage, elaunch's
continue-on-error rule) under several random schedules (different delivery biases); no kill is injected.  In 40% of
the groups every schedule but the first may fire the external stage-completion hook (op ["complete", k], see
harness/detsim.py) at a random moment; such a schedule is judged on termination, recording, exactly one final state,
failure reporting and "own outcome or shut-down" (the hook, like a kill, is outside "a given exit reason for every
task execution").  The stand-in of a RepeatingEngine ends only after ComponentState told it
notify_all_producers_finished (or after kill()), as the real one: an observer that is never told keeps its stage
loop from terminating.
With real engines an execution may also be followed by a fault of the engine's OWN post-exit bookkeeping (script
entries "X:perf" / "X:matrix": the task exits with X, then FinalisePerformanceInfo raises, so that
HandleTaskObservableException instead of HandleTaskExit sets the exit reason): the exit reason of the execution is
still X, the rules apply unchanged (a successful task gives finished).
DoWhile groups (gen_loop_group / check_loop_group): packages whose set of components GROWS while the stage runs (1-2
looped components, 1-4 iterations, loop in stage 0 or 1, consumers outside the loop), exit scripts fixed for every
iteration before the run (success / restart / unrecoverable exit in iteration 0 / in an iteration >= 1 / outside the
loop / shutdown reason), several schedules each run to the verdict of every run(); oracle only (termination, every
component final and recorded, exactly one final state, a failed component <=> its stage's run() raised
UnexpectedJobFailureError and the stage state is failed, no component failed without an unrecoverable exit, every
final state the component's own outcome or shut-down, all-success => everything finished, the number of iterations
the condition asks for, every stage run); what the verdict must inspect when the stage grows: Props/C02.lean part I.
Oracle (model independent, harness/ctrl_sim.py: expected_states / own_outcome restate the documented rules):
  * every run() terminates, every component of every stage that was run ends final and recorded in comp_done;
  * a component that was seen in a final state is never seen in another state afterwards (stage transitions
    included): exactly one final state;
  * no task can exit unrecoverably  => every stage is run, every schedule ends in exactly the rule-given map (and
                                        all schedules agree);
  * some component ends failed       => the run() of the stage containing it raised UnexpectedJobFailureError and
                                        that stage's state is failed, every other component of a stage that was run
                                        is in its rule-given state (by the producers rule or by its own exit) or
                                        shut down.
Correspondence: every recorded schedule is applied to the Lean model (drv-c02): states after every op (current
stage and stop_executing included), final map, `stageDone`, verdict, the reports of the stages left behind and
`spec` (== Python restatement) are compared.
Model: lean/St4sd/Model/Ctrl.lean.  Theorems: lean/St4sd/Props/C02.lean, Witness: lean/St4sd/Witness/C02.lean.
"""
from __future__ import annotations

import json
import os
import random

from harness import common
from harness import ctrl_sim as CS
from harness import detsim
from harness import c01 as C01

RULE = ("case = (FlowIR template of 2-8 components over 1-3 stages - random, or built around a motif: replicated "
        "producer with an aggregating consumer in the same or a later stage / shutdown chain across stages / observer "
        "with several subjects / repeating consumers of producers of EARLIER stages (only, or next to a promoted "
        "same-stage subject) - with at most one replicated chain, aggregators (also without replicated inputs), "
        "repeating observers, random shutdownOn/restartHookOn/maxRestarts, continue-on-error on some stages; exit "
        "script per component - also restarts followed by failing re-submissions, with real engines by a task generator "
        "that raises -; stand-in or real engines; K schedules (quick 5, thorough 10) each run through the whole stage loop: "
        "Controller.run() per stage, initialise() of the next one; in 40% of the groups all but the first schedule may "
        "fire the stage-completion hook); with real engines an execution may be followed by a fault of the engine's own "
        "post-exit bookkeeping.  Or: DoWhile package (1-2 looped components, 1-4 iterations, consumers outside the loop; "
        "exit scripts per iteration: success / restart / unrecoverable exit in iteration 0, in a later iteration, outside "
        "the loop / shutdown reason; K-2 schedules run to the verdict; non-trivial = >= 2 iterations, >= 2 distinct op "
        "sequences, some component not finished or restarted).  Non-trivial (plain group) = >= 3 components after "
        "replication, >= 2 distinct op sequences among the K schedules and at least one component ends shut-down or "
        "failed or was restarted (the rules beyond 'success gives finished' are exercised).  Distinct by canonical "
        "JSON of (template, scripts).")


def downstream(info, roots):
    out = set(roots)
    changed = True
    while changed:
        changed = False
        for i, c in enumerate(info["comps"]):
            if i not in out and any(p in out for p in c["preds"]):
                out.add(i)
                changed = True
    return out


def racy_observers(info, expected):
    """repeating components with a same-stage producer whose rule-given state is not `finished`: they may be
    launched while that producer still runs, so whether the shutdown rule applies to them depends on the schedule"""
    out = []
    for i, c in enumerate(info["comps"]):
        if c["isRepeat"]:
            for p in c["preds"]:
                if info["comps"][p]["stage"] == c["stage"] and expected[p] != "finished":
                    out.append(i)
                    break
    return out


def classify_repeat_race(what, case, detail):
    """Known finding C02-observer-of-shutdown-producer.  Accepts a failing group only if
      * the failure is a deviation of final maps from the rules / between schedules (nothing else), and
      * the workflow contains a repeating observer of a same-stage producer whose rule-given state is shut-down or
        failed (so the observer may be launched before that producer ended), and at least one such observer
        actually deviates, and
      * every component whose final state deviates from the rules in any schedule is such a deviating observer or
        one of its transitive consumers, and
      * every deviating observer is in the state its own exit script gives, or shut down."""
    if what not in ("final-state-differs-from-rules", "final-state-depends-on-schedule"):
        return False
    if not detail or "info" not in detail:
        return False
    info = detail["info"]
    expected = detail["expected"]
    own = detail["own"]
    racy = racy_observers(info, expected)
    if not racy:
        return False
    dev = set()
    for final in detail["finals"]:
        if len(final) != len(expected):
            return False
        for i, st in enumerate(final):
            if st != expected[i]:
                dev.add(i)
                if i in racy and st not in (own[i], "shutdown"):
                    return False
    racy_dev = [i for i in racy if i in dev]
    if not racy_dev:
        return False
    return dev <= downstream(info, racy_dev)


CLASSIFIERS = {"c02_repeat_race": classify_repeat_race}


def check_group(ctx, case, schedules=None, tag_prefix=""):
    """case = {"template", "scripts"|None, "seed", "flavour", "k"}; schedules = recorded op lists (replay)"""
    rng = random.Random(case.get("seed", 0))
    runs = []
    scripts = case.get("scripts")
    flav = {}

    def mk_scripts(info):
        f, s = CS.gen_scripts(rng, info, case.get("flavour"), real=bool(case.get("real")))
        flav["f"] = f
        return s
    k = case.get("k", 5)
    pers = sorted(CS.PERSONALITIES)
    n_runs = len(schedules) if schedules is not None else k
    for j in range(n_runs):
        if schedules is not None:
            factory = (lambda ops: (lambda sim: detsim.scripted(ops, finish=True)))(schedules[j])
        else:
            p = pers[(j + rng.randrange(len(pers))) % len(pers)] if j else "eager"
            pc = case.get("p_complete", 0.0) if j else 0.0        # the first schedule of a group never fires the hook
            factory = (lambda p, pc: (lambda sim: CS.random_chooser(rng, p, 0.0, p_complete=pc, drain=True)))(p, pc)
        try:
            res = CS.run_real(case["template"], scripts if scripts is not None else mk_scripts, factory,
                              cont=case.get("cont", ()), real=bool(case.get("real")),
                              verbose=bool(case.get("verbose")) and j % 2 == 1)
        except Exception as exc:  # noqa
            ctx.tag(tag_prefix + "build-error:" + type(exc).__name__)
            return None
        scripts = res.scripts
        runs.append(res)
    info = runs[0].info
    n = len(info["comps"])
    expected = CS.expected_states(info, scripts)
    own = [CS.own_outcome(c, scripts.get(c["ref"], [])) for c in info["comps"]]
    may_fail = "failed" in own
    must_fail = "failed" in expected
    full = dict(case)
    full["scripts"] = scripts
    full["schedules"] = [r.ops for r in runs]
    finals = [r.final for r in runs]
    detail = {"info": info, "expected": expected, "own": own, "finals": finals,
              "results": [r.results for r in runs], "refs": [c["ref"] for c in info["comps"]]}
    stage_of = [c["stage"] for c in info["comps"]]
    n_stages = info["lastStage"] + 1
    distinct_ops = len(set(common.canon(r.ops) for r in runs))
    interesting = any(st != "finished" for f in finals for st in f) or \
        any(c[3] > 1 for r in runs for c in (r.snaps[-1]["comps"] if r.snaps else []))
    tags = [tag_prefix + "group", "n=%d" % n, "flavour:" + str(flav.get("f", case.get("flavour"))),
            "expect:" + ("failure" if must_fail else ("may-fail" if may_fail else "no-failure"))]
    for r in runs:
        tags.append("result:" + r.result)
    if any(c["isRepeat"] for c in info["comps"]):
        tags.append("has:repeat")
    if any(c["isAgg"] for c in info["comps"]):
        tags.append("has:aggregator")
    comps_ = info["comps"]
    if any(c["isAgg"] and not any(comps_[p]["isRepl"] for p in c["preds"]) for c in comps_):
        tags.append("has:aggregator-without-replicated-input")
    if any(c["isAgg"] and any(comps_[p]["isRepl"] and comps_[p]["stage"] < c["stage"] for p in c["preds"])
           for c in comps_):
        tags.append("has:aggregator-in-later-stage-than-replicas")
    tags.append("engines:" + ("real" if case.get("real") else "fake"))
    if any(x.partition(":")[2] in ("os", "launch", "raise") for sc in scripts.values() for x in sc):
        tags.append("script:launch-raises")
    if any(x.partition(":")[2] in ("perf", "matrix") for sc in scripts.values() for x in sc):
        tags.append("script:engine-fault-after-task-exit")
        if any(x.partition(":")[0] == "Success" and x.partition(":")[2] in ("perf", "matrix")
               for sc in scripts.values() for x in sc):
            tags.append("script:engine-fault-after-successful-task")
    if any(any(CS.base_reason(x) == "SubmissionFailed" and k > 0 and CS.base_reason(sc[k - 1]) != "SubmissionFailed"
               for k, x in enumerate(sc)) for sc in scripts.values()):
        tags.append("script:submission-fails-after-a-restart")
    tags.append("stages=%d" % n_stages)
    if info["cont"]:
        tags.append("has:continue-on-error")
    for r in runs:
        tags.append("stages-run=%d" % len(r.results))
    if any(expected[i] != "finished" and any(stage_of[j] > stage_of[i] and i in comps_[j]["preds"]
                                             for j in range(n))
           for i in range(n)):
        tags.append("has:later-stage-consumer-of-nonfinished-producer")
    if racy_observers(info, expected):
        tags.append("has:racy-observer")
    if any(c["isRepeat"] and any(comps_[p]["stage"] < c["stage"] for p in c["preds"]) for c in comps_):
        tags.append("has:repeating-consumer-of-earlier-stage-producer")
    if any(c["isRepeat"] and c["preds"] and all(comps_[p]["stage"] < c["stage"] for p in c["preds"]) for c in comps_):
        tags.append("has:repeating-consumer-with-earlier-stage-producers-only")
    for r in runs:
        if any(comps_[i_]["isRepeat"] and views and all(v is not None for (_p, v, _s) in views)
               for i_, views in r.launches):
            tags.append("observer-staged-in-after-all-its-producers-ended")
            break
    if case.get("p_complete"):
        tags.append("group-with-completion-hook")
    if case.get("verbose"):
        tags.append("logging:enabled-down-to-level-1-in-every-second-schedule")
    if len(set(common.canon(f) for f in finals)) > 1:
        tags.append("final-maps-differ-between-schedules")
    for st in sorted(set(expected)):
        tags.append("rule:" + st)
    ctx.case({"template": case["template"], "cont": list(case.get("cont", ())), "scripts": scripts},
             nontrivial=(n >= 3 and distinct_ops >= 2 and interesting), tags=tags)
    ctx.tag("schedules-run", len(runs))
    ctx.tag("ops-compared", sum(len(r.ops) for r in runs))
    if any(len(r.ops) > max(CS.MAX_OPS, 40 * n) for r in runs):
        ctx.tag("op-budget-used-up:schedule-finished-eagerly")
    # ---- oracle -----------------------------------------------------------------------------
    hooked = [any(op[0] == "complete" for op in r.ops) for r in runs]
    # the final maps that are judged against the rules (and that the classifier of the known finding looks at): the
    # schedules in which the completion hook did not fire
    detail["finals"] = [r.final for r, hk in zip(runs, hooked) if not hk]
    detail["finals_of_schedules_with_hook"] = [r.final for r, hk in zip(runs, hooked) if hk]
    for r, hk in zip(runs, hooked):
        if hk:
            ctx.tag("schedules-with-completion-hook")
        if r.result == "stopped":
            ctx.fail("stage-loop-did-not-terminate", full,
                     {"ops": len(r.ops), "final": r.final, "results": r.results, "done": r.done,
                      "refs": detail["refs"], "live": r.live, "can_exit": r.can_exit, "told": r.told,
                      "hook": CS.hook_report(r), "schedule": r.ops})
            continue
        n_run = len(r.results)                      # stages 0 .. n_run-1 were run to the end of run()
        in_run = [stage_of[i] < n_run for i in range(n)]
        if any((st not in CS.FINAL or not r.done[i]) for i, st in enumerate(r.final) if in_run[i]):
            ctx.fail("component-not-final-after-run", full, {"final": r.final, "done": r.done, "results": r.results})
        for i, was, now in r.flips:
            ctx.fail("component-left-its-final-state", full,
                     dict(detail, component=info["comps"][i]["ref"], was=was, now=now, final=r.final))
        for what, i, at in r.launch_bad:
            ctx.fail("c01:" + what, full, {"component": info["comps"][i]["ref"], "after_ops": at})
        if r.pool_errors:
            ctx.compare("no exception escapes a callback run on the controller pool", full, {"errors": []},
                        {"errors": r.pool_errors})
        failed = [i for i, st in enumerate(r.final) if st == "failed"]
        ujf = [k for k, x in enumerate(r.results) if x == "UnexpectedJobFailureError"]
        if failed:
            # the stage containing a failed component is reported as failed (by the run() of that stage)
            not_reported = [i for i in failed if in_run[i] and stage_of[i] not in ujf]
            if not_reported or not any(in_run[i] for i in failed):
                ctx.fail("failure:not-reported-by-run", full, dict(detail, result=r.results, final=r.final))
            if any(in_run[i] and r.stage_states[stage_of[i]] != "failed" for i in failed):
                ctx.fail("failure:stage-state-not-failed", full, dict(detail, stage_states=r.stage_states,
                                                                      final=r.final))
            if not may_fail:
                ctx.fail("component-failed-without-unrecoverable-exit", full, dict(detail, final=r.final))
            bad = [i for i, st in enumerate(r.final)
                   if (in_run[i] or st in CS.FINAL) and
                   (st not in ("failed", "shutdown", expected[i], own[i]) or (st == "failed" and own[i] != "failed"))]
            if bad:
                ctx.fail("failure:component-not-in-rule-state-or-shutdown", full, dict(detail, final=r.final, bad=bad))
        elif hk:
            # the package declared a stage complete: what was still active in it was shut down (like a kill, this is
            # outside "a given exit reason for every task execution"); what remains of the property: termination and
            # exactly one final state (above), and every final state is the component's own outcome or shut-down
            bad = [i for i, st in enumerate(r.final) if st in CS.FINAL and st not in ("shutdown", own[i])]
            if bad:
                ctx.fail("hook:component-neither-in-own-state-nor-shutdown", full, dict(detail, final=r.final, bad=bad))
        else:
            if must_fail:
                ctx.fail("failure:no-component-failed", full, dict(detail, final=r.final, result=r.results))
            elif r.final != expected:
                ctx.fail("final-state-differs-from-rules", full, dict(detail, final=r.final))
            if n_run != n_stages:
                ctx.fail("stage-loop-ended-early-without-failure", full, dict(detail, result=r.results))
        if ujf and not any(stage_of[i] in ujf for i in failed):
            ctx.fail("run-reports-failure-without-failed-component", full, dict(detail, final=r.final,
                                                                               result=r.results))
    if not may_fail and len(set(common.canon(r.final) for r, hk in zip(runs, hooked)
                                if r.result != "stopped" and not hk)) > 1:
        ctx.fail("final-state-depends-on-schedule", full, detail)
    # ---- correspondence ---------------------------------------------------------------------
    reqs = []
    for r in runs:
        q = CS.model_request(info, scripts, r.ops)
        q["launches"] = CS.engine_request(info, r.exit_log)[0]
        reqs.append(q)
    outs = ctx.model(reqs)
    if outs is not None:
        for r, m in zip(runs, outs):
            one = {"template": case["template"], "scripts": scripts, "ops": r.ops, "real": bool(case.get("real")),
                   "cont": list(case.get("cont", ()))}
            if case.get("real"):
                ctx.compare("exit reason reported by the real Engine after every execution == EngS.reported", one,
                            {"reasons": m["engineReasons"]}, {"reasons": CS.engine_request(info, r.exit_log)[1]})
            kk = CS.first_mismatch(m["snaps"], r.snaps)
            if kk is None:
                ctx.compare("state after every op == Ctrl.step", one, {"agree": True}, {"agree": True})
            else:
                ctx.compare("state after every op == Ctrl.step", one,
                            {"at": kk, "snap": m["snaps"][kk] if kk < len(m["snaps"]) else None},
                            {"at": kk, "op": r.ops[kk] if kk < len(r.ops) else None,
                             "snap": r.snaps[kk] if kk < len(r.snaps) else None})
            if r.result != "stopped":
                ctx.compare("end of the stage loop: stageDone, verdict, reports, canAdvance, final map == model", one,
                            {"stageDone": m["stageDone"], "verdict": m["verdict"], "reports": m["reports"],
                             "canAdvance": m["canAdvance"],
                             "final": [c[0] for c in m["snaps"][-1]["comps"]] if m["snaps"] else []},
                            {"stageDone": True, "verdict": r.result,
                             "reports": [[k, x] for k, x in enumerate(r.results[:-1])], "canAdvance": False,
                             "final": r.final})
        ctx.compare("Ctrl.spec / Ctrl.own == documented rules restated in Python", {"template": case["template"],
                                                                                    "scripts": scripts},
                    {"spec": outs[0]["spec"], "own": outs[0]["own"]}, {"spec": expected, "own": own})
    return runs


# ----------------------------------------------------------------------------------------------------
# workflows whose set of components GROWS while the stage runs (DoWhile): run to the verdict
# ----------------------------------------------------------------------------------------------------

FATAL = ["UnknownIssue", "KnownIssue", "SystemIssue", "Cancelled"]


def gen_loop_group(rng, k):
    """One DoWhile package (CS.gen_loop_case: 1-2 looped components in stage 0/1, consumers outside the loop in the
    same / the next stage, optional source and bystander) + an exit script for every task execution, fixed BEFORE the
    run for every component that can come to exist (iteration j of a looped component is `stage<S>.<j>#<name>`):
      success       every task succeeds;
      restart       an iteration of a looped component is restarted once (ResourceExhausted, then Success);
      fail-late     a looped component exits unrecoverably in iteration j >= 1: in a component that did not exist when
                    run() of the stage started;
      fail-first    ... in iteration 0;
      fail-outside  a component outside the loop (consumer / bystander / source) exits unrecoverably;
      shutdown      an iteration of a looped component exits with a reason on its shutdownOn list."""
    base = CS.gen_loop_case(rng)
    lp = base["loop"]
    S = lp["stage"]
    looped = ["work"] + (["check"] if lp["two"] else [])
    flavour = rng.choice(["success", "restart", "fail-late", "fail-late", "fail-late", "fail-late", "fail-first",
                          "fail-outside", "shutdown"])
    if flavour in ("fail-late", "shutdown", "restart") and lp["iters"] < 2:
        lp["iters"] = rng.choice([2, 3])
    real = rng.random() < 0.3
    scripts = {}

    def fatal(name):
        wa = lp["wa"].get(name, {})
        pool = [x for x in FATAL if x not in wa.get("shutdownOn", []) and x not in wa.get("restartHookOn", [])]
        return rng.choice(pool)
    if flavour in ("fail-late", "fail-first"):
        name = rng.choice(looped)
        j = 0 if flavour == "fail-first" else rng.randrange(1, lp["iters"])
        pre = ["ResourceExhausted"] if rng.random() < 0.2 else []      # restarted once (default policy), then fatal
        scripts["stage%d.%d#%s" % (S, j, name)] = pre + [fatal(name)]
    elif flavour == "fail-outside":
        outside = [("stage%d.%s" % (c["stage"], c["name"])) for c in lp["consumers"]]
        if lp["bystander"]:
            outside.append("stage%d.other" % S)
        if lp["src"] and rng.random() < 0.3:
            outside.append("stage0.src")
        scripts[rng.choice(outside)] = [fatal("")]
    elif flavour == "shutdown":
        name = rng.choice(looped)
        wa = lp["wa"].setdefault(name, {})
        if not wa.get("shutdownOn"):
            wa["shutdownOn"] = ["KnownIssue"]
        scripts["stage%d.%d#%s" % (S, rng.randrange(lp["iters"]), name)] = [rng.choice(wa["shutdownOn"])]
    elif flavour == "restart":
        name = rng.choice(looped)
        scripts["stage%d.%d#%s" % (S, rng.randrange(lp["iters"]), name)] = ["ResourceExhausted", "Success"]
    if real:
        # the engine's own bookkeeping fails after some successful tasks (see CS.base_reason)
        for j in range(lp["iters"]):
            for name in looped:
                r = "stage%d.%d#%s" % (S, j, name)
                if r not in scripts and rng.random() < 0.2:
                    scripts[r] = ["Success:" + rng.choice(["perf", "matrix"])]
    return {"loop": lp, "scripts": scripts, "seed": rng.randrange(1 << 30), "k": k, "real": real,
            "flavour": flavour}


def check_loop_group(ctx, case, schedules=None, tag_prefix=""):
    """case = {"loop", "scripts", "seed", "k", "real"}; the same package and scripts under K schedules, each run through
    the whole stage loop.  Oracle only (the Lean model `St4sd.Ctrl` has a fixed set of components; what the verdict of
    run() must look at when the set grows is `Ctrl.verdictOn`, Props/C02.lean part I)."""
    rng = random.Random(case.get("seed", 0))
    lp = case["loop"]
    k = case.get("k", 4)
    pers = sorted(CS.PERSONALITIES)
    runs = []
    n_runs = len(schedules) if schedules is not None else k
    for j in range(n_runs):
        if schedules is not None:
            factory = (lambda ops: (lambda sim: detsim.scripted(ops, finish=True)))(schedules[j])
        else:
            p = pers[(j + rng.randrange(len(pers))) % len(pers)] if j else "eager"
            factory = (lambda p: (lambda sim: CS.random_chooser(rng, p, 0.0, drain=True)))(p)
        try:
            res = CS.run_loop(dict(case, scripts={r: list(v) for r, v in (case.get("scripts") or {}).items()},
                                   _rng=None, flavour="given"), factory)
        except Exception as exc:  # noqa: the generated package was rejected / could not be built
            ctx.tag(tag_prefix + "loop-build-error:" + type(exc).__name__)
            return None
        runs.append(res)
    full = dict(case)
    full["schedules"] = [r.ops for r in runs]
    tags = [tag_prefix + "loop-group", "loop:flavour:" + str(case.get("flavour")),
            "loop:engines:" + ("real" if case.get("real") else "fake"), "loop:condition-by:" + lp["cond"],
            "loop:stage=%d" % lp["stage"]]
    for r in runs:
        tags.append("loop:result:" + r.result)
        tags.append("loop:iterations=%d" % r.iterations)
    distinct_ops = len(set(common.canon(r.ops) for r in runs))
    interesting = any(st != "finished" for r in runs for st in r.final) or any(n > 1 for r in runs for n in r.execs)
    ctx.case({"loop": lp, "scripts": case.get("scripts")},
             nontrivial=(max(r.iterations for r in runs) >= 2 and distinct_ops >= 2 and interesting), tags=tags)
    ctx.tag("schedules-run", len(runs))
    all_ok_scripts = True
    for r in runs:
        refs = r.refs
        n = len(refs)
        pol = r.policy
        own = [CS.own_outcome(pol[i], r.scripts.get(refs[i], [])) for i in range(n)]
        need = [CS.own_executions(pol[i], r.scripts.get(refs[i], [])) for i in range(n)]
        detail = {"refs": refs, "final": r.final, "results": r.results, "own": own, "execs": r.execs,
                  "stage_of": r.stage_of, "done": r.done, "stage_states": r.stage_states, "scripts": r.scripts}
        if r.result == "stopped":
            ctx.fail("stage-loop-did-not-terminate", full, dict(detail, live=r.live, schedule=r.ops))
            continue
        n_run = len(r.results)
        in_run = [r.stage_of[i] < n_run for i in range(n)]
        if any((r.final[i] not in CS.FINAL or not r.done[i]) for i in range(n) if in_run[i]):
            ctx.fail("component-not-final-after-run", full, detail)
        for i, was, now in r.flips:
            ctx.fail("component-left-its-final-state", full, dict(detail, component=refs[i], was=was, now=now))
        if r.pool_errors:
            ctx.compare("no exception escapes a callback run on the controller pool", full, {"errors": []},
                        {"errors": r.pool_errors})
        failed = [i for i in range(n) if r.final[i] == "failed"]
        ujf = [kk for kk, x in enumerate(r.results) if x == "UnexpectedJobFailureError"]
        # a task exited unrecoverably: the execution whose exit the restart policy does not absorb really happened
        fatal_exit = [i for i in range(n) if own[i] == "failed" and r.execs[i] >= need[i]]
        if any(own[i] != "finished" for i in range(n)):
            all_ok_scripts = False
        if failed:
            tags_ = "loop:failed-component-of-iteration>=1" if any("#" in refs[i] and not refs[i].split(".", 1)[1]
                                                                   .startswith("0#") for i in failed) else \
                "loop:failed-component-existed-at-start"
            ctx.tag(tags_)
            not_reported = [refs[i] for i in failed if in_run[i] and r.stage_of[i] not in ujf]
            if not_reported or not any(in_run[i] for i in failed):
                ctx.fail("failure:not-reported-by-run", full, dict(detail, not_reported=not_reported))
            if any(in_run[i] and r.stage_states[r.stage_of[i]] != "failed" for i in failed):
                ctx.fail("failure:stage-state-not-failed", full, detail)
            if any(own[i] != "failed" for i in failed):
                ctx.fail("component-failed-without-unrecoverable-exit", full, detail)
        elif fatal_exit:
            ctx.fail("failure:no-component-failed", full, dict(detail, fatal_exit=[refs[i] for i in fatal_exit]))
        bad = [refs[i] for i in range(n) if r.final[i] in CS.FINAL and r.final[i] not in ("shutdown", own[i])]
        if bad:
            ctx.fail("failure:component-not-in-rule-state-or-shutdown" if failed else
                     "final-state-differs-from-rules", full, dict(detail, bad=bad))
        if ujf and not any(r.stage_of[i] in ujf for i in failed):
            ctx.fail("run-reports-failure-without-failed-component", full, detail)
        if all(o == "finished" for o in own):
            # every task succeeds (possibly after restarts): success gives finished, for every component of every
            # iteration, the loop runs the number of iterations its condition asks for, every stage is run
            if any(st != "finished" for st in r.final) or any(x != "ok" for x in r.results):
                ctx.fail("final-state-differs-from-rules", full, detail)
            if r.iterations != lp["iters"]:
                ctx.fail("loop:number-of-iterations-differs", full, dict(detail, iterations=r.iterations))
            if n_run != int(max(r.stage_of)) + 1:
                ctx.fail("stage-loop-ended-early-without-failure", full, detail)
    if all_ok_scripts and len(set(common.canon([r.refs, r.final]) for r in runs if r.result != "stopped")) > 1:
        ctx.fail("final-state-depends-on-schedule", full, {"finals": [[r.refs, r.final] for r in runs]})
    return runs


def gen_case(rng, k):
    template, cont = CS.gen_workflow(rng)
    return {"template": template, "cont": cont, "scripts": None, "seed": rng.randrange(1 << 30),
            "flavour": None, "k": k, "real": rng.random() < 0.35,
            "p_complete": rng.choice([0, 0, 0, 0.04, 0.1]), "verbose": rng.random() < 0.1}


# first entry = minimal input of the known finding (rediscovered by the generator as well): c1 exits with a reason
# on its shutdownOn list, c2 is a repeating observer of c1 (launched before or after c1 ended, depending on the schedule)
CORPUS = [
    {"template": [{"name": "c0", "stage": 0, "refs": [], "wa": {}},
                  {"name": "c1", "stage": 0, "refs": [0], "wa": {"shutdownOn": ["KnownIssue"]}},
                  {"name": "c2", "stage": 0, "refs": [1], "wa": {"repeatInterval": 1}}],
     "scripts": {"stage0.c1": ["KnownIssue"], "stage0.c2": ["Success"]}, "seed": 7, "k": 2,
     # the two histories `late` and `early` of lean/St4sd/Witness/C02.lean
     "schedules": [
         [["sched"], ["sched"], ["exit", 0], ["pm", 0], ["fin", 0], ["sched"], ["exit", 1], ["pm", 1], ["sched"],
          ["fin", 2], ["fin", 1]],
         [["sched"], ["sched"], ["exit", 0], ["pm", 0], ["fin", 0], ["sched"], ["sched"], ["exit", 1], ["pm", 1],
          ["fin", 1], ["exit", 2], ["pm", 2], ["fin", 2]]],
     "witness": True},
    {"template": [{"name": "c0", "stage": 0, "refs": [], "wa": {}},
                  {"name": "c1", "stage": 0, "refs": [0], "wa": {"shutdownOn": ["KnownIssue"]}},
                  {"name": "c2", "stage": 0, "refs": [1], "wa": {"repeatInterval": 1}}],
     "scripts": {"stage0.c1": ["KnownIssue"], "stage0.c2": ["Success"]}, "seed": 7, "k": 8},
    # c1 waits for c0 when the package's IsStageComplete hook answers True: both must end SHUTDOWN and RECORDED (before
    # the repair fixes/C02-completion-hook-unstaged.diff c1 was finish()ed without the controller observing it and the
    # loop of run() never ended: Witness/C02.lean old_hook_strands_unstaged_component)
    {"template": [{"name": "c0", "stage": 0, "refs": [], "wa": {}},
                  {"name": "c1", "stage": 0, "refs": [0], "wa": {}}],
     "scripts": {}, "seed": 21, "k": 1,
     "schedules": [[["sched"], ["sched"], ["complete", 0], ["exit", 0], ["fin", 0], ["fin", 1]]]},
    # the hook fires when every component of the stage is staged in: the stage ends, everything shut down
    {"template": [{"name": "c0", "stage": 0, "refs": [], "wa": {}},
                  {"name": "c1", "stage": 0, "refs": [0], "wa": {"repeatInterval": 1}},
                  {"name": "c2", "stage": 1, "refs": [1], "wa": {}}],
     "cont": [0], "scripts": {}, "seed": 22, "k": 1,
     "schedules": [[["sched"], ["sched"], ["sched"], ["complete", 0], ["exit", 1], ["exit", 0], ["fin", 1], ["fin", 0],
                    ["next"], ["sched"], ["sched"], ["fin", 2]]]},
    # an observer that is staged in after ALL its producers ended (stage1.c1 has no inputs: it runs and ends while
    # stage 0 is current; c2 = stage1.c2 observes it and consumes stage0.c0): its engine must be told at once.
    # Components: 0 = stage0.c0, 1 = stage1.c1, 2 = stage1.c2
    {"template": [{"name": "c0", "stage": 0, "refs": [], "wa": {}},
                  {"name": "c1", "stage": 1, "refs": [], "wa": {}},
                  {"name": "c2", "stage": 1, "refs": [0, 1], "wa": {"repeatInterval": 1}}],
     "cont": [], "scripts": {}, "seed": 23, "k": 2,
     "schedules": [
         [["sched"], ["sched"], ["exit", 1], ["pm", 1], ["fin", 1], ["exit", 0], ["pm", 0], ["fin", 0], ["next"],
          ["sched"], ["sched"], ["exit", 2], ["pm", 2], ["fin", 2]],
         [["sched"], ["sched"], ["exit", 0], ["pm", 0], ["fin", 0], ["next"], ["sched"], ["sched"], ["exit", 1],
          ["pm", 1], ["exit", 2], ["pm", 2], ["fin", 1], ["fin", 2]]]},
    {"template": [{"name": "c0", "stage": 0, "refs": [], "wa": {}},
                  {"name": "c1", "stage": 1, "refs": [0], "wa": {"repeatInterval": 1}}],
     "cont": [], "scripts": {}, "seed": 24, "k": 4},
    {"template": [{"name": "c0", "stage": 0, "refs": [], "wa": {}},
                  {"name": "c1", "stage": 0, "refs": [0], "wa": {"replicate": 2, "shutdownOn": ["KnownIssue"]}},
                  {"name": "c2", "stage": 0, "refs": [1], "wa": {"aggregate": True}},
                  {"name": "c3", "stage": 0, "refs": [1], "wa": {}}],
     "scripts": {"stage0.c10": ["KnownIssue"]}, "seed": 11, "k": 5},
    {"template": [{"name": "c0", "stage": 0, "refs": [], "wa": {}},
                  {"name": "c1", "stage": 0, "refs": [0], "wa": {"replicate": 2}},
                  {"name": "c2", "stage": 0, "refs": [1], "wa": {"aggregate": True}}],
     "scripts": {"stage0.c11": ["KnownIssue"]}, "seed": 13, "k": 8},
    # two stages (= wfMS / opsMS of Props/C02.lean): c0 ends shut-down in stage 0, its consumer c2 lives in stage 1.
    # first schedule: the notification of c0 is the last one of stage 0, c2 is inspected only after initialise(stage 1);
    # second schedule: c2 is inspected (promotion) while stage 0 is still current.  Components: 0 = stage0.c0,
    # 1 = stage0.c1, 2 = stage1.c3, 3 = stage1.c2
    {"template": [{"name": "c0", "stage": 0, "refs": [], "wa": {"shutdownOn": ["KnownIssue"]}},
                  {"name": "c1", "stage": 0, "refs": [], "wa": {}},
                  {"name": "c2", "stage": 1, "refs": [0], "wa": {}},
                  {"name": "c3", "stage": 1, "refs": [], "wa": {}}],
     "cont": [], "scripts": {"stage0.c0": ["KnownIssue"]}, "seed": 3, "k": 2,
     "schedules": [
         [["sched"], ["sched"], ["exit", 1], ["pm", 1], ["fin", 1], ["exit", 0], ["pm", 0], ["fin", 0], ["next"],
          ["sched"], ["sched"], ["fin", 3], ["exit", 2], ["pm", 2], ["fin", 2]],
         [["sched"], ["sched"], ["exit", 0], ["pm", 0], ["fin", 0], ["sched"], ["fin", 3], ["exit", 1], ["pm", 1],
          ["fin", 1], ["next"], ["sched"], ["sched"], ["exit", 2], ["pm", 2], ["fin", 2]]]},
    {"template": [{"name": "c0", "stage": 0, "refs": [], "wa": {"shutdownOn": ["KnownIssue"]}},
                  {"name": "c1", "stage": 0, "refs": [], "wa": {}},
                  {"name": "c2", "stage": 1, "refs": [0], "wa": {}},
                  {"name": "c3", "stage": 1, "refs": [], "wa": {}}],
     "cont": [], "scripts": {"stage0.c0": ["KnownIssue"]}, "seed": 4, "k": 6},
    # aggregators without a replicated input (aggregator of an aggregator, also across a stage boundary); every task
    # succeeds, so every component must end finished
    {"template": [{"name": "c0", "stage": 0, "refs": [], "wa": {"replicate": 2}},
                  {"name": "c1", "stage": 0, "refs": [0], "wa": {"aggregate": True}},
                  {"name": "c2", "stage": 0, "refs": [1], "wa": {"aggregate": True}},
                  {"name": "c3", "stage": 1, "refs": [1, 2], "wa": {"aggregate": True}}],
     "cont": [], "scripts": {}, "seed": 5, "k": 3},
    # a post-mortem notification that is still queued when the controller stops its component (a peer failed) must be
    # dropped when it is finally delivered: c0's only execution ends ResourceExhausted (restartable), c1 fails.
    # Components: 0 = stage0.c0, 1 = stage0.c1
    {"template": [{"name": "c0", "stage": 0, "refs": [], "wa": {}},
                  {"name": "c1", "stage": 0, "refs": [], "wa": {}}],
     "cont": [], "scripts": {"stage0.c0": ["ResourceExhausted"], "stage0.c1": ["UnknownIssue"]}, "seed": 6, "k": 1,
     "schedules": [[["sched"], ["sched"], ["exit", 1], ["pm", 1], ["exit", 0], ["fin", 1], ["pm", 0], ["fin", 0]]]},
    {"template": [{"name": "c0", "stage": 0, "refs": [], "wa": {}},
                  {"name": "c1", "stage": 0, "refs": [], "wa": {}}],
     "cont": [], "scripts": {"stage0.c0": ["ResourceExhausted"], "stage0.c1": ["UnknownIssue"]}, "seed": 6, "k": 6},
    # real engines: a restart followed by three launches that raise, then success - one restart and three
    # re-submissions are within both budgets, the component must end finished
    {"template": [{"name": "c0", "stage": 0, "refs": [], "wa": {}},
                  {"name": "c1", "stage": 0, "refs": [0], "wa": {}}],
     "cont": [], "real": True, "seed": 8, "k": 3,
     "scripts": {"stage0.c0": ["ResourceExhausted", "SubmissionFailed:os", "SubmissionFailed:launch",
                               "SubmissionFailed:os", "Success"]}},
    # real engines: the engine's own bookkeeping fails AFTER the task exited (performance information unavailable /
    # performance table cannot be updated): the reason of the execution is still the task's - both tasks succeed, both
    # components must end finished; c1 of the second case is restarted once and then succeeds, twice with a fault
    {"template": [{"name": "c0", "stage": 0, "refs": [], "wa": {}},
                  {"name": "c1", "stage": 0, "refs": [], "wa": {}}],
     "cont": [], "real": True, "seed": 31, "k": 3,
     "scripts": {"stage0.c0": ["Success:matrix"], "stage0.c1": ["Success"]}},
    {"template": [{"name": "c0", "stage": 0, "refs": [], "wa": {"shutdownOn": ["KnownIssue"]}},
                  {"name": "c1", "stage": 0, "refs": [0], "wa": {"restartHookOn": ["ResourceExhausted"]}},
                  {"name": "c2", "stage": 1, "refs": [1], "wa": {}}],
     "cont": [], "real": True, "seed": 32, "k": 3,
     "scripts": {"stage0.c0": ["Success:perf"], "stage0.c1": ["ResourceExhausted:perf", "Success:matrix"],
                 "stage1.c2": ["Success:perf"]}},
    # DoWhile: the second iteration of the looped component (a component that does not exist when run() starts) exits
    # unrecoverably: it ends failed and the run() of its stage must raise UnexpectedJobFailureError; second case: the
    # failing iteration is the one of a second looped component, the loop lives in stage 1, real engines
    {"loop": {"stage": 0, "iters": 2, "src": False, "two": False, "cond": "work",
              "consumers": [{"name": "after", "stage": 0, "of": "work", "method": "ref"}], "bystander": True,
              "wa": {"work": {}}},
     "scripts": {"stage0.1#work": ["UnknownIssue"]}, "seed": 41, "k": 3, "real": False, "flavour": "fail-late"},
    {"loop": {"stage": 1, "iters": 3, "src": True, "two": True, "cond": "check",
              "consumers": [{"name": "after", "stage": 2, "of": "work", "method": "ref"},
                            {"name": "collect", "stage": 1, "of": "work", "method": "loopref"}], "bystander": False,
              "wa": {"work": {}, "check": {"shutdownOn": ["Cancelled"]}}},
     "scripts": {"stage1.2#work": ["ResourceExhausted", "KnownIssue:perf"], "stage1.0#check": ["Success:matrix"]},
     "seed": 42, "k": 3, "real": True, "flavour": "fail-late"},
    {"template": [{"name": "c0", "stage": 0, "refs": [], "wa": {"maxRestarts": 2}},
                  {"name": "c1", "stage": 0, "refs": [0], "wa": {}}],
     "cont": [], "real": True, "seed": 9, "k": 3,      # both restarts spent: the next failed submission is final
     # (Engine.restart tests maxRestarts before it looks at the reason) - the rules give failed
     "scripts": {"stage0.c0": ["SubmissionFailed:launch", "ResourceExhausted", "SubmissionFailed",
                               "ResourceExhausted", "SubmissionFailed:os", "SubmissionFailed:os", "Success"]}},
]


def corpus_cases():
    out = list(CORPUS)
    d = os.path.join(common.VERIF, "corpus", "C02")
    if os.path.isdir(d):
        for fn in sorted(os.listdir(d)):
            if fn.endswith(".json"):
                out.append(json.load(open(os.path.join(d, fn))))
    return out


def setup(ctx):
    C01.setup(ctx)
    ctx.rule = RULE
    ctx.classifiers = CLASSIFIERS
    ctx.assumptions.append("exit reasons are a function of (component, execution number); no external kill; the "
                           "experiment starts from stage 0 (no restart from a later stage); the stage loop of "
                           "scripts/elaunch.py:Run is restated in harness/detsim.py (Sim.run)")


def run_n(ctx, n, k, n_loops=0):
    rng = ctx.rng
    for case in corpus_cases():
        if "loop" in case:
            check_loop_group(ctx, case, schedules=case.get("schedules"), tag_prefix="corpus:")
            continue
        runs = check_group(ctx, case, schedules=case.get("schedules"), tag_prefix="corpus:")
        if case.get("witness") and runs:
            got = [[r.result, r.final] for r in runs]
            want = [["FinalStageNoFinishedLeafComponents", ["finished", "shutdown", "shutdown"]],
                    ["ok", ["finished", "shutdown", "finished"]]]
            ctx.tag("witness:C02W-reproduced-on-real-controller" if got == want
                    else "witness:C02W-NOT-reproduced (code changed? then retire the known finding)")
            ctx.extra["witness_C02W"] = {"expected": want, "observed": got}
    kept = []
    kept_loops = []
    every = max(1, n // 6)
    for i in range(n):
        if n_loops and (i * n_loops) // n != ((i + 1) * n_loops) // n:      # exactly n_loops groups, spread evenly
            lcase = gen_loop_group(rng, max(2, k - 2))
            lruns = check_loop_group(ctx, lcase)
            if lruns and len(kept_loops) < 4 and lruns[-1].result != "stopped":
                kept_loops.append((lcase, lruns[-1]))
        case = gen_case(rng, k)
        runs = check_group(ctx, case)
        if runs and i % every == 0 and len(kept) < (6 if n < 200 else 30):
            kept.append((case, runs[-1]))
    # a sample of the schedules is run again after all the unrelated workflows (same component names, other roles):
    # the real Controller must answer the same (harness/c01.py rerun_later)
    C01.rerun_later(ctx, kept)
    for lcase, res in reversed(kept_loops):
        try:
            again = CS.run_loop(dict(lcase, scripts={r: list(v) for r, v in (lcase.get("scripts") or {}).items()},
                                     _rng=None, flavour="given"),
                                lambda sim: detsim.scripted(res.ops, finish=True))
        except Exception as exc:  # noqa
            ctx.tag("rerun:loop-build-error:" + type(exc).__name__)
            continue
        ctx.tag("loop-groups-run-again-later-in-the-same-process")
        first = {"refs": res.refs, "results": res.results, "final": res.final, "ops": res.ops}
        later = {"refs": again.refs, "results": again.results, "final": again.final, "ops": again.ops}
        if common.canon(first) != common.canon(later):
            ctx.fail("result-depends-on-earlier-cases", dict(lcase, schedules=[res.ops]),
                     {"first_run": first, "later_run": later})


def run(ctx):
    setup(ctx)
    if ctx.tier == "quick":
        run_n(ctx, 75, 5, n_loops=19)
    else:
        run_n(ctx, 360, 10, n_loops=90)


def replay(ctx, doc):
    setup(ctx)
    case = doc.get("input")
    if case is None:
        for b in doc.get("no_longer_checks", []):
            if b.get("kind") == "correspondence":
                case = b["input"]
                break
    if case is None:
        raise common.InfraError("replay file carries no input")
    if "schedules" not in case and "ops" in case:
        case = dict(case, schedules=[case["ops"]])
    if "loop" in case:
        check_loop_group(ctx, case, schedules=case.get("schedules"), tag_prefix="replay:")
        return
    check_group(ctx, case, schedules=case.get("schedules"), tag_prefix="replay:")
