"""C06 — DSL 2.0 compilation preserves the dataflow and parameter bindings.

Implementation under test (real code, in-process), two driver paths:
  direct: experiment.model.frontends.dsl.Namespace(**doc) -> namespace_to_flowir(ns) -> FlowIRConcrete
  conf:   the namespace written as a package (conf/dsl.yaml) + 0-2 user variable files, loaded through
          experiment.model.conf.ExperimentConfigurationFactory.configurationForExperiment(...) (the real
          DSLExperimentConfiguration: user variables -> override_entrypoint_args) -> get_flowir_concrete()
  observed: raw()['components'] (stage, name, command.arguments, references, environment), validate(), or the
  exception (type; for DSLInvalidError — possibly wrapped in ExperimentInvalidConfigurationError — the locations
  of its underlying errors).
Model: lean/St4sd/Model/Dsl.lean via drv-c06 (flattenOp = the code's walk, flattenSpec = denotational).
Oracle: `expected()` below — a direct recursive evaluation of the generated namespace written independently
of the model (instances = paths of step names, parameter values along the call chain, producers by path).

Abstract namespaces: values are token lists  {"l": text} | {"p": param} | {"r": [loc…], "m": method|None, "k": spelling}
| {"s": [path…], "m": method|None} | {"v": dict | number | bool} (a non-string value: always the only token of
its value; "raw": True when it does not pass through pydantic, i.e. in user variables);  `render_*` turns them
into the YAML-shaped document for the real code.  ns["userVars"] = [[name, value]…] (the `global` user
variables), ns["varFiles"] = [[name…]…] (how they are spread over variable files), ns["path"] = direct | conf.
Component templates carry "replicate" (None | number) and "aggregate"; {"p": "replica"} in their arguments is the
`%(replica)s` of the runtime unless the template declares a parameter of that name.  Step names may be spelled
`stage<N>.name`.

Histories: every case is compiled in this one process (HISTORY); `second_pass` compiles a sample again at the end;
a failing answer is re-computed in pristine child processes (`isolated`) to tell a wrong function of the namespace
from a dependence on earlier compilations, in which case the replay carries the `history` that reproduces it.
"""
from __future__ import annotations

import copy
import json
import logging
import os
import re
import shutil
import signal
import subprocess
import sys
import tempfile

ENTRY = "entry-instance"
METHODS = ["ref", "output"]
# methods of a reference that only lives in a parameter (never interpolated into command.arguments): the idiom for
# staging a producer's file into the working directory
STAGE_METHODS = ["copy", "link", "copy", "ref", "output"]
STEP_POOL = ["a", "b", "c", "gen", "sim", "foo", "foo-I", "foo-II", "x.y", "p_q", "foo-III",
             # explicit `stage<N>.` prefixes: other spellings of names above (stage 0) and the same names in another stage
             "stage0.foo", "stage00.foo-I", "stage0.a", "stage1.a", "stage1.foo", "stage2.gen"]
REPLICATE_VALUES = [1, 2, 3, 2, 0]
REPLICA = "replica"
WORDS = ["alpha", "beta", "7", "x=1", "run", "-v", "n_2", "k.9", "zz"]
NUMBERS = [0, 5, 42, 2.5, -1.5, True, False]
# environments, in families whose members a careless notion of "the same environment" confuses; the dictionaries of
# one namespace come mostly from one family
DICT_FAMILIES = [
    # the same variable names, other values
    [{"MODE": "fast", "LEVEL": "2"}, {"MODE": "accurate", "LEVEL": "2"}, {"MODE": "fast", "LEVEL": "3"},
     {"LEVEL": "fast", "MODE": "2"}],
    # the same values under other names
    [{"A": "1"}, {"B": "1"}, {"A": "2"}, {"OMP_NUM_THREADS": "1"}],
    # subsets / supersets
    [{"MODE": "slow"}, {"A": "1", "MODE": "slow"}, {"MODE": "fast"}, {"A": "1"}],
    # the same text once names and values are joined; the same values in the same positions
    [{"AB": "1"}, {"A": "B1"}, {"A": "1", "B": "1"}, {"KIND": "fast", "LEVEL": "2"}, {"LEVEL": "fast", "MODE": "2"}],
    [{"OMP_NUM_THREADS": "4"}, {"OMP_NUM_THREADS": "8"}],
]
DICTS = [d for fam in DICT_FAMILIES for d in fam]
_FAMILY = [DICT_FAMILIES[0]]


class Hang(Exception):
    pass


def _alarm(*_a):
    raise Hang()


# ----------------------------------------------------------------------------------------
# rendering
# ----------------------------------------------------------------------------------------

def tok_text(t):
    if "l" in t:
        return t["l"]
    if "p" in t:
        return "%(" + t["p"] + ")s"
    if "r" in t:
        loc = t["r"]
        k = t.get("k", len(loc))
        q = False
        slash = False
        if isinstance(k, str):  # "q<k>" quoted spelling, "t<k>" trailing slash
            q = k[0] == "q"
            slash = k[0] == "t"
            k = int(k[1:])
        k = max(1, min(k, len(loc)))
        inner = "/".join(loc[:k]) + ("/" if slash else "")
        s = ('"<%s>"' if q else "<%s>") % inner
        if k < len(loc):
            s += "/" + "/".join(loc[k:])
        if t.get("m"):
            s += ":" + t["m"]
        return s
    s = "".join("/" + x for x in t["s"])
    if t.get("m"):
        s += ":" + t["m"]
    return s


_ADAPTER = []


def scalar_text(t):
    """text the code embeds for a number / boolean: str() of the value as the document schema keeps it
    (pydantic coerces e.g. booleans of ParameterValueType); user variables reach the compiler as they are"""
    x = t["v"]
    if not t.get("raw"):
        if not _ADAPTER:
            import pydantic
            import experiment.model.frontends.dsl as D
            _ADAPTER.append(pydantic.TypeAdapter(D.ParameterValueType))
        x = _ADAPTER[0].validate_python(x)
    return str(x)


def canon(x):
    return json.dumps(x, sort_keys=True, separators=(",", ":"))


def val_text(v):
    """document value of a token list: the object itself for a non-string value, text otherwise"""
    if len(v) == 1 and "v" in v[0]:
        return copy.deepcopy(v[0]["v"])
    return "".join(canon(t["v"]) if "v" in t else tok_text(t) for t in v)


def render_doc(ns):
    wfs, comps = [], []
    for t in ns["templates"]:
        sig = {"name": t["name"], "parameters": [
            dict(name=p["name"], **({"default": val_text(p["default"])} if p["default"] is not None else {}))
            for p in t["params"]]}
        if t["wf"]:
            wfs.append((t["idx"], {"signature": sig, "steps": {s: tn for s, tn in t["steps"]},
                                   "execute": [{"target": "<%s>" % e["target"],
                                                "args": {n: val_text(v) for n, v in e["args"]}} for e in t["execute"]]}))
        else:
            cmd = {"executable": "echo", "arguments": val_text(t["args"])}
            if t.get("env"):
                cmd["environment"] = "%(" + t["env"] + ")s"
            comp = {"signature": sig, "command": cmd}
            attrs = {}
            if t.get("replicate") is not None:
                attrs["replicate"] = t["replicate"]
            if t.get("aggregate"):
                attrs["aggregate"] = True
            if attrs:
                comp["workflowAttributes"] = attrs
            comps.append((t["idx"], comp))
    return {"entrypoint": {"entry-instance": ns["entry"],
                           "execute": [{"target": "<entry-instance>", "args": {n: val_text(v) for n, v in ns["entryArgs"]}}]},
            "workflows": [d for _i, d in sorted(wfs, key=lambda x: x[0])],
            "components": [d for _i, d in sorted(comps, key=lambda x: x[0])]}


def _mtok(t):
    if "v" not in t:
        return t
    if isinstance(t["v"], dict):
        return {"d": canon(t["v"])}
    if isinstance(t["v"], list):
        return {"d": canon(t["v"])}  # never sent: lists are refused by the document schema
    return {"n": scalar_text(t)}


def _mval(v):
    return [_mtok(t) for t in v]


def model_request(ns):
    # get_template searches components first, then workflows
    ts = []
    for t in sorted(ns["templates"], key=lambda t: (t["wf"], t["idx"])):
        t = copy.deepcopy(t)
        for p in t["params"]:
            if p["default"] is not None:
                p["default"] = _mval(p["default"])
        if t["wf"]:
            for e in t["execute"]:
                e["args"] = [[n, _mval(v)] for n, v in e["args"]]
        else:
            t["args"] = _mval(t["args"])
            t["env"] = t.get("env")
            t["replicate"] = None if t.get("replicate") is None else str(t["replicate"])
            t["aggregate"] = bool(t.get("aggregate"))
        ts.append(t)
    return {"op": "flatten", "templates": ts, "entry": ns["entry"],
            "entryArgs": [[n, _mval(v)] for n, v in ns["entryArgs"]],
            "userVars": [[n, _mval(v)] for n, v in ns.get("userVars", [])]}


# ----------------------------------------------------------------------------------------
# real code
# ----------------------------------------------------------------------------------------

def trunc_loc(loc):
    loc = list(loc)
    if not loc:
        return ["?"]
    if loc[0] == "entrypoint":
        return ["entrypoint"]
    if loc[0] in ("workflows", "components") and len(loc) >= 2:
        out = [loc[0], loc[1]]
        if len(loc) >= 4 and loc[2] == "execute" and isinstance(loc[3], int):
            out.append(loc[3])
        else:
            out.append(None)
        return out
    return ["?"] + [str(x) for x in loc[:2]]


def _observe(f):
    """FlowIRConcrete -> what the property talks about"""
    raw = f.raw()
    envs = (raw.get("environments") or {}).get("default") or {}
    comps = []
    for c in raw.get("components", []):
        cmd = c.get("command", {})
        args = cmd.get("arguments", "")
        if not isinstance(args, str):
            args = "non-string:" + repr(args)
        env = envname = cmd.get("environment")
        if env is not None and env != "none":
            env = canon(envs[env]) if env in envs else "unknown-environment:" + str(env)
        comps.append({"stage": int(c.get("stage", 0)), "name": c["name"], "args": args,
                      "refs": sorted(c.get("references", [])), "env": env, "envname": envname})
    try:
        val = [type(x).__name__ + ": " + str(x)[:200] for x in f.validate()]
    except Hang:
        raise
    except Exception as exc:  # noqa
        val = ["validate-raises:" + type(exc).__name__]
    return {"components": comps, "validate": val}


def _invalid(exc):
    locs = []
    for e in exc.underlying_errors:
        locs.append(list(getattr(e, "location", []) or []))
    return {"invalid": locs, "messages": [str(e)[:200] for e in exc.underlying_errors][:4]}


def impl(doc, timeout=3):
    import experiment.model.frontends.dsl as D
    import experiment.model.errors as E
    old = signal.signal(signal.SIGALRM, _alarm)
    signal.alarm(timeout)
    try:
        try:
            ns = D.Namespace(**doc)
        except Hang:
            raise
        except Exception as exc:  # noqa
            return {"exception": "pydantic:" + type(exc).__name__}
        try:
            return _observe(D.namespace_to_flowir(ns))
        except Hang:
            raise
        except E.DSLInvalidError as exc:
            return _invalid(exc)
        except Exception as exc:  # noqa
            return {"exception": type(exc).__name__, "message": str(exc)[:200]}
    except Hang:
        return {"exception": "HANG", "message": "no answer within %d s" % timeout}
    finally:
        signal.alarm(0)
        signal.signal(signal.SIGALRM, old)


def variable_files(ns):
    """the documents of the user variable files of a conf-path case"""
    given = dict((n, v) for n, v in ns.get("userVars", []))
    return [{"global": {n: val_text(given[n]) for n in names}} for names in ns.get("varFiles", [])]


def impl_conf(doc, var_docs, timeout=5):
    """second driver path: package on disk + user variable files through the real configuration factory"""
    import yaml
    import experiment.model.conf as C
    import experiment.model.errors as E
    scratch = tempfile.mkdtemp(prefix="c06-")
    old = signal.signal(signal.SIGALRM, _alarm)
    signal.alarm(timeout)
    logging.disable(logging.CRITICAL)
    try:
        pkg = os.path.join(scratch, "ns.package")
        os.makedirs(os.path.join(pkg, "conf"))
        with open(os.path.join(pkg, "conf", "dsl.yaml"), "w") as f:
            yaml.safe_dump(doc, f)
        paths = []
        for i, v in enumerate(var_docs):
            paths.append(os.path.join(scratch, "variables%d.yaml" % i))
            with open(paths[-1], "w") as f:
                yaml.safe_dump(v, f)
        try:
            conf = C.ExperimentConfigurationFactory.configurationForExperiment(
                pkg, variable_files=paths, createInstanceFiles=False, updateInstanceFiles=False,
                is_instance=False, primitive=True)
            if type(conf).__name__ != "DSLExperimentConfiguration":
                return {"exception": "not-loaded-as-dsl:" + type(conf).__name__}
            return _observe(conf.get_flowir_concrete())
        except Hang:
            raise
        except E.DSLInvalidError as exc:
            return _invalid(exc)
        except E.ExperimentInvalidConfigurationError as exc:
            under = getattr(exc, "underlyingError", None)
            if isinstance(under, E.DSLInvalidError):
                return _invalid(under)
            return {"exception": "ExperimentInvalidConfigurationError(" + type(under).__name__ + ")",
                    "message": str(exc)[:200]}
        except Exception as exc:  # noqa
            return {"exception": type(exc).__name__, "message": str(exc)[:200]}
    except Hang:
        return {"exception": "HANG", "message": "no answer within %d s" % timeout}
    finally:
        signal.alarm(0)
        signal.signal(signal.SIGALRM, old)
        logging.disable(logging.NOTSET)
        shutil.rmtree(scratch, ignore_errors=True)


# ----------------------------------------------------------------------------------------
# oracle: direct recursive evaluation (independent of the model)
# ----------------------------------------------------------------------------------------

def _eval(v, scope_path, env, site=None, errors=None, runtime=None):
    """value written inside the workflow instance `scope_path` -> list of ('l', text) | ('r', abs path tuple, method)
    | ('v', token of a non-string value).  `%(p)s` as the whole value hands the value on as it is; inside a
    longer string a number is embedded as its text and a dictionary is a mistake of the field at `site`."""
    if len(v) == 1 and "p" in v[0]:
        if v[0]["p"] not in env:
            if runtime is not None and v[0]["p"] == REPLICA:
                runtime.append(REPLICA)
                return [("l", "%(replica)s")]
            raise KeyError(v[0]["p"])
        return list(env[v[0]["p"]])
    out = []
    for t in v:
        if "l" in t:
            out.append(("l", t["l"]))
        elif "v" in t:
            out.append(("v", t))
        elif "p" in t:
            if t["p"] not in env:
                if runtime is not None and t["p"] == REPLICA:
                    # inside command.arguments `%(replica)s` is the replica index the runtime supplies to a
                    # replicated component (whether the component is one is decided by the caller)
                    runtime.append(REPLICA)
                    out.append(("l", "%(replica)s"))
                    continue
                raise KeyError(t["p"])
            for x in env[t["p"]]:
                if x[0] == "v":
                    if isinstance(x[1]["v"], (dict, list)):
                        if errors is not None:
                            errors.append(site)
                        out.append(("l", "(dictionary)"))
                    else:
                        out.append(("l", scalar_text(x[1])))
                else:
                    out.append(x)
        elif "r" in t:
            loc = tuple(t["r"])
            if not (loc and loc[0] == ENTRY):
                loc = tuple(scope_path) + loc
            out.append(("r", loc, t.get("m")))
        else:
            if out and out[-1][0] == "r" and out[-1][2] is None:
                out[-1] = ("r", out[-1][1] + tuple(t["s"]), t.get("m"))
            else:
                out.append(("l", tok_text(t)))
    # a reference without method directly followed by a suffix that came out of a parameter
    merged = []
    for x in out:
        merged.append(x)
    return merged


def expected(ns, errors=None):
    """-> list of {path, step, toks, env} for every component step reachable from the entrypoint; the truncated
    locations of the fields that misuse a non-string value are appended to `errors`"""
    by_name = {}
    for t in sorted(ns["templates"], key=lambda t: (t["wf"], t["idx"])):
        by_name.setdefault(t["name"], t)
    insts = []
    if errors is None:
        errors = []

    def bind(callee, args, scope_path, env, site):
        new = {}
        given = dict((n, v) for n, v in args)
        for p in callee["params"]:
            if p["name"] in given:
                new[p["name"]] = _eval(given[p["name"]], scope_path, env, site, errors)
            elif p["default"] is not None:
                new[p["name"]] = _eval(p["default"], scope_path, env, site, errors)
        return new

    def go(t, path, env, depth, site=None):
        if depth > 12:
            raise RecursionError()
        if not t["wf"]:
            here = site or ["components", t["idx"], None]
            cenv = None
            if t.get("env"):
                cenv = env.get(t["env"])
                ok = cenv is not None and len(cenv) == 1 and (
                    (cenv[0][0] == "v" and isinstance(cenv[0][1]["v"], dict)) or cenv[0] == ("l", "none"))
                if not ok:
                    errors.append(here)
                    cenv = "invalid"
            runtime = []
            toks = _eval(t["args"], path[:-1], env, ["components", t["idx"], None], errors, runtime)
            insts.append({"path": tuple(path), "step": path[-1], "site": site, "env": cenv, "toks": toks,
                          "tidx": t["idx"], "penv": env, "uses_replica": bool(runtime),
                          "declares_replica": any(p["name"] == REPLICA for p in t["params"]),
                          "replicate": t.get("replicate") not in (None, 0), "aggregate": bool(t.get("aggregate"))})
            return
        steps = dict((s, tn) for s, tn in t["steps"])
        for j, e in enumerate(t["execute"]):
            callee = by_name[steps[e["target"]]]
            here = ["workflows", t["idx"], j]
            go(callee, path + [e["target"]], bind(callee, e["args"], path, env, here), depth + 1, here)

    root = by_name[ns["entry"]]
    # the call chain of an entry parameter starts at the user variables: user variable, else the argument of
    # entrypoint.execute[0], else the declared default
    given = dict((n, v) for n, v in ns["entryArgs"])
    given.update(dict((n, v) for n, v in ns.get("userVars", [])))
    go(root, [ENTRY], bind(root, list(given.items()), [], {}, ["entrypoint"]), 0)
    paths = [i["path"] for i in insts]
    for i in insts:
        prods = []
        for x in i["toks"]:
            if x[0] == "r":
                cands = [p for p in paths if x[1][:len(p)] == p]
                prods.append(cands[0] if len(cands) == 1 else None)
        i["producers"] = prods
        # the complete output references in the values of the component's parameters (whether or not the parameter
        # is interpolated into the arguments): the component consumes them too
        prefs, pprods = [], []
        for val in i["penv"].values():
            for x in val:
                if x[0] == "r" and x[2] is not None:
                    cands = [p for p in paths if x[1][:len(p)] == p]
                    prefs.append(x)
                    pprods.append(cands[0] if len(cands) == 1 else None)
        i["param_refs"] = prefs
        i["param_producers"] = pprods
        # a partial reference (no :method) is only legal when the arguments complete it: as a parameter value that no
        # reference of the arguments completes, or left partial inside the arguments, it is a mistake of the instance
        completed = [x[1] for x in i["toks"] if x[0] == "r" and x[2] is not None]
        dangling = [x for val in i["penv"].values() for x in val if x[0] == "r" and x[2] is None and x[1] not in completed]
        if dangling or any(x[0] == "r" and x[2] is None for x in i["toks"]):
            errors.append(i["site"] or ["components", i["tidx"], None])
    # replication: a component is replicated when it asks for it, or when it does not aggregate and consumes (through
    # the output references in its parameter values) a replicated component
    by_path = {i["path"]: i for i in insts}
    for i in insts:
        ups = []
        for val in i["penv"].values():
            for x in val:
                if x[0] == "r":
                    cands = [p for p in paths if x[1][:len(p)] == p]
                    if len(cands) == 1:
                        ups.append(cands[0])
        i["upstream"] = ups
        i["replica"] = i["replicate"]
    changed = True
    while changed:
        changed = False
        for i in insts:
            if not i["replica"] and not i["aggregate"] and any(by_path[p]["replica"] for p in i["upstream"]):
                i["replica"] = changed = True
    for i in insts:
        if i["uses_replica"] and not i["replica"]:
            errors.append(["components", i["tidx"], None])  # an unknown parameter of the component
        if i["replica"] and i["declares_replica"]:
            errors.append(["components", i["tidx"], None])  # the name is reserved in a replicated component
    return insts


def _regex_for(inst):
    parts = []
    n = 0
    for x in inst["toks"]:
        if x[0] == "l":
            parts.append(re.escape(x[1]))
        elif x[0] == "v":
            parts.append(re.escape(canon(x[1]["v"]) if isinstance(x[1]["v"], (dict, list)) else scalar_text(x[1])))
        else:
            prod = inst["producers"][n]
            rest = x[1][len(prod):]
            tail = ("/" + "/".join(rest) if rest else "") + ":" + (x[2] or "")
            parts.append(r"stage(?P<s%d>[0-9]+)\.(?P<r%d>[A-Za-z0-9._-]+?)" % (n, n) + re.escape(tail))
            n += 1
    return re.compile("".join(parts))


def split_stage(step):
    """a step called stage<N>.<name> asks for the component <name> in stage N; any other step for stage 0"""
    m = re.fullmatch(r"stage([0-9]+)\.(.+)", step)
    return (int(m.group(1)), m.group(2)) if m else (0, step)


def _want_env(e):
    if e["env"] is None:
        return None
    if e["env"] == [("l", "none")]:
        return "none"
    return canon(e["env"][0][1]["v"])


def oracle_valid(ns, out):
    """None, or (slug, detail) when the property fails on the implementation's answer for a valid namespace"""
    if "exception" in out:
        return ("valid-namespace-raises-" + out["exception"], out)
    if "invalid" in out:
        return ("valid-namespace-rejected", out)
    errs = []
    exp = expected(ns, errs)
    if errs:
        raise KeyError("the valid stream misuses a non-string value at %r" % errs)
    comps = out["components"]
    ids = [(c["stage"], c["name"]) for c in comps]
    if len(set(ids)) != len(ids):
        return ("component-names-not-unique", ids)
    if len(comps) != len(exp):
        return ("wrong-number-of-components", {"expected": len(exp), "got": len(comps)})
    for c in comps:
        if "%(" in c["args"].replace("%(replica)s", ""):
            return ("parameter-reference-left", c)
        if "<" in c["args"] or ">" in c["args"]:
            return ("output-reference-left", c)
    if any(None in e["producers"] or None in e["param_producers"] for e in exp):
        return None  # generator produced a dangling reference on purpose: handled by the invalid oracle
    # bijection between expected instances and produced components
    cands = []
    for e in exp:
        rg = _regex_for(e)
        cs = []
        stage, base = split_stage(e["step"])
        for k, c in enumerate(comps):
            if not (c["stage"] == stage and (c["name"] == base or c["name"].startswith(base + "-"))):
                continue
            m = rg.fullmatch(c["args"])
            if m and c.get("env") == _want_env(e):
                cs.append((k, m.groupdict()))
        if not cs and any(c["stage"] == stage and (c["name"] == base or c["name"].startswith(base + "-"))
                          and rg.fullmatch(c["args"]) for c in comps):
            return ("component-not-bound-to-the-environment-of-its-call-chain",
                    {"instance": list(e["path"]), "expected_environment": _want_env(e),
                     "components_with_the_bound_arguments": [c for c in comps if rg.fullmatch(c["args"])]})
        if not cs:
            return ("no-component-with-the-bound-arguments", {"instance": list(e["path"]), "expected_tokens": e["toks"],
                                                              "expected_environment": _want_env(e),
                                                              "components": comps})
        cands.append(cs)
    order = sorted(range(len(exp)), key=lambda i: len(cands[i]))
    assign = {}
    used = set()
    budget = [20000]
    path_index = {e["path"]: i for i, e in enumerate(exp)}

    def consistent():
        for i, (k, groups) in assign.items():
            for n, prod in enumerate(exp[i]["producers"]):
                j = path_index[prod]
                if j in assign and (comps[assign[j][0]]["name"] != groups["r%d" % n]
                                    or comps[assign[j][0]]["stage"] != int(groups["s%d" % n])):
                    return False
        return True

    def refs_mismatch():
        """references list = the references of the arguments + the complete references in the values of the parameters
        (a reference that is only handed over as a parameter, e.g. `<producer>/file:copy`, is consumed as well)"""
        for i, (k, groups) in assign.items():
            want = set()
            for x, prod in zip(exp[i]["param_refs"], exp[i]["param_producers"]):
                pc = comps[assign[path_index[prod]][0]]
                rest = x[1][len(prod):]
                want.add("stage%d.%s%s:%s" % (pc["stage"], pc["name"], "/" + "/".join(rest) if rest else "", x[2]))
            n = 0
            for x in exp[i]["toks"]:
                if x[0] == "r":
                    prod = exp[i]["producers"][n]
                    rest = x[1][len(prod):]
                    want.add("stage%d.%s%s:%s" % (int(groups["s%d" % n]), groups["r%d" % n],
                                                  "/" + "/".join(rest) if rest else "", x[2]))
                    n += 1
            if set(comps[k]["refs"]) != want:
                return {"instance": list(exp[i]["path"]), "component": comps[k], "expected": sorted(want)}
        return None

    with_refs = [False]
    first_mismatch = []

    def search(pos):
        budget[0] -= 1
        if budget[0] < 0:
            return None
        if pos == len(order):
            if not with_refs[0]:
                return True
            bad = refs_mismatch()
            if bad and not first_mismatch:
                first_mismatch.append(bad)
            return not bad
        i = order[pos]
        for k, groups in cands[i]:
            if k in used:
                continue
            assign[i] = (k, groups)
            used.add(k)
            if consistent():
                r = search(pos + 1)
                if r or r is None:
                    return r
            used.discard(k)
            del assign[i]
        return False

    r = search(0)
    if r is None:
        return None  # ambiguous beyond the budget: not decided by the oracle
    if not r:
        return ("dataflow-or-bindings-differ", {"expected": [{"path": list(e["path"]), "toks": e["toks"],
                                                              "producers": [list(p) for p in e["producers"]]} for e in exp],
                                                "components": comps})
    # some consistent assignment must also explain the references lists (instances of one template whose arguments
    # have the same text differ only in the references they received as parameters)
    assign.clear()
    used.clear()
    with_refs[0] = True
    r = search(0)
    if r is None:
        return None
    if not r:
        return ("references-differ-from-output-references", first_mismatch[0])
    if out["validate"]:
        return ("flowir-validator-rejects-result", out["validate"])
    return None



def oracle_invalid(ns, fault, out):
    if "exception" in out:
        return ("invalid-namespace-" + ("hangs" if out["exception"] == "HANG" else "raises-" + out["exception"]), out)
    if "components" in out:
        return ("invalid-namespace-accepted", {"fault": fault, "components": out["components"]})
    locs = [trunc_loc(l) for l in out["invalid"]]
    accept = [fault["loc"]] if fault.get("loc") else []
    if fault["kind"] in VALUE_FAULTS + REPLICA_FAULTS + REF_FAULTS:
        # a non-string value in the wrong place is a mistake of the field(s) that misuse it; `%(replica)s` outside a
        # replicated component / a parameter called replica inside one is a mistake of the component
        errs = []
        try:
            expected(ns, errs)
        except (KeyError, RecursionError):
            pass
        accept += errs
    if fault["kind"] in ("unknown-nested-step-in-reference", "reference-to-workflow-step"):
        # a broken reference that travels through parameters surfaces where a component consumes it
        try:
            accept += [e["site"] for e in expected(ns) if None in e["producers"] or None in e["param_producers"]]
        except (KeyError, RecursionError):
            pass
    if not any(a in locs for a in accept):
        return ("error-does-not-list-the-offending-location", {"fault": fault, "listed": out["invalid"]})
    return None


VALUE_FAULTS = ("dictionary-embedded-in-execute-argument", "dictionary-embedded-in-component-arguments",
                "dictionary-given-for-a-text-parameter", "text-or-number-given-as-environment",
                "unknown-parameter-as-environment")
REPLICA_FAULTS = ("replica-reference-in-a-component-that-is-not-replicated",
                  "replicated-component-declares-a-parameter-called-replica",
                  "replication-switched-off-upstream-of-a-replica-reference",
                  "aggregation-inserted-upstream-of-a-replica-reference")
REF_FAULTS = ("partial-reference-never-completed",)
CONF_ONLY_FAULTS = ("list-valued-argument", "unknown-user-variable", "parameter-reference-in-user-variable")

# ----------------------------------------------------------------------------------------
# generator
# ----------------------------------------------------------------------------------------

def lit(rng, pad=True):
    s = " ".join(rng.choice(WORDS) for _ in range(rng.randint(1, 2)))
    return {"l": " " + s + " " if pad else s}


def spelled(rng, loc, m, in_workflow):
    t = {"r": list(loc), "m": m}
    k = rng.randint(1, len(loc))
    style = rng.random()
    if in_workflow and style < 0.15:
        t["k"] = "q%d" % k
    elif style < 0.3:
        t["k"] = "t%d" % k
    else:
        t["k"] = k
    return t


def number(rng):
    return {"v": rng.choice(NUMBERS)}


def dictionary(rng):
    return {"v": copy.deepcopy(rng.choice(_FAMILY[0] if rng.random() < 0.75 else DICTS))}


def lit_default(rng):
    return [number(rng)] if rng.random() < 0.25 else [lit(rng, pad=False)]


def gen_component(rng, name, idx, tagged):
    params = []
    args = [lit(rng)]
    env = None
    if tagged:
        params.append({"name": "tag", "default": None, "kind": "lit"})
        args += [{"p": "tag"}, lit(rng)]
    if rng.random() < 0.35:
        # the component takes its environment (a dictionary of variables, or the literal none) as a parameter
        env = "env"
        params.append({"name": "env", "kind": "dict",
                       "default": [dictionary(rng)] if rng.random() < 0.3 else None})
    for i in range(rng.randint(0, 3)):
        kind = rng.choice(["lit", "lit", "ref", "pref", "cref"])
        pn = "%s%d" % ({"lit": "v", "ref": "in", "pref": "src", "cref": "staged"}[kind], i)
        default = None
        if kind == "lit" and rng.random() < 0.5:
            default = lit_default(rng)
        params.append({"name": pn, "default": default, "kind": kind})
        if kind == "cref":
            # a complete reference that is NOT interpolated into the arguments: the component still consumes it
            if rng.random() < 0.5:
                args += [{"l": rng.choice(["out.txt", "f.csv", "molecule.inp"])}, lit(rng)]
        elif kind == "pref":
            args += [{"p": pn}, {"s": [], "m": rng.choice(METHODS)}, lit(rng)]
        else:
            args += [{"p": pn}, lit(rng)]
            if kind == "lit" and rng.random() < 0.2:
                args += [{"p": pn}, lit(rng)]  # used twice
    rng.shuffle(params)
    # workflowAttributes: the component asks to be replicated / ends the replication of what it consumes
    replicate, aggregate = None, False
    r = rng.random()
    if r < 0.3:
        replicate = rng.choice(REPLICATE_VALUES)
    elif r < 0.45 and any(p["kind"] in ("ref", "pref", "cref") for p in params):
        aggregate = True
    return {"name": name, "wf": False, "idx": idx, "params": params, "args": args, "env": env,
            "replicate": replicate, "aggregate": aggregate}


def _insertion_points(args, lo):
    """positions of command.arguments where text can be inserted without separating a partial reference from the
    suffix that completes it"""
    return [k for k in range(lo, len(args) + 1) if k == len(args) or "s" not in args[k]]


def stages_contiguous(ns):
    """the stages asked for by the component steps are 0..n-1 (FlowIR numbers its stages without gaps)"""
    try:
        stages = {split_stage(i["step"])[0] for i in expected(strip_kinds(ns), [])}
    except (KeyError, RecursionError):
        return True
    return stages == set(range(len(stages)))


def replica_status(ns):
    """component template name -> set of the answers (replicated?) over its instances, by the independent evaluation"""
    status = {}
    idx_to_name = {t["idx"]: t["name"] for t in ns["templates"] if not t["wf"]}
    for i in expected(strip_kinds(ns), []):
        status.setdefault(idx_to_name[i["tidx"]], set()).add(bool(i["replica"]))
    return status


def decorate_replica(rng, ns):
    """use `%(replica)s` where it is legal: in the arguments of component templates all of whose instances are
    replicated; a template none of whose instances is replicated may instead have an ordinary parameter that
    happens to be called replica (with a default)"""
    try:
        status = replica_status(ns)
    except (KeyError, RecursionError):
        return
    for t in ns["templates"]:
        if t["wf"] or t["name"] not in status:
            continue
        if status[t["name"]] == {True} and rng.random() < 0.7:
            at = rng.choice(_insertion_points(t["args"], 1))
            t["args"] = t["args"][:at] + [{"p": REPLICA}, lit(rng)] + t["args"][at:]
        elif status[t["name"]] == {False} and rng.random() < 0.12:
            t["params"].append({"name": REPLICA, "default": lit_default(rng), "kind": "lit"})
            t["args"] = t["args"] + [{"p": REPLICA}, lit(rng)]


def component_paths(t, by_name):
    """relative paths (lists of step names) to the component steps inside an instance of t"""
    if not t["wf"]:
        return [[]]
    out = []
    for s, tn in t["steps"]:
        for p in component_paths(by_name[tn], by_name):
            out.append([s] + p)
    return out


def gen_workflow(rng, name, idx, pool, by_name, tagged, must_use=None, root=False):
    nparams = rng.randint(0, 3)
    params = []
    if tagged:
        params.append({"name": "tag", "default": None, "kind": "lit"})
    for i in range(nparams):
        kind = rng.choice(["lit", "lit", "dict"]) if root else rng.choice(["lit", "lit", "ref", "pref", "dict"])
        pn = "%s%d" % ({"lit": "w", "ref": "rin", "pref": "rsrc", "dict": "wenv"}[kind], i)
        default = lit_default(rng) if kind == "lit" and rng.random() < 0.5 else None
        if kind == "dict" and rng.random() < 0.3:
            default = [dictionary(rng)]
        params.append({"name": pn, "default": default, "kind": kind})
    nsteps = rng.randint(1, 4)
    names = rng.sample(STEP_POOL, nsteps)
    steps = []
    for i, s in enumerate(names):
        tn = must_use if (i == 0 and must_use) else rng.choice(pool)
        steps.append([s, tn])
    execute = []
    for i, (s, tn) in enumerate(steps):
        callee = by_name[tn]
        args = []
        for p in callee["params"]:
            kind = p["kind"]
            if p["name"] == "tag":
                args.append(["tag", [{"p": "tag"}, {"l": "." + s}]])
                continue
            if kind == "lit":
                if p["default"] is not None and rng.random() < 0.5:
                    continue  # defaulted
                own = [q for q in params if q["kind"] == "lit" and q["name"] != "tag"]
                r = rng.random()
                if own and r < 0.4:
                    v = [{"p": rng.choice(own)["name"]}]  # forwarded as the whole value (keeps the type of a number)
                elif own and r < 0.6:
                    v = [{"l": rng.choice(WORDS) + "-"}, {"p": rng.choice(own)["name"]}, {"l": "_" + rng.choice(WORDS)}]
                elif r < 0.72:
                    v = [number(rng)]  # a number / boolean
                else:
                    v = [lit(rng, pad=False)]  # literal / overriding the default
                args.append([p["name"], v])
                continue
            if kind == "dict":
                if p["default"] is not None and rng.random() < 0.4:
                    continue  # defaulted
                own = [q for q in params if q["kind"] == "dict"]
                r = rng.random()
                if own and r < 0.65:
                    v = [{"p": rng.choice(own)["name"]}]  # a dictionary can only be forwarded as the whole value
                elif r < 0.92:
                    v = [dictionary(rng)]
                else:
                    v = [{"l": "none"}]  # the literal none: empty environment
                args.append([p["name"], v])
                continue
            # a reference: to an earlier sibling, or forwarded from an own parameter
            sources = []
            for j in range(i):
                for cp in component_paths(by_name[steps[j][1]], by_name):
                    sources.append([steps[j][0]] + cp)
            own_ref = [q for q in params if q["kind"] == "ref"]
            own_pref = [q for q in params if q["kind"] == "pref"]
            choices = []
            if sources:
                choices += ["sibling"] * 3
            complete = kind in ("ref", "cref")
            methods = METHODS if kind == "ref" else STAGE_METHODS
            if complete and own_ref:
                choices.append("fwd")
            if own_pref:
                choices += ["fwd-partial"] * 2
            if not choices:
                choices = ["none"]
            ch = rng.choice(choices)
            path = rng.choice([[], [], ["out.txt"], ["d", "f.csv"]])
            if ch == "sibling":
                src = rng.choice(sources)
                if complete:
                    v = [spelled(rng, src + path, rng.choice(methods), True)]
                else:
                    v = [spelled(rng, src, None, True)]
                    v[0]["k"] = len(src) if not isinstance(v[0]["k"], str) else v[0]["k"][0] + str(len(src))
            elif ch == "fwd":
                v = [{"p": rng.choice(own_ref)["name"]}]
            elif ch == "fwd-partial":
                q = rng.choice(own_pref)["name"]
                if complete:
                    v = [{"p": q}, {"s": path, "m": rng.choice(methods)}]
                else:
                    v = [{"p": q}]
            else:
                v = None
            if v is None:
                # no producer available: the callee cannot be given a reference; give it a literal file instead
                v = [{"l": "file.txt"}] if complete else None
                if v is None:
                    return None
            args.append([p["name"], v])
        rng.shuffle(args)
        execute.append({"target": s, "args": args})
    rng.shuffle(execute)
    return {"name": name, "wf": True, "idx": idx, "params": params, "steps": steps, "execute": execute}


def gen_namespace(rng, depth):
    for _attempt in range(400):
        _FAMILY[0] = rng.choice(DICT_FAMILIES)
        tagged = rng.random() < 0.5
        by_name = {}
        levels = [[]]
        ncomp = rng.randint(1, 3)
        for i in range(ncomp):
            t = gen_component(rng, "comp-%s" % "abc"[i], i, tagged)
            by_name[t["name"]] = t
            levels[0].append(t["name"])
        widx = 0
        ok = True
        for lv in range(1, depth + 1):
            levels.append([])
            pool = [n for l in levels[:lv] for n in l]
            for i in range(rng.randint(1, 2) if lv < depth else 1):
                name = "wf%d-%s" % (lv, "xy"[i]) if (lv < depth or rng.random() < 0.7) else "wf%d%s%d" % (lv, "xy"[i], lv)
                t = gen_workflow(rng, name, widx, pool, by_name, tagged, must_use=rng.choice(levels[lv - 1]), root=(lv == depth))
                if t is None:
                    ok = False
                    break
                by_name[name] = t
                levels[lv].append(name)
                widx += 1
            if not ok:
                break
        if not ok:
            continue
        root = by_name[levels[depth][0]]
        # the entry template takes only literal parameters and dictionaries
        if any(p["kind"] not in ("lit", "dict") for p in root["params"]):
            continue
        entry_args = []
        for p in root["params"]:
            if p["name"] == "tag":
                entry_args.append(["tag", [{"l": "T"}]])
            elif p["default"] is None or rng.random() < 0.5:
                if p["kind"] == "dict":
                    entry_args.append([p["name"], [dictionary(rng)]])
                else:
                    entry_args.append([p["name"], [number(rng)] if rng.random() < 0.2 else [lit(rng, pad=False)]])
        ns = {"templates": list(by_name.values()), "entry": root["name"], "entryArgs": entry_args}
        prune(ns)
        if not stages_contiguous(ns):
            continue
        decorate_replica(rng, ns)
        return ns
    raise RuntimeError("generator could not build a namespace")


def with_user_variables(rng, ns):
    """a conf-path case: the namespace is loaded as a package together with 0-2 user variable files whose
    `global` sections name parameters of the entry template (passed by the entrypoint, or only defaulted)"""
    ns = copy.deepcopy(ns)
    root = [t for t in ns["templates"] if t["name"] == ns["entry"]][0]
    names = [p["name"] for p in root["params"] if p.get("kind", "lit") == "lit"]
    rng.shuffle(names)
    chosen = names[:rng.randint(0, len(names))] if rng.random() < 0.85 else []
    given = {a[0] for a in ns["entryArgs"]}
    only_default = [n for n in names if n not in given]
    if chosen and only_default and not set(chosen) & set(only_default) and rng.random() < 0.7:
        chosen.append(rng.choice(only_default))  # a parameter the entrypoint leaves to its declared default
    uvars = []
    for n in chosen:
        r = rng.random()
        if r < 0.3:
            v = [dict(number(rng), raw=True)]
        else:
            v = [{"l": "user-" + rng.choice(WORDS)}]
        uvars.append([n, v])
    nfiles = rng.choice([1, 1, 2]) if uvars else rng.choice([0, 0, 1])
    files = [[] for _ in range(nfiles)]
    for n, _v in uvars:
        files[rng.randrange(nfiles)].append(n)
    ns["userVars"] = uvars
    ns["varFiles"] = files
    ns["path"] = "conf"
    return ns


def prune(ns):
    by_name = {t["name"]: t for t in ns["templates"]}
    seen = set()
    todo = [ns["entry"]]
    while todo:
        n = todo.pop()
        if n in seen or n not in by_name:
            continue
        seen.add(n)
        if by_name[n]["wf"]:
            todo += [tn for _s, tn in by_name[n]["steps"]]
    keep = [t for t in ns["templates"] if t["name"] in seen]
    for wf in (True, False):
        k = 0
        for t in keep:
            if t["wf"] == wf:
                t["idx"] = k
                k += 1
    ns["templates"] = keep


def strip_kinds(ns):
    ns = copy.deepcopy(ns)
    for t in ns["templates"]:
        for p in t["params"]:
            p.pop("kind", None)
    return ns


# ----------------------------------------------------------------------------------------
# single-fault mutations
# ----------------------------------------------------------------------------------------

STRUCTURAL_FAULTS = ("unknown-template", "unknown-argument", "unknown-parameter-in-execute",
                     "unknown-parameter-in-component", "missing-argument", "unknown-step-in-reference",
                     "unknown-nested-step-in-reference", "reference-to-workflow-step", "cycle",
                     "step-name-ends-with-digit", "missing-execute", "unknown-entry-template",
                     "missing-entry-argument", "unknown-entry-argument")


def mutate(rng, ns, kind=None):
    """-> (mutated namespace, fault) or None.  fault = {kind, loc (truncated location that must be listed, or None
    when the offending fields are those found by the independent evaluation)}"""
    r = _mutate(rng, ns, kind)
    if r is not None and r[1]["kind"] in VALUE_FAULTS + REPLICA_FAULTS + REF_FAULTS:
        errs = []
        try:
            expected(strip_kinds(r[0]), errs)
        except (KeyError, RecursionError):
            return None
        if not errs:
            return None  # e.g. the "dictionary" is the literal none, or the value never reaches a use: still valid
    return r


def _mutate(rng, ns, kind=None):
    ns = copy.deepcopy(ns)
    wfs = [t for t in ns["templates"] if t["wf"]]
    comps = [t for t in ns["templates"] if not t["wf"]]
    by_name = {t["name"]: t for t in ns["templates"]}
    kinds = list(STRUCTURAL_FAULTS) + list(VALUE_FAULTS) * 2 + list(REPLICA_FAULTS) * 2 + list(REF_FAULTS) * 2
    if ns.get("path") == "conf":
        kinds += list(CONF_ONLY_FAULTS) * 4
    kind = kind or rng.choice(kinds)
    if kind in CONF_ONLY_FAULTS and ns.get("path") != "conf":
        return None
    if not wfs and kind not in ("unknown-parameter-in-component", "unknown-entry-template", "missing-entry-argument",
                                "unknown-entry-argument", "dictionary-embedded-in-component-arguments",
                                "unknown-parameter-as-environment", "unknown-user-variable",
                                "parameter-reference-in-user-variable") + REPLICA_FAULTS + REF_FAULTS:
        return None
    root = by_name[ns["entry"]]
    if kind in REPLICA_FAULTS:
        try:
            status = replica_status(ns)
        except (KeyError, RecursionError):
            return None
        uses = [c for c in comps if any(t.get("p") == REPLICA for t in c["args"])
                and not any(p["name"] == REPLICA for p in c["params"])]
        if kind == "replica-reference-in-a-component-that-is-not-replicated":
            cands = [c for c in comps if False in status.get(c["name"], ()) and c not in uses
                     and not any(p["name"] == REPLICA for p in c["params"])]
            if not cands:
                return None
            c = rng.choice(cands)
            at = rng.choice(_insertion_points(c["args"], 0))
            c["args"] = c["args"][:at] + [{"p": REPLICA}, lit(rng)] + c["args"][at:]
        elif kind == "replicated-component-declares-a-parameter-called-replica":
            cands = [c for c in comps if True in status.get(c["name"], ())
                     and not any(p["name"] == REPLICA for p in c["params"])]
            if not cands:
                return None
            c = rng.choice(cands)
            c["params"].append({"name": REPLICA, "default": lit_default(rng), "kind": "lit"})
            if rng.random() < 0.5 and c not in uses:
                c["args"] = c["args"] + [{"p": REPLICA}, lit(rng)]
        elif kind == "replication-switched-off-upstream-of-a-replica-reference":
            cands = [c for c in comps if c.get("replicate") not in (None, 0)]
            if not cands or not uses:
                return None
            c = rng.choice(cands)
            c["replicate"] = rng.choice([None, 0])
        else:
            cands = [c for c in comps if not c.get("aggregate") and c.get("replicate") in (None, 0)
                     and any(p.get("kind") in ("ref", "pref", "cref") for p in c["params"])]
            if not cands or not uses:
                return None
            rng.choice(cands)["aggregate"] = True
        return ns, {"kind": kind, "loc": None}
    if kind in REF_FAULTS:
        # the component no longer completes the partial reference it receives: the `:method` suffix (or the whole use
        # of the parameter) disappears from command.arguments
        cands = [(c, k) for c in comps for k, t in enumerate(c["args"][:-1])
                 if "p" in t and "s" in c["args"][k + 1] and any(p["name"] == t["p"] and p.get("kind") == "pref" for p in c["params"])]
        if not cands:
            return None
        c, k = rng.choice(cands)
        if rng.random() < 0.5:
            c["args"] = c["args"][:k] + c["args"][k + 2:]
        else:
            c["args"] = c["args"][:k + 1] + c["args"][k + 2:]
        return ns, {"kind": kind, "loc": None}
    if kind == "unknown-user-variable":
        ns.setdefault("userVars", []).append(["nosuch", [{"l": "x"}]])
        ns.setdefault("varFiles", [])
        if not ns["varFiles"]:
            ns["varFiles"].append([])
        rng.choice(ns["varFiles"]).append("nosuch")
        return ns, {"kind": kind, "loc": ["entrypoint"]}
    if kind == "parameter-reference-in-user-variable":
        cands = [p["name"] for p in root["params"] if p.get("kind", "lit") == "lit"]
        if len(cands) < 1:
            return None
        n = rng.choice(cands)
        # (not `replica`: the assumptions keep %(replica)s inside command.arguments)
        others = [p["name"] for p in root["params"] if p["name"] != REPLICA]
        if not others:
            return None
        other = rng.choice(others)
        ns["userVars"] = [a for a in ns.get("userVars", []) if a[0] != n] + [[n, [{"l": "u-"}, {"p": other}]]]
        files = ns.setdefault("varFiles", [])
        for f in files:
            if n in f:
                f.remove(n)
        if not files:
            files.append([])
        rng.choice(files).append(n)
        return ns, {"kind": kind, "loc": ["entrypoint"]}
    if kind == "dictionary-embedded-in-component-arguments":
        cands = [c for c in comps if any(p.get("kind") == "dict" for p in c["params"])]
        if not cands:
            return None
        c = rng.choice(cands)
        q = rng.choice([p["name"] for p in c["params"] if p.get("kind") == "dict"])
        c["args"] = c["args"] + [{"p": q}, lit(rng)]
        return ns, {"kind": kind, "loc": ["components", c["idx"], None]}
    if kind == "unknown-parameter-as-environment":
        c = rng.choice(comps)
        c["env"] = "nosuch"
        return ns, {"kind": kind, "loc": None}
    if kind == "unknown-entry-template":
        ns["entry"] = "nosuch-template"
        return ns, {"kind": kind, "loc": ["entrypoint"]}
    if kind == "unknown-entry-argument":
        ns["entryArgs"].append(["nosuch", [{"l": "x"}]])
        return ns, {"kind": kind, "loc": ["entrypoint"]}
    if kind == "missing-entry-argument":
        supplied = {a[0] for a in ns.get("userVars", [])}  # a user variable can stand in for the argument
        req = [p["name"] for p in root["params"] if p["default"] is None and p["name"] not in supplied]
        if not req:
            return None
        n = rng.choice(req)
        ns["entryArgs"] = [a for a in ns["entryArgs"] if a[0] != n]
        return ns, {"kind": kind, "loc": ["workflows" if root["wf"] else "components", root["idx"], None]}
    if kind == "unknown-parameter-in-component":
        c = rng.choice(comps)
        c["args"] = c["args"] + [{"p": "nosuch"}]
        return ns, {"kind": kind, "loc": ["components", c["idx"], None]}
    w = rng.choice(wfs)
    j = rng.randrange(len(w["execute"]))
    e = w["execute"][j]
    here = ["workflows", w["idx"], j]
    steps = dict((s, tn) for s, tn in w["steps"])
    if kind == "unknown-template":
        for st in w["steps"]:
            if st[0] == e["target"]:
                st[1] = "nosuch-template"
        return ns, {"kind": kind, "loc": here}
    if kind in ("dictionary-embedded-in-execute-argument", "dictionary-given-for-a-text-parameter",
                "text-or-number-given-as-environment", "list-valued-argument"):
        callee = by_name[steps[e["target"]]]
        want = "dict" if kind == "text-or-number-given-as-environment" else "lit"
        cands = [p for p in callee["params"] if p.get("kind") == want and p["name"] != "tag"]
        if not cands:
            return None
        pn = rng.choice(cands)["name"]
        if kind == "dictionary-embedded-in-execute-argument":
            own = [q["name"] for q in w["params"] if q.get("kind") == "dict"]
            if not own:
                return None
            q = rng.choice(own)
            v = rng.choice([[{"l": "settings="}, {"p": q}], [{"p": q}, {"l": ".json"}],
                            [{"l": "a="}, {"p": q}, {"l": " b"}], [{"p": q}, {"p": q}]])
            loc = here
        elif kind == "dictionary-given-for-a-text-parameter":
            v = [dictionary(rng)]
            loc = None
        elif kind == "text-or-number-given-as-environment":
            v = rng.choice([[{"l": "fast"}], [number(rng)], [{"l": "environment"}]])
            loc = None
        else:
            v = [{"v": [1, "two"]}]
            loc = here
        e["args"] = [a for a in e["args"] if a[0] != pn] + [[pn, v]]
        return ns, {"kind": kind, "loc": loc}
    if kind == "unknown-argument":
        e["args"].append(["nosuch", [{"l": "x"}]])
        return ns, {"kind": kind, "loc": here}
    if kind == "unknown-parameter-in-execute":
        if not e["args"]:
            return None
        a = rng.choice(e["args"])
        a[1] = a[1] + [{"p": "nosuch"}]
        return ns, {"kind": kind, "loc": here}
    if kind == "missing-argument":
        callee = by_name[steps[e["target"]]]
        req = [p["name"] for p in callee["params"] if p["default"] is None and any(a[0] == p["name"] for a in e["args"])]
        if not req:
            return None
        n = rng.choice(req)
        e["args"] = [a for a in e["args"] if a[0] != n]
        return ns, {"kind": kind, "loc": here}
    if kind in ("unknown-step-in-reference", "unknown-nested-step-in-reference", "reference-to-workflow-step"):
        cands = [(a, t) for a in e["args"] for t in a[1] if "r" in t]
        if kind != "unknown-step-in-reference":
            cands = [(a, t) for a, t in cands if by_name[steps[t["r"][0]]]["wf"]]
        if not cands:
            return None
        a, t = rng.choice(cands)
        if kind == "unknown-step-in-reference":
            t["r"][0] = "nosuch"
        elif kind == "unknown-nested-step-in-reference":
            t["r"] = [t["r"][0], "nosuch"]
            t["k"] = rng.choice([1, 2])
        else:
            t["r"] = [t["r"][0]]
            t["k"] = 1
        if t.get("m") is None:
            # a partial reference is only looked at where it is completed: make it complete here
            callee = by_name[steps[e["target"]]]
            p = [p for p in callee["params"] if p["name"] == a[0]][0]
            if p.get("kind") == "pref":
                return None
            t["m"] = "ref"
        return ns, {"kind": kind, "loc": here}
    if kind == "cycle":
        for st in w["steps"]:
            if st[0] == e["target"]:
                st[1] = rng.choice([w["name"], ns["entry"]])
                if st[1][-1].isdigit():
                    return None  # pydantic refuses such a template name for a step (before the compiler runs)
        return ns, {"kind": kind, "loc": here}
    if kind == "step-name-ends-with-digit":
        callee = by_name[steps[e["target"]]]
        if callee["wf"]:
            return None
        old, new = e["target"], e["target"] + rng.choice("0123456789")
        if new in steps:
            return None
        for st in w["steps"]:
            if st[0] == old:
                st[0] = new
        for ex in w["execute"]:
            if ex["target"] == old:
                ex["target"] = new
            for a in ex["args"]:
                for t in a[1]:
                    if "r" in t and t["r"][0] == old:
                        t["r"][0] = new
        # references from enclosing workflows that pass through the renamed step: give up on this mutation
        for other in wfs:
            for ex in other["execute"]:
                for a in ex["args"]:
                    for t in a[1]:
                        if "r" in t and old in t["r"][1:]:
                            return None
        return ns, {"kind": kind, "loc": here}
    if kind == "missing-execute":
        if len(w["execute"]) < 2:
            return None
        tgt = e["target"]
        # nobody may reference the removed step
        for ex in w["execute"]:
            for a in ex["args"]:
                for t in a[1]:
                    if "r" in t and t["r"][0] == tgt:
                        return None
        del w["execute"][j]
        return ns, {"kind": kind, "loc": ["workflows", w["idx"], None]}
    return None


# ----------------------------------------------------------------------------------------
# comparison
# ----------------------------------------------------------------------------------------

def otoks_text(toks):
    out = []
    for t in toks:
        if "l" in t:
            out.append(t["l"])
        else:
            out.append("stage%d." % t["st"] + t["d"] + ("/" + "/".join(t["f"]) if t["f"] else "") + ":" + t["m"])
    return out


def model_view(m):
    if m.get("out_of_fuel"):
        return {"model": "out-of-fuel"}
    if "invalid" in m:
        locs = []
        for e in m["invalid"]:
            locs.append(["entrypoint"] if e["k"] == "entrypoint" else [e["k"], e["i"], e["e"]])
        return {"invalid": sorted(set(map(lambda l: tuple(map(str, l)), locs)))}
    comps = []
    for c in m["ok"]:
        env = c.get("env") or {"k": "unset"}
        comps.append([c["stage"], c["name"], "".join(otoks_text(c["args"])), sorted(set(otoks_text(c["refs"]))),
                      {"unset": None, "none": "none"}.get(env["k"], env.get("d"))])
    return {"components": sorted(comps, key=canon)}


def impl_view(out):
    if "exception" in out:
        return {"exception": out["exception"]}
    if "invalid" in out:
        return {"invalid": sorted(set(tuple(map(str, trunc_loc(l))) for l in out["invalid"]))}
    return {"components": sorted(([c["stage"], c["name"], c["args"], c["refs"], c.get("env")]
                                  for c in out["components"]), key=canon)}


def classify_name_collision(what, case, detail):
    """(a) old naming: some step is literally named like a generated `<step>-<roman>` name of another instance"""
    if what != "valid-namespace-raises-FlowIRComponentExists":
        return False
    return bool(case.get("old", {}).get("names_distinct") is False)


def classify_digit_step(what, case, detail):
    return what == "invalid-namespace-raises-AttributeError" and case.get("fault", {}).get("kind") == "step-name-ends-with-digit"


def classify_ref_to_workflow(what, case, detail):
    return what in ("invalid-namespace-hangs", "invalid-namespace-accepted") and case.get("fault", {}).get("kind") in (
        "unknown-nested-step-in-reference", "reference-to-workflow-step")


def classify_env_unknown(what, case, detail):
    """command.environment names a parameter the component does not have: KeyError after the error was recorded"""
    return what == "invalid-namespace-raises-KeyError" and case.get("fault", {}).get("kind") == "unknown-parameter-as-environment"


CLASSIFIERS = {
    "c06_step_named_like_generated_name": classify_name_collision,
    "c06_step_name_ends_with_digit": classify_digit_step,
    "c06_reference_into_workflow_without_component": classify_ref_to_workflow,
    "c06_unknown_parameter_as_environment": classify_env_unknown,
}


def _t(name, wf, idx, params, **kw):
    d = {"name": name, "wf": wf, "idx": idx, "params": [{"name": n, "default": dflt} for n, dflt in params]}
    d.update(kw)
    return d


def corpus():
    hi = [{"l": "hi"}]
    c = _t("comp", False, 0, [], args=hi)
    a = {"templates": [c,
                       _t("main", True, 0, [], steps=[["foo", "comp"], ["foo-I", "comp"], ["w", "inner"]],
                          execute=[{"target": "foo", "args": []}, {"target": "foo-I", "args": []}, {"target": "w", "args": []}]),
                       _t("inner", True, 1, [], steps=[["foo", "comp"]], execute=[{"target": "foo", "args": []}])],
         "entry": "main", "entryArgs": []}
    b = {"templates": [c, _t("main", True, 0, [], steps=[["step1", "comp"]], execute=[{"target": "step1", "args": []}])],
         "entry": "main", "entryArgs": []}
    prod = _t("prod", False, 0, [], args=hi)
    cons = _t("cons", False, 1, [("x", None)], args=[{"l": "cat "}, {"p": "x"}])

    def refcase(loc, k):
        return {"templates": [prod, cons,
                              _t("main", True, 0, [], steps=[["a", "inner"], ["c", "cons"]],
                                 execute=[{"target": "a", "args": []},
                                          {"target": "c", "args": [["x", [{"r": loc, "m": "ref", "k": k}]]]}]),
                              _t("inner", True, 1, [], steps=[["p", "prod"]], execute=[{"target": "p", "args": []}])],
                "entry": "main", "entryArgs": []}
    # a dictionary of environment variables forwarded verbatim through two workflow levels / embedded in a string
    sim = _t("simulate", False, 0, [("env", None), ("label", [{"l": "none"}]), ("n", [{"v": 3}])],
             args=[{"l": "run "}, {"p": "label"}, {"l": " -n "}, {"p": "n"}], env="env")

    def envcase(label_of_second):
        return {"templates": [sim,
                              _t("main", True, 0, [("env", None)], steps=[["first", "inner"], ["second", "inner"]],
                                 execute=[{"target": "first", "args": [["env", [{"p": "env"}]], ["label", [{"l": "plain"}]]]},
                                          {"target": "second", "args": [["env", [{"p": "env"}]], ["label", label_of_second]]}]),
                              _t("inner", True, 1, [("env", None), ("label", None)], steps=[["run", "simulate"]],
                                 execute=[{"target": "run", "args": [["env", [{"p": "env"}]], ["label", [{"p": "label"}]]]}])],
                "entry": "main", "entryArgs": [["env", [{"v": {"OMP_NUM_THREADS": "4", "MODE": "fast"}}]]]}
    # user variables override an argument of the entrypoint and a parameter that only has a default
    echo = _t("echo", False, 0, [("message", None), ("suffix", [{"l": "!"}])], args=[{"p": "message"}, {"p": "suffix"}])
    uv = {"templates": [echo,
                        _t("main", True, 0, [("explicit", [{"l": "default-explicit"}]), ("defaulted", [{"l": "default-defaulted"}]),
                                             ("untouched", [{"v": 7}])],
                           steps=[["greet", "echo"], ["inner", "inner"]],
                           execute=[{"target": "greet", "args": [["message", [{"p": "explicit"}, {"l": " "}, {"p": "defaulted"},
                                                                              {"l": " "}, {"p": "untouched"}]]]},
                                    {"target": "inner", "args": [["forwarded", [{"p": "explicit"}, {"l": "+"}, {"p": "defaulted"}]]]}]),
                        _t("inner", True, 1, [("forwarded", None)], steps=[["greet", "echo"]],
                           execute=[{"target": "greet", "args": [["message", [{"l": "nested "}, {"p": "forwarded"}]]]}])],
          "entry": "main", "entryArgs": [["explicit", [{"l": "from-entrypoint"}]]],
          "userVars": [["explicit", [{"l": "from-user"}]], ["defaulted", [{"v": 2.5, "raw": True}]]],
          "varFiles": [["explicit"], ["defaulted"]], "path": "conf"}
    # replication: the same locations (entry-instance/first, second, third) with other roles in consecutive namespaces
    hello = [{"l": "hello"}]
    msg = [{"p": "message"}]
    tmpl = {"gen": dict(_t("gen", False, 0, [], args=hello), replicate=2),
            "source": _t("source", False, 0, [], args=hello),
            "collect": dict(_t("collect", False, 1, [("message", None)], args=msg), aggregate=True),
            "plain": _t("plain", False, 1, [("message", None)], args=msg),
            "plain-replica": _t("plain-replica", False, 2, [("message", None)], args=msg + [{"l": " "}, {"p": REPLICA}])}

    def chain(*steps):
        """steps: (step name, template, producer step or None)"""
        used = []
        for _n, tn, _p in steps:
            if tn not in used:
                used.append(tn)
        ts = []
        for k, tn in enumerate(used):
            ts.append(dict(copy.deepcopy(tmpl[tn]), idx=k))
        main = _t("main", True, 0, [], steps=[[n, tn] for n, tn, _p in steps],
                  execute=[{"target": n, "args": [["message", [{"r": [pr], "m": "output"}]]] if pr else []}
                           for n, _tn, pr in steps])
        return {"templates": ts + [main], "entry": "main", "entryArgs": []}
    # two spellings of one component name in different workflows (DSL converted from FlowIR spells every stage)
    produce = _t("produce", False, 0, [("marker", None)], args=[{"p": "marker"}])
    consume = _t("consume", False, 1, [("message", None)], args=[{"l": "cat "}, {"p": "message"}])
    spell = {"templates": [produce, consume,
                           _t("main", True, 0, [], steps=[["generate", "produce"], ["legacy", "legacy-wf"],
                                                          ["report", "consume"], ["report-legacy", "consume"]],
                              execute=[{"target": "generate", "args": [["marker", [{"l": "by-main"}]]]},
                                       {"target": "legacy", "args": []},
                                       {"target": "report", "args": [["message", [{"r": ["generate"], "m": "output"}]]]},
                                       {"target": "report-legacy",
                                        "args": [["message", [{"r": ["legacy", "stage0.generate"], "m": "output"}]]]}]),
                           _t("legacy-wf", True, 1, [], steps=[["stage0.generate", "produce"], ["stage1.summarise", "consume"]],
                              execute=[{"target": "stage0.generate", "args": [["marker", [{"l": "by-legacy"}]]]},
                                       {"target": "stage1.summarise",
                                        "args": [["message", [{"r": ["stage0.generate"], "m": "output"}]]]}])],
             "entry": "main", "entryArgs": []}
    return [
        ("valid", "corpus:replicate-then-aggregate", chain(("first", "gen", None), ("second", "collect", "first")), None),
        ("valid", "corpus:replica-reference-two-steps-below-replicate",
         chain(("first", "gen", None), ("second", "plain", "first"), ("third", "plain-replica", "second")), None),
        ("valid", "corpus:consumer-of-replicate", chain(("first", "gen", None), ("second", "plain", "first")), None),
        ("invalid", "corpus:replica-reference-without-replicate",
         chain(("first", "source", None), ("second", "plain", "first"), ("third", "plain-replica", "second")),
         {"kind": "replica-reference-in-a-component-that-is-not-replicated", "loc": None}),
        ("invalid", "corpus:replica-reference-below-aggregate",
         chain(("first", "gen", None), ("second", "collect", "first"), ("third", "plain-replica", "second")),
         {"kind": "aggregation-inserted-upstream-of-a-replica-reference", "loc": None}),
        ("valid", "corpus:generate+nested-stage0.generate", spell, None),
        ("valid", "corpus:dictionary-forwarded-verbatim", envcase([{"l": "also plain"}]), None),
        ("invalid", "corpus:dictionary-embedded-in-a-string", envcase([{"l": "settings="}, {"p": "env"}]),
         {"kind": "dictionary-embedded-in-execute-argument", "loc": ["workflows", 0, 1]}),
        ("valid", "corpus:user-variables-over-argument-and-default", uv, None),
        ("valid", "corpus:foo,foo-I+nested-foo", a, None),
        ("invalid", "corpus:step1", b, {"kind": "step-name-ends-with-digit", "loc": ["workflows", 0, 0]}),
        ("invalid", "corpus:ref-nested-nosuch", refcase(["a", "nosuch"], 1), {"kind": "unknown-nested-step-in-reference", "loc": ["workflows", 0, 1]}),
        ("invalid", "corpus:ref-to-workflow", refcase(["a"], 1), {"kind": "reference-to-workflow-step", "loc": ["workflows", 0, 1]}),
        ("valid", "corpus:ref-with-path", refcase(["a", "p", "out", "f.txt"], 2), None),
    ]


def features(ns):
    tags = []
    by_name = {t["name"]: t for t in ns["templates"]}

    def depth(n, seen=()):
        t = by_name.get(n)
        if t is None or not t["wf"] or n in seen:
            return 0
        return 1 + max([depth(tn, seen + (n,)) for _s, tn in t["steps"]] or [0])
    d = depth(ns["entry"])
    tags.append("depth:%d" % d)
    uses = {}
    for t in ns["templates"]:
        if t["wf"]:
            for _s, tn in t["steps"]:
                uses[tn] = uses.get(tn, 0) + 1
    if any(v >= 2 for v in uses.values()):
        tags.append("template-reused")
    toks = [tok for t in ns["templates"] if t["wf"] for e in t["execute"] for a in e["args"] for tok in a[1]]
    if any("p" in t for t in toks):
        tags.append("parameter-forwarded")
    if any("r" in t and len(t["r"]) >= 2 for t in toks):
        tags.append("reference-crosses-levels")
    if any("s" in t for t in toks):
        tags.append("partial-reference-completed")
    if any(isinstance(t.get("k"), str) for t in toks if "r" in t):
        tags.append("alternative-reference-spelling")
    every = toks + [tok for a in ns["entryArgs"] for tok in a[1]] + \
        [tok for t in ns["templates"] for p in t["params"] if p["default"] for tok in p["default"]]
    if any("v" in t and isinstance(t["v"], dict) for t in every):
        tags.append("dictionary-value")
    if any("v" in t and not isinstance(t["v"], (dict, list)) for t in every):
        tags.append("number-or-boolean-value")
    if any(t.get("env") for t in ns["templates"] if not t["wf"]):
        tags.append("environment-from-parameter")
    comps = [t for t in ns["templates"] if not t["wf"]]
    dicts = [t["v"] for t in every if "v" in t and isinstance(t["v"], dict)]
    if any(a != b and sorted(a) == sorted(b) for a in dicts for b in dicts):
        tags.append("environments-with-the-same-names-and-other-values")
    if any("staged" in p["name"] for t in comps for p in t["params"]):
        tags.append("reference-parameter-not-interpolated-into-arguments")
    if any("r" in tok and tok.get("m") in ("copy", "link") for tok in toks):
        tags.append("reference-method-copy-or-link")
    if any(t.get("replicate") not in (None, 0) for t in comps):
        tags.append("replicate")
    if any(t.get("replicate") == 0 for t in comps):
        tags.append("replicate:0")
    if any(t.get("aggregate") for t in comps):
        tags.append("aggregate")
    if any(tok.get("p") == REPLICA for t in comps for tok in t["args"]):
        tags.append("replica-parameter-declared" if any(p["name"] == REPLICA for t in comps for p in t["params"])
                    else "replica-reference")
    if any(re.match(r"stage[0-9]+\.", s_) for t in ns["templates"] if t["wf"] for s_, _tn in t["steps"]):
        tags.append("stage-prefix-in-step-name")
    if ns.get("path") == "conf":
        tags.append("files:%d" % len(ns.get("varFiles", [])))
        root = by_name.get(ns["entry"])
        given = {a[0] for a in ns["entryArgs"]}
        for n, _v in ns.get("userVars", []):
            if root and any(p["name"] == n for p in root["params"]):
                tags.append("user-variable-over-entrypoint-argument" if n in given else "user-variable-over-default-only")
    for t in ns["templates"]:
        if t["wf"]:
            st = dict((s, tn) for s, tn in t["steps"])
            for e in t["execute"]:
                callee = by_name.get(st.get(e["target"]))
                if callee:
                    given = {a[0] for a in e["args"]}
                    for p in callee["params"]:
                        if p["default"] is not None:
                            tags.append("default-overridden" if p["name"] in given else "default-used")
    return sorted(set(tags)), d


_SLOW_RETRIES = [3]


def run_impl(ns):
    doc = render_doc(ns)
    direct = ns.get("path", "direct") == "direct"
    out = impl(doc) if direct else impl_conf(doc, variable_files(ns))
    if out.get("exception") == "HANG" and _SLOW_RETRIES[0] > 0:
        # no answer within a few seconds: a loaded machine, or a loop?  (a few times per run) ask again with a
        # generous limit before calling it a hang
        _SLOW_RETRIES[0] -= 1
        out = impl(doc, timeout=20) if direct else impl_conf(doc, variable_files(ns), timeout=20)
    return doc, out


def uses_process_state(ns):
    """the case exercises code with process-lifetime candidates for shared state: replication, renamed components"""
    comps = [t for t in ns["templates"] if not t["wf"]]
    return any(t.get("replicate") is not None or t.get("aggregate") for t in comps) or \
        any(tok.get("p") == REPLICA for t in comps for tok in t["args"])


# ----------------------------------------------------------------------------------------
# the answer must depend on the namespace alone: histories
# ----------------------------------------------------------------------------------------

_EXPLAINED = {}
HISTORY = []  # the namespaces this process has compiled so far, in order
_ISOLATED_BUDGET = [4]


def _zygote_main():
    """child interpreter: for every sequence of namespaces on stdin, the answer for its last element when the
    sequence is compiled in a process that has compiled nothing else (fork of this pristine interpreter)"""
    import experiment.model.frontends.dsl  # noqa: imported before forking
    import experiment.model.conf  # noqa
    seqs = json.load(sys.stdin)
    answers = []
    for seq in seqs:
        r, w = os.pipe()
        pid = os.fork()
        if pid == 0:
            try:
                os.close(r)
                out = None
                for ns in seq:
                    out = run_impl(ns)[1]
                os.write(w, json.dumps(out, default=str).encode())
            finally:
                os._exit(0)
        os.close(w)
        chunks = []
        while True:
            b = os.read(r, 65536)
            if not b:
                break
            chunks.append(b)
        os.close(r)
        os.waitpid(pid, 0)
        try:
            answers.append(json.loads(b"".join(chunks).decode()))
        except ValueError:
            answers.append({"exception": "isolated-run-died"})
    sys.stdout.write("\n@@ANSWERS@@" + json.dumps(answers))


def isolated(seqs, timeout=120):
    """answers for the last namespace of each sequence, each sequence in a process of its own"""
    code = "import sys, json; sys.path[:0] = json.loads(sys.argv[1]); import harness.c06 as H; H._zygote_main()"
    try:
        r = subprocess.run([sys.executable, "-W", "ignore", "-c", code, json.dumps([p for p in sys.path if p])],
                           input=json.dumps(seqs), stdout=subprocess.PIPE, stderr=subprocess.DEVNULL, text=True,
                           timeout=timeout)
        return json.loads(r.stdout.rsplit("@@ANSWERS@@", 1)[1])
    except Exception:  # noqa
        return None


def stable(out):
    """an answer without what legitimately differs between two runs (messages quote scratch directories)"""
    out = json.loads(json.dumps(out, default=str))
    out.pop("message", None)
    out.pop("messages", None)
    return out


def component_locations(ns):
    try:
        return {i["path"] for i in expected(ns, [])}
    except (KeyError, RecursionError):
        return set()


def explain_by_history(ns, out, before):
    """-> None when the implementation gives the same answer `out` for `ns` in a process of its own; otherwise
    {"alone": that answer, "history": a (short) list of earlier namespaces after which the answer is `out`}"""
    if _ISOLATED_BUDGET[0] <= 0:
        return None
    _ISOLATED_BUDGET[0] -= 1
    want = canon(stable(out))
    alone = isolated([[ns]])
    if alone is None or canon(stable(alone[0])) == want:
        return None
    here = component_locations(ns)
    colliding = [h for h in before if component_locations(h) & here] or list(before)
    recent = colliding[-150:]
    singles = isolated([[h, ns] for h in reversed(recent)]) or []
    for h, a in zip(reversed(recent), singles):
        if canon(stable(a)) == want:
            return {"alone": alone[0], "history": [h]}
    for hist in (colliding[-30:], colliding[-300:], list(before)[-600:]):
        a = isolated([hist + [ns]])
        if a is not None and canon(stable(a[0])) == want:
            # drop what is not needed, from the front
            while len(hist) > 1:
                half = hist[len(hist) // 2:]
                a = isolated([half + [ns]])
                if a is not None and canon(stable(a[0])) == want:
                    hist = half
                else:
                    break
            return {"alone": alone[0], "history": hist}
    return {"alone": alone[0], "history": [], "note": "not reproduced with the earlier namespaces of this run"}


HISTORY_SLUG = "result-depends-on-earlier-cases"


def report(ctx, slug, case, detail, ns, out, before):
    """an oracle failure of a run with a history: is the wrong answer a function of the namespace, or of what this
    process compiled before?  The first failure of each kind is re-computed in a process of its own; when the answer
    differs there, the failure (and every later one of that kind) is reported as HISTORY_SLUG, the first one with the
    earlier namespaces that reproduce it"""
    if slug not in _EXPLAINED:
        ex = explain_by_history(ns, out, HISTORY[:before])
        if ex is None and _ISOLATED_BUDGET[0] <= 0 and _EXPLAINED.get(HISTORY_SLUG):
            ex = {}  # cannot be examined any more; earlier failures of this run were due to the history
        _EXPLAINED[slug] = ex is not None
        if ex:
            _EXPLAINED[HISTORY_SLUG] = True
            detail["answer_in_a_process_of_its_own"] = ex["alone"]
            if ex.get("note"):
                detail["note"] = ex["note"]
            case = dict(case, history=ex["history"])
    if _EXPLAINED.get(slug):
        detail["kind_of_failure"] = slug
        slug = HISTORY_SLUG
    ctx.fail(slug, case, detail)


def judge(ns, stream, fault, out):
    """the property oracle on one answer -> None | (slug, detail)"""
    if stream == "valid":
        try:
            return oracle_valid(ns, out)
        except (KeyError, RecursionError) as exc:
            return ("harness-generated-an-ill-formed-valid-case", repr(exc))
    return oracle_invalid(ns, fault, out)


def second_pass(ctx, again):
    """family (a): a sample of the cases is compiled AGAIN, in another order, after everything else: the answers
    must be the same and must still satisfy the property"""
    rng = ctx.rng
    pool = [a for a in again if uses_process_state(a[0][2])]
    rest = [a for a in again if not uses_process_state(a[0][2])]
    n = 260 if ctx.tier == "quick" else 1500
    sample = rng.sample(pool, min(len(pool), n)) + rng.sample(rest, min(len(rest), n // 4))
    rng.shuffle(sample)
    for (stream, label, ns, fault), first in sample:
        before = len(HISTORY)
        doc, out = run_impl(ns)
        HISTORY.append(ns)
        ctx.tag("second-pass")
        case = {"stream": stream, "label": label, "ns": ns, "fault": fault, "old": {}}
        same = canon(stable(first)) == canon(stable(out))
        why = judge(ns, stream, fault, out)
        if why and any(fn(why[0], case, {"why": why[1]}) for fn in CLASSIFIERS.values()):
            continue  # a recorded defect family: reported by the first pass
        if same and not why:
            continue
        slug = HISTORY_SLUG if not same else why[0]
        detail = {"first_answer": first, "answer_now": out, "oracle": why, "document": doc}
        report(ctx, slug, case, detail, ns, out, before)


def check_cases(ctx, cases, again=None):
    """cases: list of (stream, label, ns, fault); `again` collects (case, first answer) for the second pass"""
    reqs = [model_request(strip_kinds(ns)) for _s, _l, ns, _f in cases]
    mouts = ctx.model(reqs)
    for idx, (stream, label, ns, fault) in enumerate(cases):
        ns = strip_kinds(ns)
        path = ns.get("path", "direct")
        before = len(HISTORY) if again is not None else None
        doc, out = run_impl(ns)
        HISTORY.append(ns)
        if again is not None:
            again.append(((stream, label, ns, fault), out))
        tags, d = features(ns)
        tags.append("path:" + path)
        m = mouts[idx] if mouts is not None else None
        case = {"stream": stream, "label": label, "ns": ns, "fault": fault, "old": (m or {}).get("old") or {}}
        n_inst = len(m.get("spec", [])) if m else 0
        nontrivial = (d >= 2 and "parameter-forwarded" in tags) or stream == "invalid" or \
            (path == "conf" and bool(ns.get("userVars")))
        ctx.case({"stream": stream, "ns": ns, "fault": fault}, nontrivial=nontrivial,
                 tags=tags + ["stream:" + stream, "impl:" + ("components" if "components" in out else
                                                             "invalid" if "invalid" in out else "exception:" + out["exception"])]
                 + (["fault:" + fault["kind"]] if fault else []) + (["instances>=8"] if n_inst >= 8 else []))
        if m is not None and m.get("old"):
            if m["old"].get("names_distinct") is False:
                ctx.tag("old-naming-would-collide")
            if m["old"].get("split_differs"):
                ctx.tag("old-split-would-differ")
        if stream == "valid":
            try:
                why = oracle_valid(ns, out)
            except (KeyError, RecursionError) as exc:
                why = ("harness-generated-an-ill-formed-valid-case", repr(exc))
        else:
            why = oracle_invalid(ns, fault, out)
            if why and fault["kind"] in ("unknown-nested-step-in-reference", "reference-to-workflow-step"):
                # the broken reference sits in an argument that no component ever receives: nothing to reject
                try:
                    if not any(None in e["producers"] or None in e["param_producers"] for e in expected(ns)):
                        ctx.tag("fault-not-observable(reference never reaches a component)")
                        why = None
                except (KeyError, RecursionError):
                    pass
        known_family = False
        if why:
            detail = {"why": why[1], "impl": out, "document": doc}
            if before is None or any(fn(why[0], case, detail) for fn in CLASSIFIERS.values()):
                ctx.fail(why[0], case, detail)
            else:
                detail["oracle"] = list(why)
                report(ctx, why[0], case, detail, ns, out, before)
            # the model has the repaired behaviour: on a case of a recorded defect family the code is expected to
            # differ from it (the oracle failure above is what gets reported / matched against known findings)
            known_family = any(fn(why[0], case, detail) for fn in CLASSIFIERS.values())
            if known_family:
                ctx.tag("compare-skipped(defect family of fixes/C06-*.diff)")
        if fault and fault["kind"] == "list-valued-argument":
            ctx.tag("compare-skipped(lists are refused by the document schema, outside the model)")
            continue
        if m is not None and not known_family:
            ctx.compare("namespace_to_flowir == Dsl.flattenOp (components, arguments, references | error locations)",
                        case, model_view(m), impl_view(out))
            if "ok" in m and "components" in out and m.get("envnames") is not None:
                # the `environments` section: which components share an entry env<k> (Dsl.bindAll with the canonical
                # text of the dictionary as its hash, names handed out in component order)
                ctx.compare("names of the environments == Dsl.envNames", case,
                            sorted([c["stage"], c["name"], None if k is None else "env%d" % k]
                                   for c, k in zip(m["ok"], m["envnames"])),
                            sorted([c["stage"], c["name"], c["envname"] if c["envname"] not in (None, "none") else None]
                                   for c in out["components"]))
            if m.get("replicas"):
                # model-internal: the answers of can_template_replicate with the memo dictionaries threaded through the
                # components (as the code calls it) are those of the memo-free definition that flattenOp uses
                ctx.compare("Dsl.replicasM (memo threaded in call order) == Dsl.isReplica", case,
                            m["replicas"]["memo"], m["replicas"]["plain"])
            if stream == "valid" and "ok" in m:
                # model-internal: operational result agrees with the denotational spec and with the oracle's edges
                exp = expected(ns)
                ctx.compare("Dsl.isReplica == oracle replication", case,
                            sorted((c["loc"], bool(c["replica"])) for c in m["ok"]),
                            sorted((list(e["path"]), bool(e["replica"])) for e in exp))
                want = sorted((list(e["path"]), [list(p) for p in sorted(set(filter(None, e["producers"] + e["param_producers"])))])
                              for e in exp)
                got = sorted((c["loc"], sorted(c["producers"])) for c in m["ok"])
                want = [list(x) for x in want]
                got = [list(x) for x in got]
                ctx.compare("Dsl.flattenOp producers == oracle producers", case, got, want)
                ctx.compare("Dsl.specEdges == oracle edges", case,
                            [list(map(list, x)) for x in sorted(set((tuple(a), tuple(b)) for a, b in m["edges"]))],
                            [list(map(list, x)) for x in sorted(set((tuple(e["path"]), tuple(p)) for e in exp
                                                                    for p in e["producers"] + e["param_producers"] if p))])


def run(ctx):
    ctx.rule = ("cases = generated DSL 2.0 namespaces: 1-3 component templates, workflow templates in levels up to depth "
                "3 (quick) / 4 (thorough), 1-4 steps each drawn from lower levels (templates reused), step names from a "
                "small pool that contains foo, foo-I, foo-II (name clashes), parameters literal / complete reference / "
                "partial reference, each argument forwarded, combined with literals, defaulted or overridden, output "
                "references to earlier siblings or into their nested workflows with 4 spellings; parameter values are "
                "text, numbers / booleans (argument, default, forwarded as the whole value, embedded in a string) or "
                "dictionaries (forwarded as the whole value down to a component that uses the parameter as its "
                "command.environment; the literal none; the pool of dictionaries holds several with the SAME variable "
                "names and other values, so that instances of one template differ only in the values of their "
                "environment — the `environments` section and the name env<k> of every component are compared with "
                "Dsl.envNames); component templates also take complete references (methods copy / link / ref / output) "
                "in parameters that are NOT interpolated into command.arguments (staging idiom): the references list "
                "and the producer/consumer relation must contain them; plus a stream of single-fault mutations (14 structural kinds + "
                "5 kinds that put a non-string value in the wrong place: dictionary embedded in a longer string of an "
                "execute argument / of command.arguments, dictionary given for a text parameter, text or number given as "
                "environment, environment naming an unknown parameter).  Second driver path (conf): a sample of the "
                "namespaces is written as a package and loaded through the configuration factory with 0-2 user "
                "variable files whose global sections override entry parameters that the entrypoint passes and "
                "parameters that only have a default (text / number / boolean values), plus mutations of those "
                "(+ unknown user variable, parameter reference inside a user variable, list-valued argument).  "
                "Step names also carry explicit `stage<N>.` prefixes (stage0.foo, stage00.foo-I, stage1.foo ...: other "
                "spellings of a name, the same name in another stage).  Component templates may ask for replication "
                "(workflowAttributes.replicate 1-3, or 0) or aggregate; `%(replica)s` is used in command.arguments "
                "where every instance is replicated, an ordinary parameter called replica where none is; 4 more fault "
                "kinds (+ partial reference that the arguments never complete) (replica reference in a component that is not replicated, replicated component declaring a "
                "parameter called replica, replication switched off / aggregation inserted upstream of a replica "
                "reference).  Histories: all cases run in one process (locations entry-instance/<step> collide across "
                "cases with other roles); a sample (every case with replicate / aggregate / replica first) is compiled "
                "AGAIN after all others in a shuffled order: same answer and the property oracle again "
                "(result-depends-on-earlier-cases; a failing answer is re-computed in a process of its own and the "
                "earlier namespaces that change it are attached to the replay).  "
                "Non-trivial = nesting depth >= 2 with a forwarded parameter, or an invalid-stream case, or a conf-path "
                "case with at least one user variable; distinct by canonical JSON.")
    ctx.assumptions = [
        "literal chunks never contain % < > \" : (no legacy data references) and are never empty",
        "no variables / key outputs; an environment only through command.environment: \"%(param)s\"; `%(replica)s` "
        "only inside command.arguments (never in execute arguments or defaults); replicate is a number (no parameter "
        "reference), never together with aggregate; a parameter value holds at most one output reference; the "
        "stages named by the component steps of a namespace are 0..n-1 without gaps",
        "template names are unique; defaults are literals, numbers or dictionaries (no null values: the code renders "
        "null as the text None and treats a null default as no default); a workflow lists at most one execute entry per step",
        "a component never consists of a single parameter reference as its whole command.arguments",
        "user variables of different files have different names (layering order of variable files is property C15); "
        "precedence stated by the code and tests/test_package_load.py::test_load_dsl2_with_user_variables: user "
        "variable > argument of entrypoint.execute[0] > declared default",
        "error locations are compared after truncation to entrypoint | <collection>/<index>[/execute/<j>]",
    ]
    ctx.trusted.append("C06: pydantic validation of the document (incl. its coercion of numbers / booleans); "
                       "FlowIRConcrete.validate() as the FlowIR validator; harness rendering of token lists to text "
                       "(reference spellings, str() of numbers, canonical JSON of dictionaries) and back; yaml dump/load "
                       "of the package and variable files on the conf path")
    ctx.classifiers = CLASSIFIERS
    rng = ctx.rng
    quick = ctx.tier == "quick"
    cases = list(corpus())
    n_valid = 500 if quick else 4000
    depths = [1, 2, 2, 3, 3] if quick else [1, 2, 2, 3, 3, 4, 4]
    valid = []
    for i in range(n_valid):
        d = 0 if i % 40 == 0 else rng.choice(depths)
        ns = gen_namespace(rng, d)
        valid.append(ns)
        cases.append(("valid", "gen:depth%d" % d, ns, None))
    def invalid_stream(pool, n, kinds, label):
        # the kind is chosen first (round robin) so that rarely applicable kinds are not starved
        for i in range(n):
            kind = kinds[i % len(kinds)]
            for _try in range(80):
                r = mutate(rng, rng.choice(pool), kind)
                if r is not None:
                    cases.append(("invalid", label + r[1]["kind"], r[0], r[1]))
                    break

    invalid_stream(valid, 680 if quick else 5000,
                   list(STRUCTURAL_FAULTS) + list(VALUE_FAULTS) * 2 + list(REPLICA_FAULTS) * 2 + list(REF_FAULTS) * 2, "mut:")
    # second driver path: package + user variable files through the configuration factory
    n_conf = 260 if quick else 2000
    conf_valid = []
    for i in range(n_conf):
        ns = with_user_variables(rng, rng.choice(valid))
        conf_valid.append(ns)
        cases.append(("valid", "conf:%d-files" % len(ns["varFiles"]), ns, None))
    invalid_stream(conf_valid, 160 if quick else 1200,
                   list(CONF_ONLY_FAULTS) * 3 + list(VALUE_FAULTS) * 2 + list(STRUCTURAL_FAULTS) + list(REPLICA_FAULTS)
                   + list(REF_FAULTS),
                   "conf-mut:")
    # roman numerals pin
    rm = ctx.model([{"op": "roman", "n": n} for n in range(1, 60)])
    if rm is not None:
        import experiment.model.frontends.dsl as D
        ctx.compare("number_to_roman_like_numeral == Dsl.roman on 1..59", {"n": "1..59"},
                    [x["roman"] for x in rm], [D.number_to_roman_like_numeral(n) for n in range(1, 60)])
    again = []
    check_cases(ctx, cases, again)
    second_pass(ctx, again)


def replay(ctx, doc):
    ctx.classifiers = CLASSIFIERS
    case = doc.get("input") or doc["no_longer_checks"][-1]["input"]
    for h in case.get("history") or []:
        run_impl(h)  # the namespaces compiled earlier in the same process
        HISTORY.append(h)
    check_cases(ctx, [(case["stream"], case.get("label", "replay"), case["ns"], case.get("fault"))])
