"""C17 — Component environments are built only from their declared sources.

Implementation under test (real code, in-process, under a controlled os.environ):
  FlowIRConcrete(doc, platform, {}) -> FlowIRExperimentConfiguration(concrete=...) -> WorkflowGraph(...)
  -> WorkflowGraph.environmentForNode('stage0.c')        (conf.py 1163-1383, flowir.py 5502-5590, 1927-1937)
  and FlowIRExperimentConfiguration.environmentWithName(name, expand, remove_defaults_key).
Model: lean/St4sd/Model/Env.lean via drv-c17.  Theorems: lean/St4sd/Props/C17.lean.
"""
from __future__ import annotations

import itertools
import os
import string

INTERP_VARS = ["PATH", "PYTHONPATH", "PYTHONHOME", "LD_LIBRARY_PATH"]
VAR_NAMES = ["A", "B", "FOO", "bar", "X1", "_U", "PATH", "PYTHONPATH", "LD_LIBRARY_PATH", "PYTHONHOME", "HOME", "OMP"]
CANARY = "LEAK_CANARY"
SYS_NAMES = ["INSTANCE_DIR", "FLOW_EXPERIMENT_NAME", "FLOW_RUN_ID", "A", "PATH"]


# ----------------------------------------------------------------------------------------
# generators
# ----------------------------------------------------------------------------------------

def gen_value(rng, names, plain=False):
    """value grammar: literals, $NAME, ${NAME}, $$, and ill-formed dollars"""
    if plain:
        return rng.choice(["", "v", "/usr/bin:/bin", "x y", "1", "a=b", "ünï"])
    n = rng.choice([0, 1, 1, 2, 3, 4])
    out = []
    for _ in range(n):
        k = rng.random()
        nm = rng.choice(names + [CANARY, "UNDEF", "1x", ""])
        if k < 0.35:
            out.append(rng.choice(["v", "/opt/x", ":", "/", "a b", "-", "_", "9", "}", "{", "x=1", "é"]))
        elif k < 0.6:
            out.append("$" + nm)
        elif k < 0.85:
            out.append("${" + nm + "}")
        elif k < 0.9:
            out.append("$$")
        else:
            out.append(rng.choice(["$", "${", "${" + nm, "$-", "${a b}", "$" + nm + "$", "${}"]))
    return "".join(out)


def gen_dict(rng, names, lo=0, hi=4, raw=False):
    d = {}
    for nm in rng.sample(names, rng.randint(lo, min(hi, len(names)))):
        v = gen_value(rng, names)
        if raw and rng.random() < 0.12:
            v = rng.choice([None, 3, True, 2.5])
        if rng.random() < 0.12:
            v = ""
        d[nm] = v
    return d


def random_case(rng, s):
    return "".join(c.upper() if rng.random() < 0.5 else c.lower() for c in s)


def gen_case(rng, presence=None, name_kind=None, plat=None, interp=None):
    names = list(VAR_NAMES)
    platforms = ["default"] + rng.choice([[], ["plat"], ["plat", "other"]])
    if plat is None:
        plat = rng.choice(platforms)
    elif plat not in platforms:
        platforms.append(plat)
    base = rng.choice(["myenv", "my-env2", "e"])
    if presence is None:
        presence = rng.choice(["default", "platform", "both", "neither"])
    if name_kind is None:
        name_kind = rng.choice(["named", "named", "named", "named-case", "null", "empty", "none", "NONE",
                                "environment", "Environment", "unknown"])
    envs = {p: {} for p in platforms}

    def mk_env():
        d = gen_dict(rng, names, 0, 5, raw=True)
        if rng.random() < 0.5:
            segs = rng.sample(names + ["UNDEF", "", CANARY, "DEFAULTS"], rng.randint(0, 4))
            d["DEFAULTS"] = ":".join(segs)
        return d

    target = "environment" if name_kind in ("null", "empty", "environment", "Environment") else base
    if presence in ("default", "both"):
        envs["default"][random_case(rng, target) if rng.random() < 0.5 else target] = mk_env()
    if presence in ("platform", "both") and plat != "default":
        envs[plat][random_case(rng, target) if rng.random() < 0.5 else target] = mk_env()
    # distractors: other environments, and the same name on a platform that is not selected
    if rng.random() < 0.5:
        envs["default"]["otherenv"] = mk_env()
    for p in platforms:
        if p not in ("default", plat) and rng.random() < 0.5:
            envs[p][target] = mk_env()
    # (two spellings of one name on one platform are not generated here: which of them the loader keeps is a
    #  question of determinism of loading, property C15)
    name = {"named": base, "named-case": random_case(rng, base), "null": None, "empty": "", "none": "none",
            "NONE": rng.choice(["NONE", "None", "nOnE"]), "environment": "environment",
            "Environment": random_case(rng, "environment"), "unknown": "nosuchenv"}[name_kind]
    launch = gen_dict(rng, names, 0, 7)
    launch = {k: ("" if v is None else str(v)) for k, v in launch.items()}
    if rng.random() < 0.8:
        launch[CANARY] = "canary-" + str(rng.randint(0, 9))
    if rng.random() < 0.1:
        launch["DEFAULTS"] = "A:" + CANARY
    sysv = {}
    for nm in rng.sample(SYS_NAMES, rng.randint(0, 3)):
        sysv[nm] = rng.choice(["/i/dir", "exp", "", "$A", "s-" + nm])
    if interp is None:
        interp = rng.random() < 0.4
    return {"platforms": platforms, "platform": plat, "envs": envs, "name": name, "launch": launch, "sys": sysv,
            "interp": interp, "presence": presence, "name_kind": name_kind}


# ----------------------------------------------------------------------------------------
# real code
# ----------------------------------------------------------------------------------------

class patched_environ:
    def __init__(self, launch):
        self.launch = launch

    def __enter__(self):
        self.saved = dict(os.environ)
        os.environ.clear()
        os.environ.update(self.launch)

    def __exit__(self, *a):
        os.environ.clear()
        os.environ.update(self.saved)


def doc_for(case):
    cmd = {"executable": "ls"}
    if case["name"] is not None:
        cmd["environment"] = case["name"]
    if case["interp"]:
        cmd["interpreter"] = "bash"
    doc = {"components": [{"name": "c", "stage": 0, "command": cmd}],
           "platforms": list(case["platforms"]),
           "environments": {p: {n: dict(d) for n, d in e.items()} for p, e in case["envs"].items()}}
    return doc


def err_kind(exc):
    n = type(exc).__name__
    if n == "FlowIREnvironmentUnknown":
        return "unknownEnv"
    return "other:" + n


def impl(case, withname=None):
    import experiment.model.conf as C
    import experiment.model.frontends.flowir as F
    import experiment.model.graph as G
    import logging
    logging.disable(logging.CRITICAL)
    with patched_environ(case["launch"]):
        try:
            conc = F.FlowIRConcrete(doc_for(case), case["platform"], {})
            conf = C.FlowIRExperimentConfiguration(None, case["platform"], None, dict(case["sys"]), False, False, True,
                                                   concrete=conc, validate=False)
            if withname is not None:
                env = conf.environmentWithName(case["name"], expand=withname["expand"],
                                               remove_defaults_key=withname["remove"])
            else:
                g = G.WorkflowGraph(conf, case["platform"], True)
                env = g.environmentForNode("stage0.c")
            return {"ok": {str(k): str(v) for k, v in env.items()}}
        except Exception as exc:  # noqa
            return {"error": err_kind(exc)}


def pairs(d):
    return [[str(k), "" if v is None else str(v)] for k, v in d.items()]


def model_request(case, withname=None):
    req = {"op": "node" if withname is None else "withname",
           "sys": pairs(case["sys"]),
           "envs": [[p, [[n, pairs(d)] for n, d in e.items()]] for p, e in case["envs"].items()],
           "platform": case["platform"], "launch": pairs(case["launch"]), "name": case["name"],
           "interp": case["interp"]}
    if withname is not None:
        req.update(withname)
    return req


def canon_out(o, strip=True):
    if o is None:
        return None
    if "error" in o:
        return {"error": o["error"]}
    ok = o["ok"]
    if isinstance(ok, list):
        ok = {k: v for k, v in ok}
    # variables whose resulting value is the empty string are not compared: the code drops variables declared
    # empty (conf.py 1362-1367) and the property does not say whether they are present (the oracle still
    # rejects any key, empty or not, that comes from an undeclared source)
    return {"ok": {k: ok[k] for k in sorted(ok) if ok[k] != "" or not strip}}


# ----------------------------------------------------------------------------------------
# oracle: the property text restated on the inputs, independent of the Lean model
# ----------------------------------------------------------------------------------------

def _lookup_env(case, platform, lname):
    """environment `lname` (lower case) as declared for `platform`; names are case-insensitive; when a
    platform spells one name several ways the last differently-cased spelling wins (load order of the code)"""
    envs = case["envs"].get(platform, {})
    found = envs.get(lname)
    for n in envs:
        if n != lname and n.lower() == lname:
            found = envs[n]
    return None if found is None else {str(k): ("" if v is None else str(v)) for k, v in found.items()}


def declared_sources(case):
    """returns (error?, selected dict, fallback_to_launch?)"""
    name = case["name"]
    lname = (name or "environment").lower()
    plat = case["platform"]
    if lname == "none":
        return None, {}, False
    d = _lookup_env(case, "default", lname)
    p = _lookup_env(case, plat, lname) if plat != "default" else None
    if d is None and p is None:
        if lname == "environment":
            return None, dict(case["launch"]), True
        return "unknownEnv", None, False
    sel = dict(d or {})
    sel.update(p or {})
    return None, sel, False


def expand_with(value, first, second):
    """references are expanded first from `first`, then from `second` (the launch environment)"""
    s = string.Template(value).safe_substitute(first)
    with patched_environ(second):
        return os.path.expandvars(s)


def oracle(case, out):
    err, sel, fallback = declared_sources(case)
    if err is not None:
        if out.get("error") != err:
            return "undefined-environment-not-reported", {"expected": err}
        return None, None
    if "error" in out:
        return "defined-environment-raises", {"got": out["error"]}
    env = out["ok"]
    launch = case["launch"]
    sysv = case["sys"]
    declared = dict(sysv)
    declared.update(sel)
    imports = [n for n in declared.get("DEFAULTS", "").split(":")] if "DEFAULTS" in declared else []
    allowed = set(declared) | {n for n in imports if n in launch}
    if case["interp"]:
        allowed |= {n for n in INTERP_VARS if n in launch}
    extra = sorted(k for k in env if k not in allowed)
    if extra:
        return "variable-from-undeclared-source", {"keys": extra}
    if "DEFAULTS" in env and "DEFAULTS" not in [n for n in imports if n in launch]:
        return "defaults-key-not-removed", None
    # values: declared text (imports merged) expanded from the environment itself, then from the launch env
    pre = dict(declared)
    for n in imports:
        if n in launch:
            if n in pre:
                pre[n] = string.Template(pre[n]).safe_substitute({n: launch[n]})
            else:
                pre[n] = launch[n]
    if "DEFAULTS" in declared:
        pre.pop("DEFAULTS", None)
    # every declared variable with a non-empty value is present (an empty one may be dropped, as coded)
    missing = sorted(k for k, v in pre.items() if v != "" and k not in env)
    if missing:
        return "declared-variable-missing", {"keys": missing}
    for k, v in env.items():
        if k in pre and pre[k] != "":
            exp = expand_with(pre[k], pre, launch)
            if v != exp:
                return "value-not-expanded-from-declared-sources", {"key": k, "expected": exp, "got": v}
        elif k in pre and v == "":
            pass  # declared empty and kept empty: neither required nor forbidden by the property
        elif case["interp"] and k in INTERP_VARS:
            # interpreter search path variable (not declared, or declared empty and therefore dropped)
            if v != launch.get(k):
                return "interpreter-variable-differs-from-launch", {"key": k}
        else:
            return "empty-or-undeclared-variable-present", {"key": k}
    # layering platform over default, key-wise (before expansion this is `sel`; checked through values above);
    # canary: a launch variable that nothing references or imports never shows up
    if not fallback and CANARY in launch and CANARY not in declared and CANARY not in imports:
        mentioned = any(CANARY in str(v) for v in pre.values()) or any(CANARY in str(v) for v in launch.values())
        if not mentioned and any(launch[CANARY] in v for v in env.values()):
            return "launch-variable-leaks-into-values", None
    return None, None


def classify_none(what, case, detail):
    return False


CLASSIFIERS = {}


# ----------------------------------------------------------------------------------------
# expansion primitives
# ----------------------------------------------------------------------------------------

ALPH = ["$", "$", "{", "}", "_", "a", "B", "1", "-", ":", "/", " ", "AB", "a1", "$$", "${", "é"]


def gen_subst_case(rng):
    s = "".join(rng.choice(ALPH) for _ in range(rng.randint(0, 10)))
    m = {}
    for nm in rng.sample(["a", "B", "AB", "a1", "_", "1", "a1B", "B1"], rng.randint(0, 5)):
        m[nm] = rng.choice(["", "<" + nm + ">", "$a", "${B}", "}"])
    return {"kind": rng.choice(["T", "E"]), "s": s, "map": m}


def impl_subst(c):
    if c["kind"] == "T":
        return string.Template(c["s"]).safe_substitute(c["map"])
    with patched_environ(c["map"]):
        return os.path.expandvars(c["s"])


def check_subst(ctx, cases):
    reqs = [{"op": "subst", "kind": c["kind"], "map": pairs(c["map"]), "s": c["s"]} for c in cases]
    mo = ctx.model(reqs)
    for i, c in enumerate(cases):
        out = impl_subst(c)
        ctx.case({"subst": c}, nontrivial=("$" in c["s"] and len(c["map"]) > 0), tags=["subst:" + c["kind"]])
        if mo is not None:
            ctx.compare("Env.substT/expandvars == string.Template.safe_substitute/os.path.expandvars", {"subst": c},
                        {"out": mo[i]["out"]}, {"out": out})


# ----------------------------------------------------------------------------------------

def nontrivial(case):
    return (case["name_kind"] not in ("none", "NONE")) and (len(case["launch"]) >= 2)


def check_cases(ctx, cases):
    reqs = []
    for c in cases:
        reqs.append(model_request(c))
        reqs.append(model_request(c, {"expand": False, "remove": c.get("wn_remove", True)}))
    mo = ctx.model(reqs)
    for i, c in enumerate(cases):
        raw = canon_out(impl(c), strip=False)
        out = canon_out(raw)
        tags = ["presence:" + c["presence"], "name:" + c["name_kind"],
                "platform:" + ("default" if c["platform"] == "default" else "other"),
                "interp:%s" % c["interp"], "impl:" + ("error:" + out["error"] if "error" in out else "ok")]
        if any("DEFAULTS" in d for e in c["envs"].values() for d in e.values()):
            tags.append("has-DEFAULTS")
        ctx.case(c, nontrivial=nontrivial(c), tags=tags)
        why, detail = oracle(c, raw)
        if why:
            ctx.fail(why, c, {"impl": raw, "detail": detail})
        if mo is not None:
            ctx.compare("environmentForNode == Env.envForNode", c, canon_out(mo[2 * i]), out)
            wn = {"expand": False, "remove": c.get("wn_remove", True)}
            out2 = canon_out(impl(c, wn))
            ctx.compare("environmentWithName(expand=False) == Env.envWithName", c, canon_out(mo[2 * i + 1]), out2)


CORPUS = [
    # DESIGN section 8 #11 (as coded, not a violation of C17 as stated): EMPTY is dropped, FOO is kept
    {"platforms": ["default"], "platform": "default", "envs": {"default": {"myenv": {"EMPTY": "", "FOO": "bar"}}},
     "name": "myenv", "launch": {"HOME": "/root"}, "sys": {}, "interp": False, "presence": "default",
     "name_kind": "named"},
    {"platforms": ["default", "plat"], "platform": "plat",
     "envs": {"default": {"MyEnv": {"A": "1", "B": "$A/x", "DEFAULTS": "PATH:FOO", "PATH": "/mine:$PATH"}},
              "plat": {"myenv": {"A": "2", "C": "${LAUNCH}"}}},
     "name": "MYENV", "launch": {"PATH": "/bin", "FOO": "foo", "LAUNCH": "LL", CANARY: "canary-1"},
     "sys": {"INSTANCE_DIR": "/i"}, "interp": True, "presence": "both", "name_kind": "named-case"},
]


def run(ctx):
    ctx.rule = ("case = (platforms, active platform, environments per platform with randomly cased names, selected "
                "name (named / re-cased / null / empty / none / NONE / environment / unknown), DEFAULTS lists, "
                "interpreter flag, system variables, launch environment with a canary variable); values drawn from a "
                "grammar of literals, $NAME, ${NAME}, $$ and ill-formed dollars; the full grid {presence on "
                "default/platform/both/neither} x {name kind} x {default/other platform} x {interpreter} is "
                "enumerated with random contents, plus random cases; non-trivial = the selected name is not 'none' "
                "and the launch environment has >= 2 variables; distinct by canonical JSON")
    ctx.assumptions = ["environment values contain no %(variable)s references (FlowIR.fill_in of environment values "
                       "with workflow variables is outside the model)",
                       "os.environ is replaced in-process for the duration of one call",
                       "a declared variable whose value is the empty string may be absent from the result "
                       "(conf.py 1362-1367, as coded; the property speaks about the sources of variables)"]
    ctx.trusted.append("C17: string.Template / os.path.expandvars are modelled as tokenisers (Env.tokT/tokE) and "
                       "compared with the library on random strings on every run; str() of non-string values done by "
                       "the harness")
    rng = ctx.rng
    quick = ctx.tier == "quick"
    cases = [dict(c) for c in CORPUS]
    reps = 2 if quick else 12
    kinds = ["named", "named-case", "null", "empty", "none", "NONE", "environment", "Environment", "unknown"]
    for presence, nk, plat, interp in itertools.product(["default", "platform", "both", "neither"], kinds,
                                                        ["default", "plat"], [False, True]):
        for _ in range(reps):
            cases.append(gen_case(rng, presence, nk, plat, interp))
    for _ in range(400 if quick else 6000):
        cases.append(gen_case(rng))
    ctx.exhaustive = False
    check_cases(ctx, cases)
    check_subst(ctx, [gen_subst_case(rng) for _ in range(3000 if quick else 40000)])


def replay(ctx, doc):
    case = doc.get("input") or doc["no_longer_checks"][-1]["input"]
    if "subst" in case:
        check_subst(ctx, [case["subst"]])
    else:
        check_cases(ctx, [case])
