"""C17 — Component environments are built only from their declared sources.

Implementation under test (real code, in-process, under a controlled os.environ):
  FlowIRConcrete(doc, platform, {}) -> FlowIRExperimentConfiguration(concrete=...) -> WorkflowGraph(...)
  -> WorkflowGraph.environmentForNode('stage0.c')        (conf.py 1163-1383, flowir.py 5502-5590, 1927-1937)
  and FlowIRExperimentConfiguration.environmentWithName(name, expand, remove_defaults_key).
  Both flavours of the configuration are driven: primitive (reads the package document) and replicated
  (primitive=False: reads the document FlowIRConcrete.instance(platform) produces, flowir.py 5262-5270 — what
  every running experiment does).
  Sessions: ONE configuration/graph object with several components and non-empty system variables serves a random
  sequence of environmentForNode (graph / componentSpecification.environment / configuration) /
  environmentWithName / defaultEnvironment calls, the caller rewriting the dictionaries it gets back; every
  answer is checked against the property oracle, against the answer of a fresh object, and against the model's
  session (Env.runCalls).
Model: lean/St4sd/Model/Env.lean via drv-c17.  Theorems: lean/St4sd/Props/C17.lean, Witness/C17.lean.
"""
from __future__ import annotations

import copy
import itertools
import json
import os
import string

INTERP_VARS = ["PATH", "PYTHONPATH", "PYTHONHOME", "LD_LIBRARY_PATH"]
VAR_NAMES = ["A", "B", "FOO", "bar", "X1", "_U", "PATH", "PYTHONPATH", "LD_LIBRARY_PATH", "PYTHONHOME", "HOME", "OMP"]
CANARY = "LEAK_CANARY"
SYS_NAMES = ["INSTANCE_DIR", "FLOW_EXPERIMENT_NAME", "FLOW_RUN_ID", "A", "PATH"]


# ----------------------------------------------------------------------------------------
# generators
# ----------------------------------------------------------------------------------------

def gen_value(rng, names, plain=False):
    """value grammar: literals, $NAME, ${NAME}, $$, and ill-formed dollars"""
    if plain:
        return rng.choice(["", "v", "/usr/bin:/bin", "x y", "1", "a=b", "ünï"])
    n = rng.choice([0, 1, 1, 2, 3, 4])
    out = []
    for _ in range(n):
        k = rng.random()
        nm = rng.choice(names + [CANARY, "UNDEF", "1x", ""])
        if k < 0.35:
            out.append(rng.choice(["v", "/opt/x", ":", "/", "a b", "-", "_", "9", "}", "{", "x=1", "é"]))
        elif k < 0.6:
            out.append("$" + nm)
        elif k < 0.85:
            out.append("${" + nm + "}")
        elif k < 0.9:
            out.append("$$")
        else:
            out.append(rng.choice(["$", "${", "${" + nm, "$-", "${a b}", "$" + nm + "$", "${}"]))
    return "".join(out)


def gen_dict(rng, names, lo=0, hi=4, raw=False):
    d = {}
    for nm in rng.sample(names, rng.randint(lo, min(hi, len(names)))):
        v = gen_value(rng, names)
        if raw and rng.random() < 0.12:
            v = rng.choice([None, 3, True, 2.5])
        if rng.random() < 0.12:
            v = ""
        d[nm] = v
    return d


def random_case(rng, s):
    return "".join(c.upper() if rng.random() < 0.5 else c.lower() for c in s)


def gen_case(rng, presence=None, name_kind=None, plat=None, interp=None, primitive=None):
    names = list(VAR_NAMES)
    platforms = ["default"] + rng.choice([[], ["plat"], ["plat", "other"]])
    if plat is None:
        plat = rng.choice(platforms)
    elif plat not in platforms:
        platforms.append(plat)
    base = rng.choice(["myenv", "my-env2", "e"])
    if presence is None:
        presence = rng.choice(["default", "platform", "both", "neither"])
    if name_kind is None:
        name_kind = rng.choice(["named", "named", "named", "named-case", "null", "empty", "none", "NONE",
                                "environment", "Environment", "unknown"])
    envs = {p: {} for p in platforms}

    def mk_env():
        d = gen_dict(rng, names, 0, 5, raw=True)
        if rng.random() < 0.5:
            segs = rng.sample(names + ["UNDEF", "", CANARY, "DEFAULTS"], rng.randint(0, 4))
            d["DEFAULTS"] = ":".join(segs)
        return d

    target = "environment" if name_kind in ("null", "empty", "environment", "Environment") else base
    if presence in ("default", "both"):
        envs["default"][random_case(rng, target) if rng.random() < 0.5 else target] = mk_env()
    if presence in ("platform", "both") and plat != "default":
        envs[plat][random_case(rng, target) if rng.random() < 0.5 else target] = mk_env()
    # distractors: other environments, and the same name on a platform that is not selected
    if rng.random() < 0.5:
        envs["default"]["otherenv"] = mk_env()
    for p in platforms:
        if p not in ("default", plat) and rng.random() < 0.5:
            envs[p][target] = mk_env()
    # (two spellings of one name on one platform are not generated here: which of them the loader keeps is a
    #  question of determinism of loading, property C15)
    name = {"named": base, "named-case": random_case(rng, base), "null": None, "empty": "", "none": "none",
            "NONE": rng.choice(["NONE", "None", "nOnE"]), "environment": "environment",
            "Environment": random_case(rng, "environment"), "unknown": "nosuchenv"}[name_kind]
    launch = gen_dict(rng, names, 0, 7)
    launch = {k: ("" if v is None else str(v)) for k, v in launch.items()}
    if rng.random() < 0.8:
        launch[CANARY] = "canary-" + str(rng.randint(0, 9))
    if rng.random() < 0.1:
        launch["DEFAULTS"] = "A:" + CANARY
    sysv = {}
    for nm in rng.sample(SYS_NAMES, rng.randint(0, 3)):
        sysv[nm] = rng.choice(["/i/dir", "exp", "", "$A", "s-" + nm])
    if interp is None:
        interp = rng.random() < 0.4
    if primitive is None:
        primitive = rng.random() < 0.5
    return {"platforms": platforms, "platform": plat, "envs": envs, "name": name, "launch": launch, "sys": sysv,
            "interp": interp, "presence": presence, "name_kind": name_kind, "primitive": primitive,
            "disk": (not primitive) and rng.random() < 0.25}


# ----------------------------------------------------------------------------------------
# real code
# ----------------------------------------------------------------------------------------

class patched_environ:
    def __init__(self, launch):
        self.launch = launch

    def __enter__(self):
        self.saved = dict(os.environ)
        os.environ.clear()
        os.environ.update(self.launch)

    def __exit__(self, *a):
        os.environ.clear()
        os.environ.update(self.saved)


def doc_for(case):
    cmd = {"executable": "ls"}
    if case["name"] is not None:
        cmd["environment"] = case["name"]
    if case["interp"]:
        cmd["interpreter"] = "bash"
    doc = {"components": [{"name": "c", "stage": 0, "command": cmd}],
           "platforms": list(case["platforms"]),
           "environments": {p: {n: dict(d) for n, d in e.items()} for p, e in case["envs"].items()}}
    return doc


class built:
    """context manager: the configuration + graph objects for a document, in one of three flavours —
    primitive (reads the package document), replicated (primitive=False: reads FlowIRConcrete.instance(platform)),
    or, with disk=True, replicated from an instance directory: the package is written to <dir>/conf, loaded with
    createInstanceFiles (which stores flowir_instance.yaml) and loaded again with is_instance=True (restart path).
    Must be entered inside patched_environ."""

    def __init__(self, doc, platform, sysv, primitive, disk):
        self.args = (doc, platform, sysv, bool(primitive), bool(disk) and not primitive)
        self.tmp = None

    def __enter__(self):
        import experiment.model.conf as C
        import experiment.model.frontends.flowir as F
        import experiment.model.graph as G
        doc, platform, sysv, prim, disk = self.args
        if disk:
            import tempfile
            import yaml
            self.tmp = tempfile.mkdtemp(prefix="c17-")
            os.makedirs(os.path.join(self.tmp, "conf"))
            with open(os.path.join(self.tmp, "conf", "flowir_package.yaml"), "w") as fh:
                yaml.safe_dump(doc, fh)
            C.FlowIRExperimentConfiguration(self.tmp, platform, None, dict(sysv), False, True, False, validate=False)
            conf = C.FlowIRExperimentConfiguration(self.tmp, platform, None, dict(sysv), True, False, False,
                                                   validate=False)
        else:
            conc = F.FlowIRConcrete(doc, platform, {})
            conf = C.FlowIRExperimentConfiguration(None, platform, None, dict(sysv), False, False, prim,
                                                   concrete=conc, validate=False)
        return conf, G.WorkflowGraph(conf, platform, prim)

    def __exit__(self, *a):
        if self.tmp:
            import shutil
            shutil.rmtree(self.tmp, ignore_errors=True)


def err_kind(exc):
    n = type(exc).__name__
    if n == "FlowIREnvironmentUnknown":
        return "unknownEnv"
    return "other:" + n


def impl(case, withname=None):
    import logging
    logging.disable(logging.CRITICAL)
    with patched_environ(case["launch"]):
        try:
            with built(doc_for(case), case["platform"], case["sys"], case.get("primitive", True),
                       case.get("disk", False)) as (conf, g):
                if withname is not None:
                    env = conf.environmentWithName(case["name"], expand=withname["expand"],
                                                   remove_defaults_key=withname["remove"])
                else:
                    env = g.environmentForNode("stage0.c")
                return {"ok": {str(k): str(v) for k, v in env.items()}}
        except Exception as exc:  # noqa
            return {"error": err_kind(exc)}


def pairs(d):
    return [[str(k), "" if v is None else str(v)] for k, v in d.items()]


def model_request(case, withname=None):
    req = {"op": "node" if withname is None else "withname",
           "sys": pairs(case["sys"]),
           "envs": [[p, [[n, pairs(d)] for n, d in e.items()]] for p, e in case["envs"].items()],
           "platform": case["platform"], "launch": pairs(case["launch"]), "name": case["name"],
           "interp": case["interp"], "primitive": bool(case.get("primitive", True)),
           "reload": bool(case.get("disk", False)) and not case.get("primitive", True)}
    if withname is not None:
        req.update(withname)
    return req


def canon_out(o, strip=True):
    if o is None:
        return None
    if "error" in o:
        return {"error": o["error"]}
    ok = o["ok"]
    if isinstance(ok, list):
        ok = {k: v for k, v in ok}
    # variables whose resulting value is the empty string are not compared: the code drops variables declared
    # empty (conf.py 1362-1367) and the property does not say whether they are present (the oracle still
    # rejects any key, empty or not, that comes from an undeclared source)
    return {"ok": {k: ok[k] for k in sorted(ok) if ok[k] != "" or not strip}}


# ----------------------------------------------------------------------------------------
# oracle: the property text restated on the inputs, independent of the Lean model
# ----------------------------------------------------------------------------------------

def _lookup_env(case, platform, lname):
    """environment `lname` (lower case) as declared for `platform`; names are case-insensitive; when a
    platform spells one name several ways the last differently-cased spelling wins (load order of the code)"""
    envs = case["envs"].get(platform, {})
    found = envs.get(lname)
    for n in envs:
        if n != lname and n.lower() == lname:
            found = envs[n]
    return None if found is None else {str(k): ("" if v is None else str(v)) for k, v in found.items()}


def declared_sources(case):
    """returns (error?, selected dict, fallback_to_launch?)"""
    name = case["name"]
    lname = (name or "environment").lower()
    plat = case["platform"]
    if lname == "none":
        return None, {}, False
    d = _lookup_env(case, "default", lname)
    p = _lookup_env(case, plat, lname) if plat != "default" else None
    if d is None and p is None:
        if lname == "environment":
            return None, dict(case["launch"]), True
        return "unknownEnv", None, False
    sel = dict(d or {})
    sel.update(p or {})
    return None, sel, False


def expand_with(value, first, second):
    """references are expanded first from `first`, then from `second` (the launch environment)"""
    s = string.Template(value).safe_substitute(first)
    with patched_environ(second):
        return os.path.expandvars(s)


def oracle(case, out, expand=True, remove=True):
    """`out` = what the code answered for `case` (environmentForNode, or environmentWithName(name, expand, remove)
    with case["interp"] False).  For expand=False only the sources of the variables are judged."""
    err, sel, fallback = declared_sources(case)
    if err is not None:
        if out.get("error") != err:
            return "undefined-environment-not-reported", {"expected": err}
        return None, None
    if "error" in out:
        return "defined-environment-raises", {"got": out["error"]}
    env = out["ok"]
    launch = case["launch"]
    sysv = case["sys"]
    declared = dict(sysv)
    declared.update(sel)
    imports = [n for n in declared.get("DEFAULTS", "").split(":")] if "DEFAULTS" in declared else []
    allowed = set(declared) | {n for n in imports if n in launch}
    if case["interp"]:
        allowed |= {n for n in INTERP_VARS if n in launch}
    extra = sorted(k for k in env if k not in allowed)
    if extra:
        return "variable-from-undeclared-source", {"keys": extra}
    if remove and "DEFAULTS" in env and "DEFAULTS" not in [n for n in imports if n in launch]:
        return "defaults-key-not-removed", None
    # values: declared text (imports merged) expanded from the environment itself, then from the launch env
    pre = dict(declared)
    for n in imports:
        if n in launch:
            if n in pre:
                pre[n] = string.Template(pre[n]).safe_substitute({n: launch[n]})
            else:
                pre[n] = launch[n]
    if "DEFAULTS" in declared and remove:
        pre.pop("DEFAULTS", None)
    # every declared variable with a non-empty value is present (an empty one may be dropped, as coded)
    missing = sorted(k for k, v in pre.items() if v != "" and k not in env)
    if missing:
        return "declared-variable-missing", {"keys": missing}
    if not expand:
        return None, None
    for k, v in env.items():
        if k in pre and pre[k] != "":
            exp = expand_with(pre[k], pre, launch)
            if v != exp:
                return "value-not-expanded-from-declared-sources", {"key": k, "expected": exp, "got": v}
        elif k in pre and v == "":
            pass  # declared empty and kept empty: neither required nor forbidden by the property
        elif case["interp"] and k in INTERP_VARS:
            # interpreter search path variable (not declared, or declared empty and therefore dropped)
            if v != launch.get(k):
                return "interpreter-variable-differs-from-launch", {"key": k}
        else:
            return "empty-or-undeclared-variable-present", {"key": k}
    # layering platform over default, key-wise (before expansion this is `sel`; checked through values above);
    # canary: a launch variable that nothing references or imports never shows up
    if not fallback and CANARY in launch and CANARY not in declared and CANARY not in imports:
        mentioned = any(CANARY in str(v) for v in pre.values()) or any(CANARY in str(v) for v in launch.values())
        if not mentioned and any(launch[CANARY] in v for v in env.values()):
            return "launch-variable-leaks-into-values", None
    return None, None


# ----------------------------------------------------------------------------------------
# sessions: one configuration object, many calls
# ----------------------------------------------------------------------------------------

ENV_POOL = ["myenv", "my-env2", "e", "environment"]
MUTATIONS = ["add", "overwrite", "clear", "defaults"]


def gen_session(rng, primitive=None):
    names = list(VAR_NAMES)
    platforms = ["default"] + rng.choice([[], ["plat"], ["plat", "other"]])
    plat = rng.choice(platforms)
    envs = {p: {} for p in platforms}

    def mk_env():
        d = gen_dict(rng, names, 0, 5, raw=True)
        if rng.random() < 0.4:
            d["DEFAULTS"] = ":".join(rng.sample(names + ["UNDEF", "", CANARY], rng.randint(0, 4)))
        return d

    for n in ENV_POOL:
        where = rng.choice(["default", "platform", "both", "neither"])
        if n == "environment" and rng.random() < 0.4:
            where = "neither"      # the package defines no default environment: the launch environment is used
        if where in ("default", "both"):
            envs["default"][random_case(rng, n) if rng.random() < 0.3 else n] = mk_env()
        if where in ("platform", "both") and plat != "default":
            envs[plat][random_case(rng, n) if rng.random() < 0.3 else n] = mk_env()
        for p in platforms:
            if p not in ("default", plat) and rng.random() < 0.3:
                envs[p][n] = mk_env()

    def pick_name():
        k = rng.random()
        if k < 0.22:
            return rng.choice([None, "", "environment", random_case(rng, "environment")])
        if k < 0.42:
            return rng.choice(["none", "NONE", "None", "nOnE"])
        if k < 0.92:
            n = rng.choice(ENV_POOL[:3])
            return n if rng.random() < 0.7 else random_case(rng, n)
        return "nosuchenv"

    comps = [{"env": pick_name(), "interp": rng.random() < 0.35} for _ in range(rng.randint(2, 4))]
    launch = {k: ("" if v is None else str(v)) for k, v in gen_dict(rng, names, 1, 7).items()}
    launch[CANARY] = "canary-" + str(rng.randint(0, 9))
    # system variables are never empty here: an experiment instance always has INSTANCE_DIR & co
    sysv = {}
    for nm in rng.sample(SYS_NAMES, rng.randint(1, 4)):
        sysv[nm] = rng.choice(["/i/dir", "exp", "$A", "s-" + nm, "run-1"])
    calls = []
    for _ in range(rng.randint(2, 7)):
        k = rng.random()
        if k < 0.55:
            call = {"op": "node", "comp": rng.randrange(len(comps)), "via": rng.choice(["graph", "spec", "conf"])}
        elif k < 0.85:
            call = {"op": "withname", "name": pick_name(), "expand": rng.random() < 0.7, "remove": rng.random() < 0.7}
        else:
            call = {"op": "default"}
        if rng.random() < 0.4:
            call["mutate"] = rng.choice(MUTATIONS)
        calls.append(call)
        if "mutate" in call and rng.random() < 0.7:
            again = dict(call)
            again.pop("mutate")
            calls.append(again)
    if primitive is None:
        primitive = rng.random() < 0.5
    return {"session": {"platforms": platforms, "platform": plat, "envs": envs, "launch": launch, "sys": sysv,
                        "primitive": primitive, "disk": (not primitive) and rng.random() < 0.25,
                        "comps": comps, "calls": calls}}


def session_doc(sess):
    comps = []
    for i, c in enumerate(sess["comps"]):
        cmd = {"executable": "ls"}
        if c["env"] is not None:
            cmd["environment"] = c["env"]
        if c["interp"]:
            cmd["interpreter"] = "bash"
        comps.append({"name": "c%d" % i, "stage": 0, "command": cmd})
    return {"components": comps, "platforms": list(sess["platforms"]),
            "environments": {p: {n: dict(d) for n, d in e.items()} for p, e in sess["envs"].items()}}


def mutation_edits(kind):
    return {"add": {"INJECTED_BY_CALLER": "1", "A": "caller"}, "defaults": {"DEFAULTS": CANARY + ":A:PATH"}}.get(kind, {})


def mutate_in_place(d, kind):
    """the caller owns the dictionary it was handed and rewrites it"""
    if kind == "overwrite":
        for k in list(d.keys()):
            d[k] = "overwritten-by-caller"
    elif kind == "clear":
        d.clear()
    else:
        d.update(mutation_edits(kind))


def run_session_impl(sess, calls=None):
    """serve `calls` (default: the session's) one after the other on ONE configuration/graph object; returns the
    list of answers ({"ok": {...}} | {"error": kind}), or {"construct": kind} when the object cannot be built"""
    import logging
    logging.disable(logging.CRITICAL)
    calls = sess["calls"] if calls is None else calls
    answers = []
    with patched_environ(sess["launch"]):
        b = built(session_doc(sess), sess["platform"], sess["sys"], sess.get("primitive", True),
                  sess.get("disk", False))
        try:
            conf, g = b.__enter__()
        except Exception as exc:  # noqa
            b.__exit__()
            return {"construct": "other:" + type(exc).__name__}
        for call in calls:
            env = None
            try:
                if call["op"] == "node":
                    node = "stage0.c%d" % call["comp"]
                    if call["via"] == "graph":
                        env = g.environmentForNode(node)
                    elif call["via"] == "spec":
                        env = g.graph.nodes[node]["componentSpecification"].environment
                    else:
                        env = conf.environmentForNode(node)
                elif call["op"] == "withname":
                    env = conf.environmentWithName(call["name"], expand=call["expand"],
                                                   remove_defaults_key=call["remove"])
                else:
                    env = conf.defaultEnvironment()
                answers.append({"ok": {str(k): str(v) for k, v in env.items()}})
            except Exception as exc:  # noqa
                answers.append({"error": err_kind(exc)})
            if env is not None and call.get("mutate"):
                try:
                    mutate_in_place(env, call["mutate"])
                except Exception:  # noqa
                    pass
        b.__exit__()
    return answers


def call_case(sess, call):
    """the single-call case (input of `oracle`) a call of a session corresponds to"""
    base = {k: sess[k] for k in ("platforms", "platform", "envs", "launch", "sys")}
    base["primitive"] = bool(sess.get("primitive", True))
    base["disk"] = bool(sess.get("disk", False))
    if call["op"] == "node":
        c = sess["comps"][call["comp"]]
        base.update(name=c["env"], interp=c["interp"])
    elif call["op"] == "withname":
        base.update(name=call["name"], interp=False)
    else:
        base.update(name=None, interp=False)
    return base


def oracle_default(sess, out):
    """defaultEnvironment(): 'the package's default environment (or the launch environment if the package defines
    none)' — exactly that, nothing of the system variables or of other environments"""
    err, sel, fallback = declared_sources(call_case(sess, {"op": "default"}))
    if "error" in out:
        return "default-environment-raises", {"got": out["error"]}
    if out["ok"] != sel:
        return "default-environment-differs-from-declared", {"expected": sel, "got": out["ok"]}
    return None, None


def flavour(c):
    if c.get("primitive", True):
        return "primitive"
    return "instance-directory" if c.get("disk") else "replicated"


def bare_call(call):
    return {k: v for k, v in call.items() if k != "mutate"}


def eval_session(sess):
    """(answers, failures): failures = [(slug, detail)] of the property oracle over every call of the session"""
    answers = run_session_impl(sess)
    fails = []
    if isinstance(answers, dict):
        # the object itself cannot be built: not an environment question; a fresh object must behave the same
        return answers, fails
    fresh_memo = {}
    for i, (call, out) in enumerate(zip(sess["calls"], answers)):
        if call["op"] == "default":
            why, detail = oracle_default(sess, out)
        elif call["op"] == "withname":
            why, detail = oracle(call_case(sess, call), out, expand=call["expand"], remove=call["remove"])
        else:
            why, detail = oracle(call_case(sess, call), out)
        if why:
            fails.append((why, {"call_index": i, "call": call, "impl": out, "detail": detail}))
        # construction is a function of the declared sources: the same call on a fresh object answers the same
        key = json.dumps(bare_call(call), sort_keys=True)
        if key not in fresh_memo:
            fr = run_session_impl(sess, [bare_call(call)])
            fresh_memo[key] = fr[0] if isinstance(fr, list) else fr
        if out != fresh_memo[key]:
            fails.append(("environment-depends-on-earlier-calls",
                          {"call_index": i, "call": call, "in_session": out, "fresh_object": fresh_memo[key]}))
    return answers, fails


def session_request(sess):
    calls = []
    for call in sess["calls"]:
        if call["op"] == "node":
            c = sess["comps"][call["comp"]]
            calls.append({"op": "node", "name": c["env"], "interp": c["interp"]})
        elif call["op"] == "withname":
            calls.append({"op": "withname", "name": call["name"], "expand": call["expand"], "remove": call["remove"]})
        else:
            calls.append({"op": "default"})
        if call.get("mutate"):
            calls.append({"op": "mutate", "edits": pairs(mutation_edits(call["mutate"]))})
    return {"op": "session", "sys": pairs(sess["sys"]),
            "envs": [[p, [[n, pairs(d)] for n, d in e.items()]] for p, e in sess["envs"].items()],
            "platform": sess["platform"], "launch": pairs(sess["launch"]),
            "primitive": bool(sess.get("primitive", True)),
            "reload": bool(sess.get("disk", False)) and not sess.get("primitive", True), "calls": calls}


def session_nontrivial(sess):
    ops = {(c["op"], c.get("comp"), c.get("name")) for c in sess["calls"]}
    return len(sess["calls"]) >= 2 and len(ops) >= 2 and len(sess["sys"]) >= 1


def check_sessions(ctx, cases):
    mo = ctx.model([session_request(c["session"]) for c in cases])
    for i, case in enumerate(cases):
        sess = case["session"]
        answers, fails = eval_session(sess)
        tags = ["session", "session-flavour:" + flavour(sess),
                "session-platform:" + ("default" if sess["platform"] == "default" else "other")]
        tags += sorted({"call:" + c["op"] + (":" + c["via"] if c["op"] == "node" else "") for c in sess["calls"]})
        tags += sorted({"mutate:" + c["mutate"] for c in sess["calls"] if c.get("mutate")})
        if isinstance(answers, dict):
            tags.append("session-construct-error")
        ctx.case(case, nontrivial=session_nontrivial(sess), tags=tags)
        for why, detail in fails:
            ctx.fail(why, case, detail)
        if mo is not None and not isinstance(answers, dict):
            model_answers = [a for a in mo[i]["answers"] if a is not None]
            ctx.compare("answers of a session on one configuration object == Env.runCalls",
                        case, [canon_out(a) for a in model_answers], [canon_out(a) for a in answers])


def shrink_case(what, case):
    """sessions: drop calls, then components' irrelevant parts stay (ddmin over the call list)"""
    if "session" not in case:
        return None
    from harness.common import shrink_list
    sess = case["session"]

    def still_fails(calls):
        if not calls:
            return False
        s2 = dict(sess, calls=list(calls))
        return any(w == what for w, _ in eval_session(s2)[1])

    calls = shrink_list(sess["calls"], still_fails, max_steps=60)
    small = dict(sess, calls=calls)

    def still_fails_env(names):
        s3 = dict(small, envs={p: {n: d for n, d in e.items() if [p, n] in names} for p, e in small["envs"].items()})
        return any(w == what for w, _ in eval_session(s3)[1])

    allnames = [[p, n] for p, e in small["envs"].items() for n in e]
    keep = shrink_list(allnames, still_fails_env, max_steps=40)
    small = dict(small, envs={p: {n: d for n, d in e.items() if [p, n] in keep} for p, e in small["envs"].items()})
    return {"session": small}


def classify_none(what, case, detail):
    return False


CLASSIFIERS = {}


# ----------------------------------------------------------------------------------------
# expansion primitives
# ----------------------------------------------------------------------------------------

ALPH = ["$", "$", "{", "}", "_", "a", "B", "1", "-", ":", "/", " ", "AB", "a1", "$$", "${", "é"]


def gen_subst_case(rng):
    s = "".join(rng.choice(ALPH) for _ in range(rng.randint(0, 10)))
    m = {}
    for nm in rng.sample(["a", "B", "AB", "a1", "_", "1", "a1B", "B1"], rng.randint(0, 5)):
        m[nm] = rng.choice(["", "<" + nm + ">", "$a", "${B}", "}"])
    return {"kind": rng.choice(["T", "E"]), "s": s, "map": m}


def impl_subst(c):
    if c["kind"] == "T":
        return string.Template(c["s"]).safe_substitute(c["map"])
    with patched_environ(c["map"]):
        return os.path.expandvars(c["s"])


def check_subst(ctx, cases):
    reqs = [{"op": "subst", "kind": c["kind"], "map": pairs(c["map"]), "s": c["s"]} for c in cases]
    mo = ctx.model(reqs)
    for i, c in enumerate(cases):
        out = impl_subst(c)
        ctx.case({"subst": c}, nontrivial=("$" in c["s"] and len(c["map"]) > 0), tags=["subst:" + c["kind"]])
        if mo is not None:
            ctx.compare("Env.substT/expandvars == string.Template.safe_substitute/os.path.expandvars", {"subst": c},
                        {"out": mo[i]["out"]}, {"out": out})


# ----------------------------------------------------------------------------------------

def nontrivial(case):
    return (case["name_kind"] not in ("none", "NONE")) and (len(case["launch"]) >= 2)


def check_cases(ctx, cases):
    reqs = []
    for c in cases:
        reqs.append(model_request(c))
        reqs.append(model_request(c, {"expand": False, "remove": c.get("wn_remove", True)}))
    mo = ctx.model(reqs)
    for i, c in enumerate(cases):
        raw = canon_out(impl(c), strip=False)
        out = canon_out(raw)
        tags = ["presence:" + c["presence"], "name:" + c["name_kind"],
                "platform:" + ("default" if c["platform"] == "default" else "other"),
                "interp:%s" % c["interp"], "impl:" + ("error:" + out["error"] if "error" in out else "ok"),
                "flavour:" + flavour(c)]
        if any("DEFAULTS" in d for e in c["envs"].values() for d in e.values()):
            tags.append("has-DEFAULTS")
        ctx.case(c, nontrivial=nontrivial(c), tags=tags)
        why, detail = oracle(c, raw)
        if why:
            ctx.fail(why, c, {"impl": raw, "detail": detail})
        if mo is not None:
            ctx.compare("environmentForNode == Env.envForNode", c, canon_out(mo[2 * i]), out)
            wn = {"expand": False, "remove": c.get("wn_remove", True)}
            out2 = canon_out(impl(c, wn))
            ctx.compare("environmentWithName(expand=False) == Env.envWithName", c, canon_out(mo[2 * i + 1]), out2)


CORPUS = [
    # DESIGN section 8 #11 (as coded, not a violation of C17 as stated): EMPTY is dropped, FOO is kept
    {"platforms": ["default"], "platform": "default", "envs": {"default": {"myenv": {"EMPTY": "", "FOO": "bar"}}},
     "name": "myenv", "launch": {"HOME": "/root"}, "sys": {}, "interp": False, "presence": "default",
     "name_kind": "named"},
    {"platforms": ["default", "plat"], "platform": "plat",
     "envs": {"default": {"MyEnv": {"A": "1", "B": "$A/x", "DEFAULTS": "PATH:FOO", "PATH": "/mine:$PATH"}},
              "plat": {"myenv": {"A": "2", "C": "${LAUNCH}"}}},
     "name": "MYENV", "launch": {"PATH": "/bin", "FOO": "foo", "LAUNCH": "LL", CANARY: "canary-1"},
     "sys": {"INSTANCE_DIR": "/i"}, "interp": True, "presence": "both", "name_kind": "named-case"},
    # Witness/C17.lean: the replicated configuration (instance document of platform hpc) must keep the variable
    # that only the default platform declares (fixes/C17-instance-environment-layering.diff)
    {"platforms": ["default", "hpc"], "platform": "hpc",
     "envs": {"default": {"myenv": {"A": "a", "B": "b"}}, "hpc": {"myenv": {"B": "b2"}}},
     "name": "myenv", "launch": {"HOME": "/root", CANARY: "canary-2"}, "sys": {"INSTANCE_DIR": "/i"}, "interp": False,
     "presence": "both", "name_kind": "named", "primitive": False},
]
CORPUS.append(dict(CORPUS[-1], disk=True))

SESSION_CORPUS = [
    # every kind of source once, twice, in both orders, on one object; the caller rewrites what it gets
    {"session": {"platforms": ["default", "hpc"], "platform": "hpc",
                 "envs": {"default": {"tools": {"TOOL_HOME": "/opt/tool", "DEFAULTS": "PATH", "PATH": "/t/bin:$PATH"},
                                      "environment": {"FROM_DEFAULT_ENV": "d", "DEFAULTS": "HOME"}},
                          "hpc": {"tools": {"TOOL_HOME": "/hpc/tool"}}},
                 "launch": {"PATH": "/bin", "HOME": "/root", CANARY: "canary-3"},
                 "sys": {"INSTANCE_DIR": "/i/dir", "FLOW_EXPERIMENT_NAME": "exp", "FLOW_RUN_ID": "run-1"},
                 "primitive": False,
                 "comps": [{"env": None, "interp": False}, {"env": "none", "interp": False},
                           {"env": "Tools", "interp": True}],
                 "calls": [{"op": "node", "comp": 1, "via": "spec"}, {"op": "node", "comp": 2, "via": "spec"},
                           {"op": "node", "comp": 0, "via": "spec", "mutate": "add"},
                           {"op": "node", "comp": 1, "via": "spec", "mutate": "defaults"},
                           {"op": "node", "comp": 2, "via": "graph", "mutate": "clear"},
                           {"op": "default", "mutate": "overwrite"},
                           {"op": "withname", "name": "tools", "expand": False, "remove": False, "mutate": "add"},
                           {"op": "node", "comp": 0, "via": "conf"}, {"op": "node", "comp": 1, "via": "conf"},
                           {"op": "node", "comp": 2, "via": "conf"}, {"op": "default"}]}},
]
for _prim, _envs in ((True, {"default": {"tools": {"TOOL_HOME": "/opt/tool"}}}),
                     (False, {"default": {"tools": {"TOOL_HOME": "/opt/tool"}}})):
    # a package without default environment: the default environment is the launch environment
    SESSION_CORPUS.append({"session": {
        "platforms": ["default"], "platform": "default", "envs": _envs,
        "launch": {"PATH": "/bin", "HOME": "/root", CANARY: "canary-4"},
        "sys": {"INSTANCE_DIR": "/i/dir", "FLOW_EXPERIMENT_NAME": "exp"}, "primitive": _prim,
        "comps": [{"env": None, "interp": False}, {"env": "none", "interp": False}, {"env": "tools", "interp": False}],
        "calls": [{"op": "node", "comp": 0, "via": "graph"}, {"op": "node", "comp": 1, "via": "graph"},
                  {"op": "node", "comp": 2, "via": "graph"}, {"op": "withname", "name": "NONE", "expand": True,
                                                              "remove": True}]}})
SESSION_CORPUS.append({"session": dict(SESSION_CORPUS[0]["session"], disk=True)})


def run(ctx):
    ctx.rule = ("case = (platforms, active platform, environments per platform with randomly cased names, selected "
                "name (named / re-cased / null / empty / none / NONE / environment / unknown), DEFAULTS lists, "
                "interpreter flag, system variables, launch environment with a canary variable); values drawn from a "
                "grammar of literals, $NAME, ${NAME}, $$ and ill-formed dollars; the full grid {presence on "
                "default/platform/both/neither} x {name kind} x {default/other platform} x {interpreter} is "
                "enumerated with random contents (alternating primitive / replicated configuration), plus random "
                "cases; non-trivial = the selected name is not 'none' and the launch environment has >= 2 "
                "variables.  Sessions: one configuration object (primitive or replicated, 2-4 components with their "
                "own environment name and interpreter flag, 4 environment names each on default/platform/both/neither, "
                ">= 1 system variable) serving 2-12 calls (environmentForNode via graph / componentSpecification / "
                "configuration, environmentWithName(name, expand, remove), defaultEnvironment), the caller rewriting "
                "returned dictionaries in place (add / overwrite / clear / inject DEFAULTS) and asking again; "
                "non-trivial = >= 2 different calls; distinct by canonical JSON")
    ctx.assumptions = ["environment values contain no %(variable)s references (FlowIR.fill_in of environment values "
                       "with workflow variables is outside the model)",
                       "os.environ is replaced in-process for the duration of one call / one session (the launch "
                       "environment does not change while a configuration object lives)",
                       "a declared variable whose value is the empty string may be absent from the result "
                       "(conf.py 1362-1367, as coded; the property speaks about the sources of variables)"]
    ctx.trusted.append("C17: string.Template / os.path.expandvars are modelled as tokenisers (Env.tokT/tokE) and "
                       "compared with the library on random strings on every run; str() of non-string values done by "
                       "the harness")
    rng = ctx.rng
    quick = ctx.tier == "quick"
    cases = [dict(c) for c in CORPUS]
    reps = 2 if quick else 12
    kinds = ["named", "named-case", "null", "empty", "none", "NONE", "environment", "Environment", "unknown"]
    for presence, nk, plat, interp in itertools.product(["default", "platform", "both", "neither"], kinds,
                                                        ["default", "plat"], [False, True]):
        for r in range(reps):
            cases.append(gen_case(rng, presence, nk, plat, interp, primitive=(r % 2 == 0)))
    for _ in range(400 if quick else 6000):
        cases.append(gen_case(rng))
    ctx.exhaustive = False
    ctx.shrinker = shrink_case
    check_cases(ctx, cases)
    sessions = [copy.deepcopy(c) for c in SESSION_CORPUS]
    for _ in range(320 if quick else 4000):
        sessions.append(gen_session(rng))
    check_sessions(ctx, sessions)
    check_subst(ctx, [gen_subst_case(rng) for _ in range(3000 if quick else 40000)])


def replay(ctx, doc):
    case = doc.get("input") or doc["no_longer_checks"][-1]["input"]
    if "subst" in case:
        check_subst(ctx, [case["subst"]])
    elif "session" in case:
        check_sessions(ctx, [case])
    else:
        check_cases(ctx, [case])
