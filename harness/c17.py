"""C17 — Component environments are built only from their declared sources.

Implementation under test (real code, in-process, under a controlled os.environ):
  FlowIRConcrete(doc, platform, {}) -> FlowIRExperimentConfiguration(concrete=...) -> WorkflowGraph(...)
  -> WorkflowGraph.environmentForNode('stage0.c')        (conf.py 1163-1383, flowir.py 5502-5590, 1927-1937)
  and FlowIRExperimentConfiguration.environmentWithName(name, expand, remove_defaults_key).
  Both flavours of the configuration are driven: primitive (reads the package document) and replicated
  (primitive=False: reads the document FlowIRConcrete.instance(platform) produces, flowir.py 5262-5270 — what
  every running experiment does).
  Sessions: ONE configuration/graph object with several components and non-empty system variables serves a random
  sequence of environmentForNode (graph / componentSpecification.environment / configuration) /
  environmentWithName / defaultEnvironment calls, the caller rewriting the dictionaries it gets back; every
  answer is checked against the property oracle, against the answer of a fresh object, and against the model's
  session (Env.runCalls).
  %(name)s references ("vars" cases, `gen_world_vars`): packages with global variables per platform and several
  environments whose variable names collide with global variable names and with each other, values referencing
  workflow variables by %(name)s (and $NAME), in shuffled document orders; driven through all three flavours, the
  flavours compared with each other where the order of the two expansions cannot matter, and a sample of all cases
  is run AGAIN at the end of the process in another order (same answers required).
  Other histories reaching the same code: a configuration object built for another platform / flavour / set of
  system variables, used, and re-parametrised in place (`conf.parametrize`, what graphFromPackage does) must answer
  like a fresh one ("history"); a sample of the cases is served by a child process with another hash seed (the
  code keeps sibling environments in hash-ordered containers).
  Typed scalars: the values of environment variables and of global variables are also YAML scalars other than
  strings — integers (0, negative, beyond 64 bits), floats (0.0, -0.0, exponents), booleans, null (environments only)
  and the strings that look like them — on the default platform, on the selected platform (overriding the default
  platform's value), in named environments and in the default environment `environment`, referenced by $NAME /
  ${NAME} / %(name)s from other values; the oracle requires the text of the scalar as the value (a variable is never
  dropped because its scalar is falsy; only null / '' is the empty string); the model gets the scalars typed
  (Model/C17Scalar.lean: Scalar.text).
Model: lean/St4sd/Model/Env.lean + Model/C17Vars.lean + Model/C17Scalar.lean via drv-c17.  Theorems: lean/St4sd/Props/C17.lean, Witness/C17.lean.
"""
from __future__ import annotations

import copy
import itertools
import json
import os
import re
import string

INTERP_VARS = ["PATH", "PYTHONPATH", "PYTHONHOME", "LD_LIBRARY_PATH"]
VAR_NAMES = ["A", "B", "FOO", "bar", "X1", "_U", "PATH", "PYTHONPATH", "LD_LIBRARY_PATH", "PYTHONHOME", "HOME", "OMP"]
CANARY = "LEAK_CANARY"
SYS_NAMES = ["INSTANCE_DIR", "FLOW_EXPERIMENT_NAME", "FLOW_RUN_ID", "A", "PATH"]


# ----------------------------------------------------------------------------------------
# generators
# ----------------------------------------------------------------------------------------

def gen_value(rng, names, plain=False):
    """value grammar: literals, $NAME, ${NAME}, $$, and ill-formed dollars"""
    if plain:
        return rng.choice(["", "v", "/usr/bin:/bin", "x y", "1", "a=b", "ünï"])
    n = rng.choice([0, 1, 1, 2, 3, 4])
    out = []
    for _ in range(n):
        k = rng.random()
        nm = rng.choice(names + [CANARY, "UNDEF", "1x", ""])
        if k < 0.35:
            out.append(rng.choice(["v", "/opt/x", ":", "/", "a b", "-", "_", "9", "}", "{", "x=1", "é"]))
        elif k < 0.6:
            out.append("$" + nm)
        elif k < 0.85:
            out.append("${" + nm + "}")
        elif k < 0.9:
            out.append("$$")
        else:
            out.append(rng.choice(["$", "${", "${" + nm, "$-", "${a b}", "$" + nm + "$", "${}"]))
    return "".join(out)


# YAML scalars other than strings that a document may give an environment variable (None = `X:` without a value)
# or a global variable (never None: FlowIRVariableInvalid): falsy ones (0, 0.0, -0.0, false), negative numbers,
# floats whose str() uses an exponent, integers beyond 64 bits, and the strings that look like them
FALSY_SCALARS = [0, 0.0, False, -0.0]
TYPED_SCALARS = [0, 0, 0.0, False, False, -0.0, 1, 3, 12, -1, -40, True, 2.5, -0.5, 1e-07, 1.5e+20, 10 ** 20]
STRINGY_SCALARS = ["0", "False", "0.0", "false", "None", "-1"]


def gen_scalar(rng, none_ok=True):
    k = rng.random()
    if k < 0.12 and none_ok:
        return None
    if k < 0.24:
        return rng.choice(STRINGY_SCALARS)
    return rng.choice(TYPED_SCALARS)


def is_typed(v):
    return v is None or isinstance(v, (bool, int, float))


def is_falsy_scalar(v):
    return v is not None and not isinstance(v, str) and not v


def gen_dict(rng, names, lo=0, hi=4, raw=False):
    d = {}
    for nm in rng.sample(names, rng.randint(lo, min(hi, len(names)))):
        v = gen_value(rng, names)
        if raw and rng.random() < 0.22:
            v = gen_scalar(rng)
        if rng.random() < 0.12:
            v = ""
        d[nm] = v
    return d


def random_case(rng, s):
    return "".join(c.upper() if rng.random() < 0.5 else c.lower() for c in s)


def gen_case(rng, presence=None, name_kind=None, plat=None, interp=None, primitive=None):
    names = list(VAR_NAMES)
    platforms = ["default"] + rng.choice([[], ["plat"], ["plat", "other"]])
    if plat is None:
        plat = rng.choice(platforms)
    elif plat not in platforms:
        platforms.append(plat)
    base = rng.choice(["myenv", "my-env2", "e"])
    if presence is None:
        presence = rng.choice(["default", "platform", "both", "neither"])
    if name_kind is None:
        name_kind = rng.choice(["named", "named", "named", "named-case", "null", "empty", "none", "NONE",
                                "environment", "Environment", "unknown"])
    envs = {p: {} for p in platforms}

    def mk_env():
        d = gen_dict(rng, names, 0, 5, raw=True)
        if rng.random() < 0.5:
            segs = rng.sample(names + ["UNDEF", "", CANARY, "DEFAULTS"], rng.randint(0, 4))
            d["DEFAULTS"] = ":".join(segs)
        return d

    target = "environment" if name_kind in ("null", "empty", "environment", "Environment") else base
    if presence in ("default", "both"):
        envs["default"][random_case(rng, target) if rng.random() < 0.5 else target] = mk_env()
    if presence in ("platform", "both") and plat != "default":
        envs[plat][random_case(rng, target) if rng.random() < 0.5 else target] = mk_env()
    # distractors: other environments, and the same name on a platform that is not selected
    if rng.random() < 0.5:
        envs["default"]["otherenv"] = mk_env()
    for p in platforms:
        if p not in ("default", plat) and rng.random() < 0.5:
            envs[p][target] = mk_env()
    # (two spellings of one name on one platform are not generated here: which of them the loader keeps is a
    #  question of determinism of loading, property C15)
    name = {"named": base, "named-case": random_case(rng, base), "null": None, "empty": "", "none": "none",
            "NONE": rng.choice(["NONE", "None", "nOnE"]), "environment": "environment",
            "Environment": random_case(rng, "environment"), "unknown": "nosuchenv"}[name_kind]
    launch = gen_dict(rng, names, 0, 7)
    launch = {k: ("" if v is None else str(v)) for k, v in launch.items()}
    if rng.random() < 0.8:
        launch[CANARY] = "canary-" + str(rng.randint(0, 9))
    if rng.random() < 0.1:
        launch["DEFAULTS"] = "A:" + CANARY
    sysv = {}
    for nm in rng.sample(SYS_NAMES, rng.randint(0, 3)):
        sysv[nm] = rng.choice(["/i/dir", "exp", "", "$A", "s-" + nm])
    if interp is None:
        interp = rng.random() < 0.4
    if primitive is None:
        primitive = rng.random() < 0.5
    case = {"platforms": platforms, "platform": plat, "envs": envs, "name": name, "launch": launch, "sys": sysv,
            "interp": interp, "presence": presence, "name_kind": name_kind, "primitive": primitive,
            "disk": (not primitive) and rng.random() < 0.25}
    gen_history(rng, case)
    return case



# ----------------------------------------------------------------------------------------
# %(name)s references: worlds with global variables and several environments with colliding names
# ----------------------------------------------------------------------------------------

VPOOL = ["prefix", "X", "A", "B", "FOO", "bar", "PATH", "HOME", "root", "tool_dir", "INSTANCE_DIR", "OMP", "LIBDIR",
         "BIN", "X1", "_U", "PYTHONPATH", "E", "n-cpus", "FLOW_RUN_ID"]
VLITS = ["v", "/opt/x", ":", "/", "a b", "-", "_", "9", "x=1", "é", ".", "/bin", "s", "}", "{"]
VENV_NAMES = ["a_tools", "otherenv", "zz-env", "b_tools"]
_IDENT = re.compile(r"^[_a-zA-Z][_a-zA-Z0-9]*$")


def gen_vvalue(rng, key, rank, scope, dollar, unresolvable=0.05):
    """a text for variable `key`: literals (never % ( ) [ ]), %(M)s with rank(M) < rank(key), $M / ${M} with
    rank(M) <= rank(key): whatever combination of definitions ends up in one interpolation context, the
    %-reference graph is acyclic (a cycle makes FlowIR.interpolate recurse without end)"""
    lower = [n for n in VPOOL if rank[n] < rank.get(key, len(VPOOL))]
    lower_scope = [n for n in lower if n in scope]
    upto = [n for n in VPOOL if rank[n] <= rank.get(key, len(VPOOL)) and _IDENT.match(n)]
    out = []
    for _ in range(rng.choice([0, 1, 1, 2, 2, 3])):
        k = rng.random()
        if k < 0.35 or not lower:
            out.append(rng.choice(VLITS))
        elif k < 0.8 or not dollar or not upto:
            r = rng.random()
            if r < unresolvable:
                m = rng.choice(["UNDEF", "UNDEF", "replica"])
            elif r < 0.75 and lower_scope:
                m = rng.choice(lower_scope)
            else:
                m = rng.choice(lower)
            out.append("%(" + m + ")s")
        else:
            m = rng.choice(upto)
            out.append(rng.choice(["$" + m, "${" + m + "}"]))
    return "".join(out)


def gen_gvalue(rng, key, rank, visible, dollar):
    """a text for global variable `key`: literals, %(M)s with M a lower-ranked global variable visible to the same
    platform, rarely $M"""
    lower = [n for n in VPOOL if rank[n] < rank[key] and n in visible]
    out = []
    for _ in range(rng.choice([0, 1, 1, 2, 2, 3])):
        k = rng.random()
        if k < 0.45 or not lower:
            out.append(rng.choice(VLITS))
        elif k < 0.9 or not dollar:
            out.append("%(" + rng.choice(lower) + ")s")
        else:
            out.append("$" + rng.choice([n for n in VPOOL if _IDENT.match(n)]))
    return "".join(out)


def gen_world_vars(rng, pure=None, plat=None):
    """platforms, global variables per platform, 2-5 environments (on default / platform / both, in shuffled
    document order) whose keys are drawn from the pool the global variables are drawn from, launch + system vars"""
    order = list(VPOOL)
    rng.shuffle(order)
    rank = {n: i for i, n in enumerate(order)}
    platforms = ["default"] + rng.choice([[], ["plat"], ["plat"], ["plat", "other"]])
    if plat is None:
        plat = rng.choice(platforms)
    elif plat not in platforms:
        platforms.append(plat)
    if pure is None:
        pure = rng.random() < 0.45
    base = rng.choice(["myenv", "my-env2", "e"])
    gkeys = {}
    for p in platforms:
        k = rng.random()
        if p != "default" and k < 0.2:
            continue                                   # the platform declares no variables at all
        gkeys[p] = rng.sample(VPOOL, rng.randint(0, 6)) if k > 0.3 else []
    if rng.random() < 0.9:
        gkeys.setdefault("default", [])
        if not gkeys["default"]:
            gkeys["default"] = rng.sample(VPOOL, rng.randint(2, 6))
    allg = {n for ks in gkeys.values() for n in ks}
    # which environment is declared where, and with which keys
    names = [base] + rng.sample(VENV_NAMES, rng.randint(1, 3))
    if rng.random() < 0.5:
        names.append("environment")
    ekeys = {}
    for n in names:
        where = rng.choice(["default", "platform", "both", "default", "both"])
        if where in ("default", "both"):
            ekeys[("default", n)] = rng.sample(VPOOL, rng.randint(0, 5))
        if where in ("platform", "both") and plat != "default":
            ekeys[(plat, n)] = rng.sample(VPOOL, rng.randint(0, 4))
        for p in platforms:
            if p not in ("default", plat) and rng.random() < 0.3:
                ekeys[(p, n)] = rng.sample(VPOOL, rng.randint(0, 3))
    syskeys = rng.sample(SYS_NAMES, rng.randint(0, 3))
    variables = {}
    for p, ks in gkeys.items():
        variables[p] = {}
        for n in ks:
            if rng.random() < 0.16:
                variables[p][n] = gen_scalar(rng, none_ok=False)
            elif rng.random() < 0.08:
                variables[p][n] = ""
            else:
                # global variables resolve among themselves (a global variable that does not is an error of
                # every component of the package — get_component_configuration — not an environment question)
                visible = set(gkeys.get("default", [])) | set(ks)
                variables[p][n] = gen_gvalue(rng, n, rank, visible, (not pure) and rng.random() < 0.15)
    envs = {p: {} for p in platforms}
    items = list(ekeys.items())
    rng.shuffle(items)                                  # document order of the environments
    for (p, n), ks in items:
        scope = set(allg) | set(syskeys) | set(ekeys.get(("default", n), [])) | set(ekeys.get((plat, n), []))
        d = {}
        for k in ks:
            d[k] = "" if rng.random() < 0.06 else gen_vvalue(rng, k, rank, scope, not pure)
            if rng.random() < 0.14:
                # not null here: a variable declared without a value that a %(name)s reference reaches makes
                # FlowIRConcrete.instance fail (FlowIRVariableInvalid, like a null global variable); null values of
                # environments are generated where no %(name)s reference exists (gen_case / gen_session)
                d[k] = gen_scalar(rng, none_ok=False)
        if not pure and rng.random() < 0.3:
            d["DEFAULTS"] = ":".join(rng.sample(VPOOL + ["UNDEF", "", CANARY], rng.randint(0, 3)))
        spelled = random_case(rng, n) if rng.random() < 0.25 else n
        envs[p][spelled] = d
    launch = {}
    for n in rng.sample(VPOOL + INTERP_VARS, rng.randint(0, 6)):
        launch[n] = rng.choice(["", "v", "/usr/bin:/bin", "x y", "1", "/l/" + n])
    launch[CANARY] = "canary-" + str(rng.randint(0, 9))
    sysv = {n: rng.choice(["/i/dir", "exp", "run-1", "s-" + n]) for n in syskeys}
    return {"platforms": platforms, "platform": plat, "envs": envs, "vars": variables, "launch": launch, "sys": sysv,
            "pure": pure}, base


def pick_name_vars(rng, world, base):
    k = rng.random()
    declared = sorted({n.lower() for e in world["envs"].values() for n in e})
    if k < 0.62 and declared:
        n = rng.choice(declared + [base])
        return (n if rng.random() < 0.7 else random_case(rng, n)), "named"
    if k < 0.8:
        return rng.choice([None, "", "environment", random_case(rng, "environment")]), "environment"
    if k < 0.88:
        return rng.choice(["none", "NONE", "nOnE"]), "none"
    if k < 0.94:
        return "nosuchenv", "unknown"
    return base, "named"


def gen_history(rng, world):
    """an earlier parametrisation of the same configuration object (other platform / flavour / system variables)"""
    if world.get("disk") or rng.random() > 0.15:
        return
    world["history"] = {"platform": rng.choice(world["platforms"]), "primitive": rng.random() < 0.5,
                        "sys": {"INSTANCE_DIR": "/earlier/instance", "EARLIER_SYSTEM_VAR": "1", "A": "earlier"}}


def gen_case_vars(rng, primitive=None, pure=None, plat=None):
    world, base = gen_world_vars(rng, pure, plat)
    name, kind = pick_name_vars(rng, world, base)
    if primitive is None:
        primitive = rng.random() < 0.4
    lname = (name or "environment").lower()
    on_d = any(n.lower() == lname for n in world["envs"].get("default", {}))
    on_p = world["platform"] != "default" and any(n.lower() == lname for n in world["envs"].get(world["platform"], {}))
    presence = "both" if on_d and on_p else "default" if on_d else "platform" if on_p else "neither"
    world.update(name=name, interp=rng.random() < 0.3, presence=presence, name_kind=kind, primitive=primitive,
                 disk=(not primitive) and rng.random() < 0.25)
    gen_history(rng, world)
    return world


# ----------------------------------------------------------------------------------------
# real code
# ----------------------------------------------------------------------------------------

class patched_environ:
    def __init__(self, launch):
        self.launch = launch

    def __enter__(self):
        self.saved = dict(os.environ)
        os.environ.clear()
        os.environ.update(self.launch)

    def __exit__(self, *a):
        os.environ.clear()
        os.environ.update(self.saved)


def doc_for(case):
    cmd = {"executable": "ls"}
    if case["name"] is not None:
        cmd["environment"] = case["name"]
    if case["interp"]:
        cmd["interpreter"] = "bash"
    doc = {"components": [{"name": "c", "stage": 0, "command": cmd}],
           "platforms": list(case["platforms"]),
           "environments": env_section(case)}
    add_variables(doc, case)
    return doc


def env_section(case):
    """`environments:` of the document; a platform (other than default) that declares no environment is written
    as an empty mapping or left out of the section (must make no difference)"""
    out = {}
    for p, e in case["envs"].items():
        if not e and p != "default" and (len(case["launch"]) + len(case["sys"])) % 2 == 1:
            continue
        out[p] = {n: dict(d) for n, d in e.items()}
    return out


def add_variables(doc, case):
    """`variables:` of the document (global scope); a platform without variables is missing from the section, or
    present and empty in one of three spellings (must make no difference)"""
    if "vars" not in case:
        return
    doc["variables"] = {}
    for p in case["platforms"]:
        if p in case["vars"]:
            doc["variables"][p] = {"global": dict(case["vars"][p])}
        else:
            k = (len(case["launch"]) + len(p) + len(case["envs"].get("default", {}))) % 4   # deterministic in the case
            if k == 1:
                doc["variables"][p] = {}
            elif k == 2:
                doc["variables"][p] = {"global": {}}
            elif k == 3:
                doc["variables"][p] = {"global": {}, "stages": {}}


class built:
    """context manager: the configuration + graph objects for a document, in one of three flavours —
    primitive (reads the package document), replicated (primitive=False: reads FlowIRConcrete.instance(platform)),
    or, with disk=True, replicated from an instance directory: the package is written to <dir>/conf, loaded with
    createInstanceFiles (which stores flowir_instance.yaml) and loaded again with is_instance=True (restart path).
    Must be entered inside patched_environ."""

    def __init__(self, doc, platform, sysv, primitive, disk, history=None):
        self.args = (doc, platform, sysv, bool(primitive), bool(disk) and not primitive)
        self.history = history
        self.tmp = None

    def __enter__(self):
        import experiment.model.conf as C
        import experiment.model.frontends.flowir as F
        import experiment.model.graph as G
        doc, platform, sysv, prim, disk = self.args
        if disk:
            import tempfile
            import yaml
            self.tmp = tempfile.mkdtemp(prefix="c17-")
            os.makedirs(os.path.join(self.tmp, "conf"))
            with open(os.path.join(self.tmp, "conf", "flowir_package.yaml"), "w") as fh:
                yaml.safe_dump(doc, fh)
            C.FlowIRExperimentConfiguration(self.tmp, platform, None, dict(sysv), False, True, False, validate=False)
            conf = C.FlowIRExperimentConfiguration(self.tmp, platform, None, dict(sysv), True, False, False,
                                                   validate=False)
        else:
            conf = None
            if self.history:
                # another entry point to the same code: a configuration object built for ANOTHER platform / flavour /
                # set of system variables, used, and then re-parametrised in place (what graphFromPackage does with
                # the configuration of an ExperimentPackage)
                h = self.history
                try:
                    conc = F.FlowIRConcrete(copy.deepcopy(doc), h["platform"], {})
                    conf = C.FlowIRExperimentConfiguration(None, h["platform"], None, dict(h["sys"]), False, False,
                                                           bool(h["primitive"]), concrete=conc, validate=False)
                    try:
                        g0 = G.WorkflowGraph(conf, h["platform"], bool(h["primitive"]))
                        for node in list(g0.graph.nodes):
                            g0.environmentForNode(node)
                    except Exception:  # noqa
                        pass
                    conf.parametrize(platform=platform, variable_files=None, systemvars=dict(sysv), is_instance=False,
                                     createInstanceFiles=False, primitive=prim, updateInstanceFiles=False,
                                     validate=False)
                except Exception:  # noqa
                    conf = None      # the package cannot be configured for the earlier platform: no history then
            if conf is None:
                conc = F.FlowIRConcrete(doc, platform, {})
                conf = C.FlowIRExperimentConfiguration(None, platform, None, dict(sysv), False, False, prim,
                                                       concrete=conc, validate=False)
        return conf, G.WorkflowGraph(conf, platform, prim)

    def __exit__(self, *a):
        if self.tmp:
            import shutil
            shutil.rmtree(self.tmp, ignore_errors=True)


def err_kind(exc):
    n = type(exc).__name__
    if n == "FlowIREnvironmentUnknown":
        return "unknownEnv"
    if n == "FlowIRVariableUnknown":
        return "unknownVar"
    return "other:" + n


class verbose_logging:
    """ambient setting a user may change: every logger at DEBUG (records are formatted and dropped)"""

    def __enter__(self):
        import logging
        self.root = logging.getLogger()
        self.saved = (self.root.level, list(self.root.handlers))
        self.root.handlers = [logging.NullHandler()]
        self.root.setLevel(1)
        logging.disable(logging.NOTSET)

    def __exit__(self, *a):
        import logging
        self.root.setLevel(self.saved[0])
        self.root.handlers = self.saved[1]
        logging.disable(logging.CRITICAL)


def impl(case, withname=None, verbose=False):
    import logging
    if verbose:
        with verbose_logging():
            return impl(case, withname, None)
    if verbose is False:
        logging.disable(logging.CRITICAL)
    with patched_environ(case["launch"]):
        try:
            with built(doc_for(case), case["platform"], case["sys"], case.get("primitive", True),
                       case.get("disk", False), case.get("history")) as (conf, g):
                if withname is not None:
                    env = conf.environmentWithName(case["name"], expand=withname["expand"],
                                                   remove_defaults_key=withname["remove"])
                else:
                    env = g.environmentForNode("stage0.c")
                return {"ok": {str(k): str(v) for k, v in env.items()}}
        except Exception as exc:  # noqa
            return {"error": err_kind(exc)}


def pairs(d):
    return [[str(k), "" if v is None else str(v)] for k, v in d.items()]


def scalar_json(v):
    """a value of the document for the model (Model/C17Scalar.lean): string / integer / boolean / null as they are
    (the model renders them), a float as the text str() gives (float formatting is not modelled)"""
    if v is None or isinstance(v, (bool, str)):
        return v
    if isinstance(v, int):
        return v
    if isinstance(v, float):
        return {"float": str(v)}
    return str(v)


def tpairs(d):
    return [[str(k), scalar_json(v)] for k, v in d.items()]


def model_request(case, withname=None):
    req = {"op": "node" if withname is None else "withname",
           "sys": pairs(case["sys"]),
           "envs": [[p, [[n, tpairs(d)] for n, d in e.items()]] for p, e in case["envs"].items()],
           "platform": case["platform"], "launch": pairs(case["launch"]), "name": case["name"],
           "interp": case["interp"], "primitive": bool(case.get("primitive", True)),
           "reload": bool(case.get("disk", False)) and not case.get("primitive", True)}
    if "vars" in case:
        req["vars"] = [[p, tpairs(d)] for p, d in case["vars"].items()]
    if withname is not None:
        req.update(withname)
    return req


def canon_out(o, strip=True):
    if o is None:
        return None
    if "error" in o:
        return {"error": o["error"]}
    ok = o["ok"]
    if isinstance(ok, list):
        ok = {k: v for k, v in ok}
    # variables whose resulting value is the empty string are not compared: the code drops variables declared
    # empty (conf.py 1362-1367) and the property does not say whether they are present (the oracle still
    # rejects any key, empty or not, that comes from an undeclared source)
    return {"ok": {k: ok[k] for k in sorted(ok) if ok[k] != "" or not strip}}


# ----------------------------------------------------------------------------------------
# oracle: the property text restated on the inputs, independent of the Lean model
# ----------------------------------------------------------------------------------------

def scalar_text(v):
    """the text of a scalar of the document as a value of an environment variable: a variable declared without a
    value (null) is the empty string; a number or a boolean is a value like any other — `0`, `0.0`, `false` too —
    rendered the way Python prints it (what the unchanged tree does; the property text does not name a spelling)"""
    return "" if v is None else str(v)


def _lookup_env(case, platform, lname, raw=False):
    """environment `lname` (lower case) as declared for `platform`; names are case-insensitive; when a
    platform spells one name several ways the last differently-cased spelling wins (load order of the code)"""
    envs = case["envs"].get(platform, {})
    found = envs.get(lname)
    for n in envs:
        if n != lname and n.lower() == lname:
            found = envs[n]
    if raw:
        return found
    return None if found is None else {str(k): scalar_text(v) for k, v in found.items()}


REF = re.compile(r"\$\{?([_a-zA-Z][_a-zA-Z0-9]*)|%\(([a-zA-Z0-9_.-]+)\)s")


def typed_tags(case):
    """which of the typed-scalar shapes the case has (input distribution in the evidence)"""
    lname = (case["name"] or "environment").lower()
    if lname == "none":
        return []
    d = _lookup_env(case, "default", lname, raw=True) or {}
    p = (_lookup_env(case, case["platform"], lname, raw=True) or {}) if case["platform"] != "default" else {}
    sel = dict(d)
    sel.update(p)
    tags = set()
    for k, v in sel.items():
        if is_typed(v):
            tags.add("env-value:" + ("null" if v is None else type(v).__name__))
        if is_falsy_scalar(v):
            tags.add("env-value:falsy-scalar")
    if any(is_falsy_scalar(v) and k in d and d[k] not in (None, "") for k, v in p.items()):
        tags.add("falsy-scalar-of-platform-overrides-default-platform-value")
    if any(v is None and k in d and d[k] not in (None, "") for k, v in p.items()):
        tags.add("null-of-platform-overrides-default-platform-value")
    g = {}
    for pl in ("default", case["platform"]):
        g.update(case.get("vars", {}).get(pl) or {})
    refs = {m.group(1) or m.group(2) for v in list(sel.values()) + list(g.values()) if isinstance(v, str)
            for m in REF.finditer(v)}
    if any(is_falsy_scalar(sel.get(r)) for r in refs):
        tags.add("falsy-env-value-referenced-by-another-value")
    for k, v in g.items():
        if is_typed(v):
            tags.add("global-variable:" + type(v).__name__)
        if is_falsy_scalar(v) and k in refs and k not in sel:
            tags.add("falsy-global-variable-referenced-by-env-value")
    return sorted(tags)


def declared_sources(case):
    """returns (error?, selected dict, fallback_to_launch?)"""
    name = case["name"]
    lname = (name or "environment").lower()
    plat = case["platform"]
    if lname == "none":
        return None, {}, False
    d = _lookup_env(case, "default", lname)
    p = _lookup_env(case, plat, lname) if plat != "default" else None
    if d is None and p is None:
        if lname == "environment":
            return None, dict(case["launch"]), True
        return "unknownEnv", None, False
    sel = dict(d or {})
    sel.update(p or {})
    return None, sel, False


def expand_with(value, first, second):
    """references are expanded first from `first`, then from `second` (the launch environment)"""
    s = string.Template(value).safe_substitute(first)
    with patched_environ(second):
        return os.path.expandvars(s)


PCT = re.compile(r"%\(([a-zA-Z0-9_.-]+)\)s")


def pct_resolve(name, ctx, safe, depth=0):
    """the value of workflow variable `name` with every reference inside it resolved (recursively, same context);
    None when the variable, or something it references, is not defined by `ctx`.  `safe`: %(replica)s may stay."""
    if name not in ctx or depth > 64:
        return None
    ok = [True]

    def rep(m):
        r = pct_resolve(m.group(1), ctx, safe, depth + 1)
        if r is None:
            if not (safe and m.group(1) == "replica"):
                ok[0] = False
            return m.group(0)
        return r

    v = PCT.sub(rep, str(ctx[name]))
    return v if ok[0] else None


def pct_fill(value, ctx, safe=False):
    """`value` with every %(name)s that `ctx` resolves replaced; the others stay as they are"""
    def rep(m):
        r = pct_resolve(m.group(1), ctx, safe)
        return m.group(0) if r is None else r
    return PCT.sub(rep, value)


def layered_globals(case):
    """global variables visible to the active platform: the platform's over the default platform's"""
    g = {}
    for p in ("default", case["platform"]):
        for k, v in (case.get("vars", {}).get(p) or {}).items():
            g[str(k)] = scalar_text(v)
    return g


def selection_as_read(case):
    """declared_sources + the global variables, as the configuration object reads them: a replicated configuration
    reads the instance document, in which the %(name)s references of global variables (among themselves) and of
    every environment (from itself and the global variables) are already resolved"""
    err, sel, fallback = declared_sources(case)
    G = {}
    if err is None and "vars" in case:
        G = layered_globals(case)
        if not case.get("primitive", True):
            stored = bool(case.get("disk"))      # flowir_instance.yaml is made with is_primitive=True
            G = {k: pct_fill(v, G, stored) for k, v in G.items()}
            if not fallback:
                own = dict(G)
                own.update(sel)
                sel = {k: pct_fill(v, own, stored) for k, v in sel.items()}
    return err, sel, fallback, G


def oracle(case, out, expand=True, remove=True, node=True):
    """`out` = what the code answered for `case` (environmentForNode, or — node=False — environmentWithName(name,
    expand, remove) with case["interp"] False).  For expand=False only the sources of the variables are judged.

    Cases with "vars": values may reference workflow variables by %(name)s.  Such a reference is resolved from the
    selected environment itself and the global variables of the active platform (layered over the default
    platform's) — never from another environment.  The replicated flavours resolve them when the instance document
    is made (global variables among themselves first; before the $NAME expansion), the primitive flavour in
    environmentForNode (after the $NAME expansion); environmentForNode finally resolves what is left from the
    global variables and the environment built (system variables, imports), and reports a reference nothing
    resolves (FlowIRVariableUnknown) — except %(replica)s of a primitive graph, which stays."""
    err, sel, fallback, G = selection_as_read(case)
    if err is not None:
        if out.get("error") != err:
            return "undefined-environment-not-reported", {"expected": err}
        return None, None
    vars_mode = "vars" in case
    prim = bool(case.get("primitive", True))
    launch = case["launch"]
    sysv = case["sys"]
    declared = dict(sysv)
    declared.update(sel)
    imports = [n for n in declared.get("DEFAULTS", "").split(":")] if "DEFAULTS" in declared else []
    # values: declared text (imports merged) expanded from the environment itself, then from the launch env
    pre = dict(declared)
    for n in imports:
        if n in launch:
            if n in pre:
                pre[n] = string.Template(pre[n]).safe_substitute({n: launch[n]})
            else:
                pre[n] = launch[n]
    if "DEFAULTS" in declared and remove:
        pre.pop("DEFAULTS", None)
    expected = {}
    if expand:
        expected = {k: expand_with(v, pre, launch) for k, v in pre.items() if v != ""}
        if vars_mode and node:
            own = dict(G)
            own.update(expected)
            expected = {k: pct_fill(v, own, prim) for k, v in expected.items()}
    if "error" in out:
        if vars_mode and node and expand and out["error"] == "unknownVar":
            left = [m.group(1) for v in expected.values() for m in PCT.finditer(v)]
            if any(not (prim and n == "replica") for n in left):
                return None, None      # a reference that no declared source resolves: reported, not guessed
        return "defined-environment-raises", {"got": out["error"]}
    env = out["ok"]
    allowed = set(declared) | {n for n in imports if n in launch}
    if case["interp"]:
        allowed |= {n for n in INTERP_VARS if n in launch}
    extra = sorted(k for k in env if k not in allowed)
    if extra:
        return "variable-from-undeclared-source", {"keys": extra}
    if remove and "DEFAULTS" in env and "DEFAULTS" not in [n for n in imports if n in launch]:
        return "defaults-key-not-removed", None
    # every declared variable with a non-empty value is present (an empty one may be dropped, as coded)
    missing = sorted(k for k, v in pre.items() if v != "" and k not in env)
    if missing:
        return "declared-variable-missing", {"keys": missing}
    if not expand:
        return None, None
    for k, v in env.items():
        if k in pre and pre[k] != "":
            exp = expected[k]
            if v != exp:
                slug = "value-not-expanded-from-declared-sources"
                if vars_mode and PCT.search(str(case_raw_value(case, k))):
                    slug = "value-not-resolved-from-own-environment-and-globals"
                return slug, {"key": k, "expected": exp, "got": v}
        elif k in pre and v == "":
            pass  # declared empty and kept empty: neither required nor forbidden by the property
        elif case["interp"] and k in INTERP_VARS:
            # interpreter search path variable (not declared, or declared empty and therefore dropped)
            if v != launch.get(k):
                return "interpreter-variable-differs-from-launch", {"key": k}
        else:
            return "empty-or-undeclared-variable-present", {"key": k}
    # layering platform over default, key-wise (before expansion this is `sel`; checked through values above);
    # canary: a launch variable that nothing references or imports never shows up
    if not fallback and CANARY in launch and CANARY not in declared and CANARY not in imports:
        mentioned = any(CANARY in str(v) for v in pre.values()) or any(CANARY in str(v) for v in launch.values())
        if not mentioned and any(launch[CANARY] in v for v in env.values()):
            return "launch-variable-leaks-into-values", None
    return None, None


def case_raw_value(case, key):
    """the text the package declares for `key` in the selected environment (before any resolution)"""
    _, sel, _ = declared_sources(case)
    return (sel or {}).get(key, "")


def flavours_commute(case):
    """True when the property's reading leaves no room for the primitive and the replicated configuration to
    answer differently: the two flavours expand $NAME and %(name)s in opposite orders and resolve references of
    global variables in different scopes, which is invisible when no value involved contains `$`, nothing is
    imported through DEFAULTS, no variable of the environment is declared empty, no global variable shares its name with a system variable or references a variable
    the environment (or the system variables) defines, and %(replica)s is not used"""
    if "vars" not in case:
        return False
    err, sel, fallback = declared_sources(case)
    if err is not None:
        return True
    G = layered_globals(case)
    texts = list(G.values()) + list(sel.values()) + [str(v) for v in case["sys"].values()]
    if any("$" in t or "replica" in t for t in texts) or any(str(v) == "" for v in sel.values()):
        return False
    if "DEFAULTS" in sel or "DEFAULTS" in case["sys"]:
        return False
    if set(G) & set(case["sys"]):
        return False
    local = set(sel) | set(case["sys"])
    for v in G.values():
        if any(m.group(1) in local for m in PCT.finditer(v)):
            return False
    return True


# ----------------------------------------------------------------------------------------
# sessions: one configuration object, many calls
# ----------------------------------------------------------------------------------------

ENV_POOL = ["myenv", "my-env2", "e", "environment"]
MUTATIONS = ["add", "overwrite", "clear", "defaults"]


def gen_session(rng, primitive=None):
    names = list(VAR_NAMES)
    platforms = ["default"] + rng.choice([[], ["plat"], ["plat", "other"]])
    plat = rng.choice(platforms)
    envs = {p: {} for p in platforms}

    def mk_env():
        d = gen_dict(rng, names, 0, 5, raw=True)
        if rng.random() < 0.4:
            d["DEFAULTS"] = ":".join(rng.sample(names + ["UNDEF", "", CANARY], rng.randint(0, 4)))
        return d

    for n in ENV_POOL:
        where = rng.choice(["default", "platform", "both", "neither"])
        if n == "environment" and rng.random() < 0.4:
            where = "neither"      # the package defines no default environment: the launch environment is used
        if where in ("default", "both"):
            envs["default"][random_case(rng, n) if rng.random() < 0.3 else n] = mk_env()
        if where in ("platform", "both") and plat != "default":
            envs[plat][random_case(rng, n) if rng.random() < 0.3 else n] = mk_env()
        for p in platforms:
            if p not in ("default", plat) and rng.random() < 0.3:
                envs[p][n] = mk_env()

    def pick_name():
        k = rng.random()
        if k < 0.22:
            return rng.choice([None, "", "environment", random_case(rng, "environment")])
        if k < 0.42:
            return rng.choice(["none", "NONE", "None", "nOnE"])
        if k < 0.92:
            n = rng.choice(ENV_POOL[:3])
            return n if rng.random() < 0.7 else random_case(rng, n)
        return "nosuchenv"

    launch = {k: ("" if v is None else str(v)) for k, v in gen_dict(rng, names, 1, 7).items()}
    launch[CANARY] = "canary-" + str(rng.randint(0, 9))
    # system variables are never empty here: an experiment instance always has INSTANCE_DIR & co
    sysv = {}
    for nm in rng.sample(SYS_NAMES, rng.randint(1, 4)):
        sysv[nm] = rng.choice(["/i/dir", "exp", "$A", "s-" + nm, "run-1"])
    comps, calls = gen_calls(rng, pick_name)
    if primitive is None:
        primitive = rng.random() < 0.5
    sess = {"platforms": platforms, "platform": plat, "envs": envs, "launch": launch, "sys": sysv,
            "primitive": primitive, "disk": (not primitive) and rng.random() < 0.25, "comps": comps, "calls": calls}
    gen_history(rng, sess)
    return {"session": sess}


def gen_calls(rng, pick_name):
    comps = [{"env": pick_name(), "interp": rng.random() < 0.35} for _ in range(rng.randint(2, 4))]
    calls = []
    for _ in range(rng.randint(2, 7)):
        k = rng.random()
        if k < 0.55:
            call = {"op": "node", "comp": rng.randrange(len(comps)), "via": rng.choice(["graph", "spec", "conf"])}
        elif k < 0.85:
            call = {"op": "withname", "name": pick_name(), "expand": rng.random() < 0.7, "remove": rng.random() < 0.7}
        else:
            call = {"op": "default"}
        if rng.random() < 0.4:
            call["mutate"] = rng.choice(MUTATIONS)
        calls.append(call)
        if "mutate" in call and rng.random() < 0.7:
            again = dict(call)
            again.pop("mutate")
            calls.append(again)
    return comps, calls


def gen_session_vars(rng, primitive=None):
    """a session on a world with global variables and %(name)s references (see gen_world_vars)"""
    world, base = gen_world_vars(rng)
    if not world["sys"]:
        world["sys"] = {"INSTANCE_DIR": "/i/dir"}
    comps, calls = gen_calls(rng, lambda: pick_name_vars(rng, world, base)[0])
    if primitive is None:
        primitive = rng.random() < 0.4
    world.update(primitive=primitive, disk=(not primitive) and rng.random() < 0.25, comps=comps, calls=calls)
    gen_history(rng, world)
    return {"session": world}


def session_doc(sess):
    comps = []
    for i, c in enumerate(sess["comps"]):
        cmd = {"executable": "ls"}
        if c["env"] is not None:
            cmd["environment"] = c["env"]
        if c["interp"]:
            cmd["interpreter"] = "bash"
        comps.append({"name": "c%d" % i, "stage": 0, "command": cmd})
    doc = {"components": comps, "platforms": list(sess["platforms"]),
           "environments": env_section(sess)}
    add_variables(doc, sess)
    return doc


def mutation_edits(kind):
    return {"add": {"INJECTED_BY_CALLER": "1", "A": "caller"}, "defaults": {"DEFAULTS": CANARY + ":A:PATH"}}.get(kind, {})


def mutate_in_place(d, kind):
    """the caller owns the dictionary it was handed and rewrites it"""
    if kind == "overwrite":
        for k in list(d.keys()):
            d[k] = "overwritten-by-caller"
    elif kind == "clear":
        d.clear()
    else:
        d.update(mutation_edits(kind))


def run_session_impl(sess, calls=None):
    """serve `calls` (default: the session's) one after the other on ONE configuration/graph object; returns the
    list of answers ({"ok": {...}} | {"error": kind}), or {"construct": kind} when the object cannot be built"""
    import logging
    logging.disable(logging.CRITICAL)
    calls = sess["calls"] if calls is None else calls
    answers = []
    with patched_environ(sess["launch"]):
        b = built(session_doc(sess), sess["platform"], sess["sys"], sess.get("primitive", True),
                  sess.get("disk", False), sess.get("history"))
        try:
            conf, g = b.__enter__()
        except Exception as exc:  # noqa
            b.__exit__()
            return {"construct": "other:" + type(exc).__name__}
        for call in calls:
            env = None
            try:
                if call["op"] == "node":
                    node = "stage0.c%d" % call["comp"]
                    if call["via"] == "graph":
                        env = g.environmentForNode(node)
                    elif call["via"] == "spec":
                        env = g.graph.nodes[node]["componentSpecification"].environment
                    else:
                        env = conf.environmentForNode(node)
                elif call["op"] == "withname":
                    env = conf.environmentWithName(call["name"], expand=call["expand"],
                                                   remove_defaults_key=call["remove"])
                else:
                    env = conf.defaultEnvironment()
                answers.append({"ok": {str(k): str(v) for k, v in env.items()}})
            except Exception as exc:  # noqa
                answers.append({"error": err_kind(exc)})
            if env is not None and call.get("mutate"):
                try:
                    mutate_in_place(env, call["mutate"])
                except Exception:  # noqa
                    pass
        b.__exit__()
    return answers


def call_case(sess, call):
    """the single-call case (input of `oracle`) a call of a session corresponds to"""
    base = {k: sess[k] for k in ("platforms", "platform", "envs", "launch", "sys", "vars") if k in sess}
    base["primitive"] = bool(sess.get("primitive", True))
    base["disk"] = bool(sess.get("disk", False))
    if call["op"] == "node":
        c = sess["comps"][call["comp"]]
        base.update(name=c["env"], interp=c["interp"])
    elif call["op"] == "withname":
        base.update(name=call["name"], interp=False)
    else:
        base.update(name=None, interp=False)
    return base


def oracle_default(sess, out):
    """defaultEnvironment(): 'the package's default environment (or the launch environment if the package defines
    none)' — exactly that, nothing of the system variables or of other environments"""
    err, sel, fallback, _ = selection_as_read(call_case(sess, {"op": "default"}))
    if "error" in out:
        return "default-environment-raises", {"got": out["error"]}
    if out["ok"] != sel:
        return "default-environment-differs-from-declared", {"expected": sel, "got": out["ok"]}
    return None, None


def flavour(c):
    if c.get("primitive", True):
        return "primitive"
    return "instance-directory" if c.get("disk") else "replicated"


def bare_call(call):
    return {k: v for k, v in call.items() if k != "mutate"}


def eval_session(sess):
    """(answers, failures): failures = [(slug, detail)] of the property oracle over every call of the session"""
    answers = run_session_impl(sess)
    fails = []
    if isinstance(answers, dict):
        # the object itself cannot be built: not an environment question; a fresh object must behave the same
        return answers, fails
    fresh_memo = {}
    for i, (call, out) in enumerate(zip(sess["calls"], answers)):
        if call["op"] == "default":
            why, detail = oracle_default(sess, out)
        elif call["op"] == "withname":
            why, detail = oracle(call_case(sess, call), out, expand=call["expand"], remove=call["remove"],
                                 node=False)
        else:
            why, detail = oracle(call_case(sess, call), out)
        if why:
            fails.append((why, {"call_index": i, "call": call, "impl": out, "detail": detail}))
        # construction is a function of the declared sources: the same call on a fresh object answers the same
        key = json.dumps(bare_call(call), sort_keys=True)
        if key not in fresh_memo:
            fr = run_session_impl(sess, [bare_call(call)])
            fresh_memo[key] = fr[0] if isinstance(fr, list) else fr
        if out != fresh_memo[key]:
            fails.append(("environment-depends-on-earlier-calls",
                          {"call_index": i, "call": call, "in_session": out, "fresh_object": fresh_memo[key]}))
    return answers, fails


def session_request(sess):
    calls = []
    for call in sess["calls"]:
        if call["op"] == "node":
            c = sess["comps"][call["comp"]]
            calls.append({"op": "node", "name": c["env"], "interp": c["interp"]})
        elif call["op"] == "withname":
            calls.append({"op": "withname", "name": call["name"], "expand": call["expand"], "remove": call["remove"]})
        else:
            calls.append({"op": "default"})
        if call.get("mutate"):
            calls.append({"op": "mutate", "edits": pairs(mutation_edits(call["mutate"]))})
    req = {"op": "session", "sys": pairs(sess["sys"]),
           "envs": [[p, [[n, tpairs(d)] for n, d in e.items()]] for p, e in sess["envs"].items()],
           "platform": sess["platform"], "launch": pairs(sess["launch"]),
           "primitive": bool(sess.get("primitive", True)),
           "reload": bool(sess.get("disk", False)) and not sess.get("primitive", True), "calls": calls}
    if "vars" in sess:
        req["vars"] = [[p, tpairs(d)] for p, d in sess["vars"].items()]
    return req


def session_nontrivial(sess):
    ops = {(c["op"], c.get("comp"), c.get("name")) for c in sess["calls"]}
    return len(sess["calls"]) >= 2 and len(ops) >= 2 and len(sess["sys"]) >= 1


def check_sessions(ctx, cases):
    mo = ctx.model([session_request(c["session"]) for c in cases])
    for i, case in enumerate(cases):
        sess = case["session"]
        answers, fails = eval_session(sess)
        tags = ["session", "session-flavour:" + flavour(sess),
                "session-platform:" + ("default" if sess["platform"] == "default" else "other")]
        tags += sorted({"call:" + c["op"] + (":" + c["via"] if c["op"] == "node" else "") for c in sess["calls"]})
        tags += sorted({"mutate:" + c["mutate"] for c in sess["calls"] if c.get("mutate")})
        if "vars" in sess:
            tags.append("session-with-%(name)s-references")
        if any(is_typed(v) for e in sess["envs"].values() for d in e.values() for v in d.values()):
            tags.append("session-with-typed-scalar-values")
        if sess.get("history"):
            tags.append("re-parametrised-configuration-object")
        if not isinstance(answers, dict):
            SEEN_SESSIONS.append((case, answers))
        if isinstance(answers, dict):
            tags.append("session-construct-error")
        ctx.case(case, nontrivial=session_nontrivial(sess), tags=tags)
        for why, detail in fails:
            ctx.fail(why, case, detail)
        if mo is not None and not isinstance(answers, dict):
            model_answers = [a for a in mo[i]["answers"] if a is not None]
            ctx.compare("answers of a session on one configuration object == Env.runCalls",
                        case, [canon_out(a) for a in model_answers], [canon_out(a) for a in answers])


def shrink_case(what, case):
    """sessions: drop calls, then components' irrelevant parts stay (ddmin over the call list)"""
    if "session" not in case:
        return None
    from harness.common import shrink_list
    sess = case["session"]

    def still_fails(calls):
        if not calls:
            return False
        s2 = dict(sess, calls=list(calls))
        return any(w == what for w, _ in eval_session(s2)[1])

    calls = shrink_list(sess["calls"], still_fails, max_steps=60)
    small = dict(sess, calls=calls)

    def still_fails_env(names):
        s3 = dict(small, envs={p: {n: d for n, d in e.items() if [p, n] in names} for p, e in small["envs"].items()})
        return any(w == what for w, _ in eval_session(s3)[1])

    allnames = [[p, n] for p, e in small["envs"].items() for n in e]
    keep = shrink_list(allnames, still_fails_env, max_steps=40)
    small = dict(small, envs={p: {n: d for n, d in e.items() if [p, n] in keep} for p, e in small["envs"].items()})
    return {"session": small}


def classify_none(what, case, detail):
    return False


CLASSIFIERS = {}


# ----------------------------------------------------------------------------------------
# expansion primitives
# ----------------------------------------------------------------------------------------

ALPH = ["$", "$", "{", "}", "_", "a", "B", "1", "-", ":", "/", " ", "AB", "a1", "$$", "${", "é"]
ALPH_V = ["%", "%", "(", "(", ")", ")", "s", "s", "%(", ")s", "a", "B", "1", "-", ".", "_", "/", " ", "AB", "a1", "%%",
          "é", "$", "S", "%(a)s", "%(a-1.B)s"]


def gen_subst_case(rng):
    s = "".join(rng.choice(ALPH) for _ in range(rng.randint(0, 10)))
    m = {}
    for nm in rng.sample(["a", "B", "AB", "a1", "_", "1", "a1B", "B1"], rng.randint(0, 5)):
        m[nm] = rng.choice(["", "<" + nm + ">", "$a", "${B}", "}"])
    return {"kind": rng.choice(["T", "E"]), "s": s, "map": m}


def gen_subst_case_v(rng):
    s = "".join(rng.choice(ALPH_V) for _ in range(rng.randint(0, 10)))
    m = {}
    for nm in rng.sample(["a", "B", "AB", "a1", "_", "1", "a-1.B", "B1", "-", "."], rng.randint(0, 5)):
        m[nm] = rng.choice(["", "<" + nm + ">", "x", "s"])
    return {"kind": "V", "s": s, "map": m}


def impl_subst(c):
    if c["kind"] == "V":
        # the references FlowIR.interpolate finds: FlowIR.VariablePattern, leftmost first, non-overlapping
        import experiment.model.frontends.flowir as F
        pat = re.compile(F.FlowIR.VariablePattern)
        return pat.sub(lambda m: c["map"].get(m.group()[2:-2], m.group()), c["s"])
    if c["kind"] == "T":
        return string.Template(c["s"]).safe_substitute(c["map"])
    with patched_environ(c["map"]):
        return os.path.expandvars(c["s"])


def check_subst(ctx, cases):
    reqs = [{"op": "subst", "kind": c["kind"], "map": pairs(c["map"]), "s": c["s"]} for c in cases]
    mo = ctx.model(reqs)
    for i, c in enumerate(cases):
        out = impl_subst(c)
        ctx.case({"subst": c}, nontrivial=("$" in c["s"] and len(c["map"]) > 0), tags=["subst:" + c["kind"]])
        if mo is not None:
            rel = ("Env.tokV == re.finditer(FlowIR.VariablePattern)" if c["kind"] == "V" else
                   "Env.substT/expandvars == string.Template.safe_substitute/os.path.expandvars")
            ctx.compare(rel, {"subst": c}, {"out": mo[i]["out"]}, {"out": out})


# ----------------------------------------------------------------------------------------

def nontrivial(case):
    return (case["name_kind"] not in ("none", "NONE")) and (len(case["launch"]) >= 2)


def check_cases(ctx, cases):
    reqs = []
    for c in cases:
        reqs.append(model_request(c))
        reqs.append(model_request(c, {"expand": False, "remove": c.get("wn_remove", True)}))
    mo = ctx.model(reqs)
    for i, c in enumerate(cases):
        raw = canon_out(impl(c), strip=False)
        out = canon_out(raw)
        tags = ["presence:" + c["presence"], "name:" + c["name_kind"],
                "platform:" + ("default" if c["platform"] == "default" else "other"),
                "interp:%s" % c["interp"], "impl:" + ("error:" + out["error"] if "error" in out else "ok"),
                "flavour:" + flavour(c)]
        if any("DEFAULTS" in d for e in c["envs"].values() for d in e.values()):
            tags.append("has-DEFAULTS")
        if "vars" in c:
            tags += vars_tags(c)
        if c.get("history"):
            tags.append("re-parametrised-configuration-object")
        tags += typed_tags(c)
        ctx.case(c, nontrivial=nontrivial(c), tags=tags)
        SEEN_CASES.append((c, raw))
        why, detail = oracle(c, raw)
        if why:
            ctx.fail(why, c, {"impl": raw, "detail": detail})
        if flavours_commute(c):
            # the environment is a function of the package, the platform and the launch environment: the
            # configuration that reads the package and the one that reads its instance document agree
            other = dict(c, primitive=not c.get("primitive", True), disk=False)
            raw2 = canon_out(impl(other), strip=False)
            ctx.tag("cross-flavour-comparisons")
            if canon_out(raw) != canon_out(raw2):
                ctx.fail("primitive-and-replicated-environments-differ", c,
                         {"this": raw, "flavour_of_this": flavour(c), "other": raw2, "flavour_of_other": flavour(other)})
        if mo is not None:
            ctx.compare("environmentForNode == Env.envForNode", c, canon_out(mo[2 * i]), out)
            wn = {"expand": False, "remove": c.get("wn_remove", True)}
            out2 = canon_out(impl(c, wn))
            ctx.compare("environmentWithName(expand=False) == Env.envWithName", c, canon_out(mo[2 * i + 1]), out2)


SEEN_CASES = []
SEEN_SESSIONS = []


def vars_tags(c):
    """which of the shapes the %(name)s cases are meant to contain this one has"""
    tags = ["%(name)s-references"]
    err, sel, fallback = declared_sources(c)
    if err is not None or fallback:
        return tags
    G = layered_globals(c)
    refs = {m.group(1) for v in sel.values() for m in PCT.finditer(str(v))}
    lname = (c["name"] or "environment").lower()
    order = [n.lower() for p in ("default", c["platform"]) for n in c["envs"].get(p, {})]
    others = {}
    for p in ("default", c["platform"]):
        for n, d in c["envs"].get(p, {}).items():
            if n.lower() != lname:
                others.setdefault(n.lower(), set()).update(d)
    if refs & set(G):
        tags.append("references-a-global-variable")
    if refs & set(sel):
        tags.append("references-own-variable")
    if set(sel) & set(G):
        tags.append("own-variable-shadows-a-global")
    for n, keys in others.items():
        hit = (refs - set(sel)) & keys
        if hit & set(G):
            tags.append("another-environment-defines-a-referenced-global"
                        + ("-and-comes-first" if n in order and lname in order and order.index(n) < order.index(lname)
                           else "-and-comes-later"))
        if hit - set(G):
            tags.append("reference-only-another-environment-defines")
    if any(r not in G and r not in sel and r not in c["sys"] for r in refs):
        tags.append("unresolvable-reference")
    return sorted(set(tags))


def check_again(ctx, rng, n_cases, n_sessions):
    """process-level state: a sample of the cases and sessions served so far is served AGAIN, in another order,
    after everything else this process has loaded — the answers must be the ones given the first time"""
    sample = rng.sample(SEEN_CASES, min(n_cases, len(SEEN_CASES)))
    rng.shuffle(sample)
    for i, (c, first) in enumerate(sample):
        again = canon_out(impl(c, verbose=(i % 3 == 0)), strip=False)   # every third one with all loggers at DEBUG
        ctx.tag("served-again" + ("-with-debug-logging" if i % 3 == 0 else ""))
        if again != first:
            ctx.fail("result-depends-on-earlier-cases", c, {"first": first, "again": again,
                                                             "debug_logging": i % 3 == 0})
    sample = rng.sample(SEEN_SESSIONS, min(n_sessions, len(SEEN_SESSIONS)))
    rng.shuffle(sample)
    for case, first in sample:
        again = run_session_impl(case["session"])
        ctx.tag("served-again")
        if again != first:
            ctx.fail("result-depends-on-earlier-cases", case, {"first": first, "again": again})


CHILD = r"""
import sys, os, json, warnings
warnings.filterwarnings("ignore")
sys.dont_write_bytecode = True
repo = os.environ.get("ST4SD_REPO", "/repo")
sys.path[0:0] = [os.path.join(repo, "python"), repo, os.getcwd()]
from harness import c17
cases = json.load(sys.stdin)
json.dump([c17.canon_out(c17.impl(c), strip=False) for c in cases], sys.stdout)
"""


def check_other_hash_seed(ctx, rng, n):
    """the code keeps the environments (and variables) of a package in containers whose iteration order follows
    the hash seed of the process: a sample of the cases is served by a child process with ANOTHER hash seed (other
    processing order of sibling environments) — the environments must be the same"""
    import subprocess
    import sys
    with_vars = [x for x in SEEN_CASES if "vars" in x[0]]
    without = [x for x in SEEN_CASES if "vars" not in x[0]]
    sample = rng.sample(with_vars, min(n, len(with_vars))) + rng.sample(without, min(n // 3, len(without)))
    if not sample:
        return
    here = os.path.dirname(os.path.dirname(os.path.abspath(__file__)))
    mine = os.environ.get("PYTHONHASHSEED", "0")
    other = str((int(mine) if mine.isdigit() else 0) + 1 + rng.randrange(1000))
    env = dict(os.environ, PYTHONHASHSEED=other, PYTHONDONTWRITEBYTECODE="1")
    p = subprocess.run([sys.executable, "-c", CHILD], input=json.dumps([c for c, _ in sample]), cwd=here, env=env,
                       stdout=subprocess.PIPE, stderr=subprocess.PIPE, text=True, timeout=1800)
    try:
        answers = json.loads(p.stdout)
    except Exception:  # noqa
        from harness.common import InfraError
        raise InfraError("C17: child process with another hash seed failed: " + p.stderr[-400:])
    for (c, first), again in zip(sample, answers):
        ctx.tag("served-under-another-hash-seed")
        if again != first:
            ctx.fail("result-depends-on-hash-seed", c, {"hash_seed": mine, "answer": first, "other_hash_seed": other,
                                                        "other_answer": again})


CORPUS = [
    # DESIGN section 8 #11 (as coded, not a violation of C17 as stated): EMPTY is dropped, FOO is kept
    {"platforms": ["default"], "platform": "default", "envs": {"default": {"myenv": {"EMPTY": "", "FOO": "bar"}}},
     "name": "myenv", "launch": {"HOME": "/root"}, "sys": {}, "interp": False, "presence": "default",
     "name_kind": "named"},
    {"platforms": ["default", "plat"], "platform": "plat",
     "envs": {"default": {"MyEnv": {"A": "1", "B": "$A/x", "DEFAULTS": "PATH:FOO", "PATH": "/mine:$PATH"}},
              "plat": {"myenv": {"A": "2", "C": "${LAUNCH}"}}},
     "name": "MYENV", "launch": {"PATH": "/bin", "FOO": "foo", "LAUNCH": "LL", CANARY: "canary-1"},
     "sys": {"INSTANCE_DIR": "/i"}, "interp": True, "presence": "both", "name_kind": "named-case"},
    # Witness/C17.lean: the replicated configuration (instance document of platform hpc) must keep the variable
    # that only the default platform declares (fixes/C17-instance-environment-layering.diff)
    {"platforms": ["default", "hpc"], "platform": "hpc",
     "envs": {"default": {"myenv": {"A": "a", "B": "b"}}, "hpc": {"myenv": {"B": "b2"}}},
     "name": "myenv", "launch": {"HOME": "/root", CANARY: "canary-2"}, "sys": {"INSTANCE_DIR": "/i"}, "interp": False,
     "presence": "both", "name_kind": "named", "primitive": False},
]
CORPUS.append(dict(CORPUS[-1], disk=True))
# %(name)s references: environment b_tools references the global variable `prefix`; environment a_tools, declared
# before it and never selected, has a variable of its own called `prefix`; system variable referenced by a global
_VARS_BASE = {"platforms": ["default", "cluster"],
              "vars": {"default": {"prefix": "/global/prefix", "work": "%(prefix)s/w", "two": "%(prefix)s/2"},
                       "cluster": {"prefix": "/cluster/prefix"}},
              "envs": {"default": {"a_tools": {"prefix": "/opt/a", "BIN_A": "%(prefix)s/bin"},
                                   "b_tools": {"BIN_B": "%(prefix)s/bin:%(two)s", "W": "%(work)s:$BIN_B:%(INSTANCE_DIR)s"}},
                       "cluster": {"B_Tools": {"LIB_B": "%(prefix)s/lib"}}},
              "launch": {"HOME": "/root", CANARY: "canary-5"}, "sys": {"INSTANCE_DIR": "/i"}, "interp": False,
              "presence": "both", "name_kind": "named", "pure": False}
for _plat, _name, _prim, _disk in (("cluster", "B_TOOLS", False, False), ("cluster", "b_tools", True, False),
                                   ("default", "b_tools", False, True), ("cluster", "a_tools", False, False)):
    CORPUS.append(dict(copy.deepcopy(_VARS_BASE), platform=_plat, name=_name, primitive=_prim, disk=_disk))

# typed scalars (Witness/C17.lean falsy_scalars_are_values): the selected platform re-declares numbers / booleans of the
# default platform with falsy ones and with null; references to them; typed global variables; the default
# environment ('environment') with typed values
_TYPED_BASE = {"platforms": ["default", "single"],
               "vars": {"default": {"n": 8, "on": True, "ratio": 0.5, "neg": -3},
                        "single": {"n": 0, "on": False, "ratio": 0.0}},
               "envs": {"default": {"gpu": {"OMP": 4, "USE_GPU": True, "SCALE": 1.5, "UNSET": "d", "KEEP": 7,
                                            "LAUNCH": "run --threads=${OMP} --gpu=$USE_GPU -s $SCALE$UNSET",
                                            "FROMVARS": "%(n)s/%(on)s/%(ratio)s/%(neg)s/%(OMP)s"},
                                    "environment": {"ZERO": 0, "OFF": False, "Z": "$ZERO$OFF"}},
                        "single": {"GPU": {"OMP": 0, "USE_GPU": False, "SCALE": 0.0, "UNSET": None, "NEG": -0.0,
                                           "BIG": 10 ** 20, "TINY": 1e-07}}},
               "launch": {"HOME": "/root", "OMP": "64", "ZERO": "launch-zero", CANARY: "canary-6"},
               "sys": {"INSTANCE_DIR": "/i"}, "interp": False, "presence": "both", "name_kind": "named", "pure": False}
for _plat, _name, _prim, _disk in (("single", "gpu", True, False), ("single", "Gpu", False, False),
                                   ("single", "gpu", False, True), ("default", "gpu", False, False),
                                   ("single", None, True, False), ("single", "", False, False)):
    CORPUS.append(dict(copy.deepcopy(_TYPED_BASE), platform=_plat, name=_name, primitive=_prim, disk=_disk))
    _c = copy.deepcopy(_TYPED_BASE)
    del _c["vars"]
    _c["envs"]["default"]["gpu"].pop("FROMVARS")
    CORPUS.append(dict(_c, platform=_plat, name=_name, primitive=_prim, disk=_disk))

SESSION_CORPUS = [
    # every kind of source once, twice, in both orders, on one object; the caller rewrites what it gets
    {"session": {"platforms": ["default", "hpc"], "platform": "hpc",
                 "envs": {"default": {"tools": {"TOOL_HOME": "/opt/tool", "DEFAULTS": "PATH", "PATH": "/t/bin:$PATH"},
                                      "environment": {"FROM_DEFAULT_ENV": "d", "DEFAULTS": "HOME"}},
                          "hpc": {"tools": {"TOOL_HOME": "/hpc/tool"}}},
                 "launch": {"PATH": "/bin", "HOME": "/root", CANARY: "canary-3"},
                 "sys": {"INSTANCE_DIR": "/i/dir", "FLOW_EXPERIMENT_NAME": "exp", "FLOW_RUN_ID": "run-1"},
                 "primitive": False,
                 "comps": [{"env": None, "interp": False}, {"env": "none", "interp": False},
                           {"env": "Tools", "interp": True}],
                 "calls": [{"op": "node", "comp": 1, "via": "spec"}, {"op": "node", "comp": 2, "via": "spec"},
                           {"op": "node", "comp": 0, "via": "spec", "mutate": "add"},
                           {"op": "node", "comp": 1, "via": "spec", "mutate": "defaults"},
                           {"op": "node", "comp": 2, "via": "graph", "mutate": "clear"},
                           {"op": "default", "mutate": "overwrite"},
                           {"op": "withname", "name": "tools", "expand": False, "remove": False, "mutate": "add"},
                           {"op": "node", "comp": 0, "via": "conf"}, {"op": "node", "comp": 1, "via": "conf"},
                           {"op": "node", "comp": 2, "via": "conf"}, {"op": "default"}]}},
]
for _prim, _envs in ((True, {"default": {"tools": {"TOOL_HOME": "/opt/tool"}}}),
                     (False, {"default": {"tools": {"TOOL_HOME": "/opt/tool"}}})):
    # a package without default environment: the default environment is the launch environment
    SESSION_CORPUS.append({"session": {
        "platforms": ["default"], "platform": "default", "envs": _envs,
        "launch": {"PATH": "/bin", "HOME": "/root", CANARY: "canary-4"},
        "sys": {"INSTANCE_DIR": "/i/dir", "FLOW_EXPERIMENT_NAME": "exp"}, "primitive": _prim,
        "comps": [{"env": None, "interp": False}, {"env": "none", "interp": False}, {"env": "tools", "interp": False}],
        "calls": [{"op": "node", "comp": 0, "via": "graph"}, {"op": "node", "comp": 1, "via": "graph"},
                  {"op": "node", "comp": 2, "via": "graph"}, {"op": "withname", "name": "NONE", "expand": True,
                                                              "remove": True}]}})
SESSION_CORPUS.append({"session": dict(SESSION_CORPUS[0]["session"], disk=True)})


def run(ctx):
    ctx.rule = ("case = (platforms, active platform, environments per platform with randomly cased names, selected "
                "name (named / re-cased / null / empty / none / NONE / environment / unknown), DEFAULTS lists, "
                "interpreter flag, system variables, launch environment with a canary variable); values drawn from a "
                "grammar of literals, $NAME, ${NAME}, $$ and ill-formed dollars; the full grid {presence on "
                "default/platform/both/neither} x {name kind} x {default/other platform} x {interpreter} is "
                "enumerated with random contents (alternating primitive / replicated configuration), plus random "
                "cases; non-trivial = the selected name is not 'none' and the launch environment has >= 2 "
                "variables.  Sessions: one configuration object (primitive or replicated, 2-4 components with their "
                "own environment name and interpreter flag, 4 environment names each on default/platform/both/neither, "
                ">= 1 system variable) serving 2-12 calls (environmentForNode via graph / componentSpecification / "
                "configuration, environmentWithName(name, expand, remove), defaultEnvironment), the caller rewriting "
                "returned dictionaries in place (add / overwrite / clear / inject DEFAULTS) and asking again; "
                "non-trivial = >= 2 different calls; distinct by canonical JSON.  %(name)s cases: packages with "
                "global variables on the default and/or the active platform (missing / empty / int / empty-string "
                "values) and 2-5 environments declared on default / platform / both in shuffled document order, all "
                "keys drawn from one pool of 20 names (so environments shadow global variables and each other), values "
                "= literals, %(M)s to lower-ranked names (preferring resolvable ones, sometimes names only another "
                "environment defines, sometimes undefined / replica), $M / ${M}, optional DEFAULTS; each driven as "
                "primitive / replicated / instance-directory, compared with the other flavour where the order of the "
                "two expansions cannot matter; 15% of the in-memory cases and sessions use a configuration object "
                "that was first built for another platform / flavour / system variables, used, and re-parametrised "
                "in place; a sample of all cases and sessions is served again at the end of the process in another "
                "order (every third one with all loggers at DEBUG) and a sample of the cases by a child process with "
                "another hash seed.  Typed scalars: 22% of the environment values of the plain cases and sessions, 14% "
                "of the environment values and 16% of the global variables of the %(name)s cases are YAML scalars "
                "drawn from {null (environments only), 0, 0.0, -0.0, false, 1, 3, 12, -1, -40, true, 2.5, -0.5, "
                "1e-07, 1.5e+20, 10**20, '0', 'False', '0.0', 'false', 'None', '-1'} (names collide across "
                "platforms, so falsy scalars override and are overridden; they are referenced by $NAME / %(name)s "
                "like any other variable)")
    ctx.assumptions = ["`%` occurs in environment values and global variables only in well-formed %(name)s "
                       "references to plain names (no dotted scopes, no [index] array accesses, no incomplete "
                       "%(name), no names built by other references), the reference graph of every interpolation "
                       "context is acyclic (FlowIR.interpolate recurses without end on a cycle), launch and system "
                       "variables contain no `%`",
                       "os.environ is replaced in-process for the duration of one call / one session (the launch "
                       "environment does not change while a configuration object lives)",
                       "a declared variable whose value is the empty string may be absent from the result "
                       "(conf.py 1362-1367, as coded; the property speaks about the sources of variables)",
                       "the value a variable declared with a number or a boolean has is the text Python prints for "
                       "that scalar (0 -> '0', false -> 'False', 0.0 -> '0.0'; what the unchanged tree does — the "
                       "property text names no spelling); a variable declared without a value (null) has the empty "
                       "string; null is not generated for global variables (FlowIRVariableInvalid)"]
    ctx.trusted.append("C17: string.Template / os.path.expandvars are modelled as tokenisers (Env.tokT/tokE) and "
                       "compared with the library on random strings on every run; integers, booleans and null are "
                       "rendered by the model (Scalar.text), the text of a float is str() of the harness (float "
                       "formatting is not modelled)")
    rng = ctx.rng
    quick = ctx.tier == "quick"
    cases = [dict(c) for c in CORPUS]
    reps = 2 if quick else 12
    kinds = ["named", "named-case", "null", "empty", "none", "NONE", "environment", "Environment", "unknown"]
    for presence, nk, plat, interp in itertools.product(["default", "platform", "both", "neither"], kinds,
                                                        ["default", "plat"], [False, True]):
        for r in range(reps):
            cases.append(gen_case(rng, presence, nk, plat, interp, primitive=(r % 2 == 0)))
    for _ in range(400 if quick else 6000):
        cases.append(gen_case(rng))
    for i in range(700 if quick else 4000):
        cases.append(gen_case_vars(rng, primitive=(None if i % 3 else False)))
    ctx.exhaustive = False
    ctx.shrinker = shrink_case
    del SEEN_CASES[:], SEEN_SESSIONS[:]
    check_cases(ctx, cases)
    sessions = [copy.deepcopy(c) for c in SESSION_CORPUS]
    for _ in range(320 if quick else 2800):
        sessions.append(gen_session(rng))
    for _ in range(120 if quick else 600):
        sessions.append(gen_session_vars(rng))
    check_sessions(ctx, sessions)
    check_subst(ctx, [gen_subst_case(rng) for _ in range(3000 if quick else 40000)]
                + [gen_subst_case_v(rng) for _ in range(2000 if quick else 30000)])
    check_again(ctx, rng, 250 if quick else 1500, 60 if quick else 300)
    check_other_hash_seed(ctx, rng, 240 if quick else 1500)


def replay(ctx, doc):
    case = doc.get("input") or doc["no_longer_checks"][-1]["input"]
    if "subst" in case:
        check_subst(ctx, [case["subst"]])
    elif "session" in case:
        check_sessions(ctx, [case])
    else:
        del SEEN_CASES[:]
        check_cases(ctx, [case])
        check_again(ctx, ctx.rng, 1, 0)
        check_other_hash_seed(ctx, ctx.rng, 1)
