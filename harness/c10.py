"""C10 — Command-line reference substitution is exact.

Implementation under test (real code, in-process): a real Experiment is built from a generated FlowIR
document (producers with overlapping names over several stages, a consumer declaring the references in a
chosen order), files are written into the producers' working directories, and the consumer's
``ComponentSpecification.resolveArguments(unresolved=[], unused=[], ignoreErrors=True)`` is called for a
batch of argument strings (set through the real ``setOption('#command.arguments', …)``).

Model: lean/St4sd/Model/ArgSubst.lean via drv-c10 (``resolve`` = repaired single-pass algorithm,
``resolveOld`` = sequential str.replace kept for the witness).  Theorems: lean/St4sd/Props/C10.lean.

Oracle (model independent): the argument string is tokenised by the loader's own reference grammar
(maximal run of ``[.a-zA-Z0-9_/-]`` followed by ``:method``); a token that is a spelling of a declared
``ref``/``output`` reference is replaced by that reference's value (path, or the file's contents — every character of
them, leading/trailing blanks, tabs, carriage returns and blank lines included — minus the newline characters that
terminate the file), everything else is copied; the result must be the same for every declaration order; a
reference is reported unused iff no token spells it.

Degenerate but valid reference shapes are generated too: a file part that is present but EMPTY (`Producer/:ref`,
value `<dir>/`), `.`, a nested path with a trailing or doubled separator, `./file`; direct references with a
trailing / doubled separator or a `.` segment (their value is the normalised path).  The model reads the TEXT of
every declared reference itself (`ArgSubst.parseRef`: split at the first `/`, file part `none` vs `""`) and its
spellings / file part are compared with the real `DataReference` on every case.

Contents have no length bound: besides the short ones, size classes around powers of two (4 KiB, 64 KiB +-1,
128 KiB +-1, 200 KB; ASCII and 2-byte characters) are written for :output (file, stdout, direct) and :loopoutput
references (`big_scenario`; the case stores a compact description `{"big": n, ...}` that `ctext` expands).

Loop instances: besides 1-3, loops unrolled to 10-13 iterations (thorough: 101) are built with the real
``instantiate_dowhile_next_iteration``; the model receives the instances of a placeholder as (id, location/contents)
pairs in the order of their id texts and orders them itself (``ArgSubst.orderInstances``, the model of
``looped_reference_to_paths``' numeric sort).  A second entry point, ``Job.resolveArguments`` of the consumer's
component instance, is compared as well.  Scenarios may carry an ambient logging configuration (``log``) and a list
of other scenarios after which they are run again (``again_after``).

Histories (`check_history`): every scenario is also built as ONE live experiment; the argument strings are resolved,
then batches of file operations (`gen_history` / `apply_file_op`: other contents of the same byte length with the
modification time kept — in place or through an atomic rename —, set older or renewed; other lengths; removal;
creation; no change) are applied to the files the :output / :loopoutput references read and the strings are resolved
again after every batch through both entry points.  Oracle: the value of a reference is the value of the contents its
file holds AT THAT MOMENT.  Model: ``ArgSubst.resolveRounds`` (lean/St4sd/Model/ArgSubstHistory.lean, driver op
``history``), theorems in the section History of Props/C10.lean.

Values are not opaque: files are written byte-exact into the working directories (also of the loop instances of a
real DoWhile, for ``:loopref``/``:loopoutput`` and for ``:ref``/``:output`` through a placeholder), the real
``DataReference.resolve`` reads them, the model gets the *raw* contents and computes the value itself
(``ArgSubst.Source.value?``: ``outputValue``, ``loopInstanceValue``), the oracle computes it a third time.
"""
from __future__ import annotations

import itertools
import logging
import os
import re
import shutil
import tempfile
import time

LOOP_IMPORT, LOOP_STOP = "zzloop", "zzstop"
METHODS = ['copy', 'link', 'ref', 'copyout', 'extract', 'output', 'loopref', 'loopoutput']
NAMECH = r"[.a-zA-Z0-9_/-]"
TOKEN = re.compile(r"(%s+):(copyout|copy|link|ref|extract|output|loopref|loopoutput)" % NAMECH)
REF = re.compile(r"^(?:stage(\d+)\.)?([^:]+?):([a-z]+)$")


# ----------------------------------------------------------------------------------------
# the harness' own reading of a declared reference (independent of graph.DataReference)
# ----------------------------------------------------------------------------------------

def read_ref(text, consumer_stage):
    m = REF.match(text)
    stage, path, method = m.group(1), m.group(2), m.group(3)
    direct = stage is None and path.split('/')[0] in ('data', 'input', 'bin', 'conf')
    if direct:
        absolute = relative = "%s:%s" % (path, method)
        st = None
    else:
        st = int(stage) if stage is not None else consumer_stage
        relative = "%s:%s" % (path, method)
        absolute = "stage%d.%s" % (st, relative)
    kind = 'ref' if method in ('ref', 'loopref') else 'output' if method in ('output', 'loopoutput') else 'other'
    # the file part: None when there is none (no '/'), "" for a bare trailing '/'; direct references have none
    fpart = None if (direct or '/' not in path) else path.split('/', 1)[1]
    return dict(decl=text, abs=absolute, rel=relative, stage=st, path=path, method=method, kind=kind, file=fpart,
                relActive=(st is None or st == consumer_stage))


_BIG = {}


def ctext(v):
    """contents of a file as text.  A dict `{"big": n, "unit": "x"|"µ", "lead": s, "trail": s}` stands for
    lead + (numbered tokens `x0000001 x0000002 …` cut after n characters) + trail: long contents without a period,
    so that a cut anywhere is visible; None = the file does not exist"""
    if not isinstance(v, dict):
        return v
    key = (v["big"], v.get("unit", "x"), v.get("lead", ""), v.get("trail", ""))
    if key not in _BIG:
        if len(_BIG) > 40:
            _BIG.clear()
        n, unit = key[0], key[1]
        body = "".join("%s%07d " % (unit, i) for i in range(n // 9 + 2))[:n]
        if body.endswith(" "):
            body = body[:-1] + "~"
        _BIG[key] = key[2] + body + key[3]
    return _BIG[key]


def fget(case, key):
    v = case['files'].get(key)
    if v is None and key.startswith('data/') and key[5:] in case.get('data', ()):
        return 'x'        # Impl.run writes this default into every data/ file of the package without given contents
    return ctext(v)


def strip_final_newlines(text):
    """the contents of a file as a command-line value: the text without the newline character(s) that terminate
    it; nothing else is removed"""
    n = len(text)
    while n > 0 and text[n - 1] == "\n":
        n -= 1
    return text[:n]


def text_mode(text):
    """the :loopoutput branch reads in text mode (universal newlines)"""
    return text.replace("\r\n", "\n").replace("\r", "\n")


def is_looped(ref, case):
    lp = case.get('loop')
    return bool(lp) and ref['stage'] is not None and ref['stage'] == lp['stage'] and \
        ref['path'].split('/')[0] in lp['names']


def places_of(ref, case):
    """(paths with the instance directory written $I, keys into case['files']) the reference denotes: one per loop
    instance for the loop methods, the latest loop instance for other methods on a looped producer, else one"""
    if ref['stage'] is None:
        # a direct reference denotes the normalised path below the instance directory
        norm = os.path.normpath(ref['path'])
        return ["$I/" + norm], [norm]
    name = ref['path'].partition('/')[0]
    frel = ref['file']                   # None: no file part; "": bare trailing separator
    if is_looped(ref, case):
        n = case['loop']['iters']
        its = range(n) if ref['method'] in ('loopref', 'loopoutput') else [n - 1]
        comps = ["%d#%s" % (i, name) for i in its]
    else:
        comps = [name]
    # the path is the working directory with the file part appended as written (an empty file part leaves the
    # separator: `<dir>/`); only the :loopref branch of the code drops an empty file part
    if frel is None or (frel == "" and ref['method'] == 'loopref'):
        tail = ""
    else:
        tail = "/" + frel
    paths = ["$I/stages/stage%d/%s%s" % (ref['stage'], c, tail) for c in comps]
    keys = ["stage%d.%s/%s" % (ref['stage'], c, os.path.normpath(frel) if frel else "out.stdout") for c in comps]
    return paths, keys


def locations_of(ref, case):
    """working directories (with $I) of the component(s) the reference denotes — what the model joins the file
    part to"""
    name = ref['path'].partition('/')[0]
    if is_looped(ref, case):
        n = case['loop']['iters']
        its = range(n) if ref['method'] in ('loopref', 'loopoutput') else [n - 1]
        comps = ["%d#%s" % (i, name) for i in its]
    else:
        comps = [name]
    return ["$I/stages/stage%d/%s" % (ref['stage'], c) for c in comps]


def instance_ids(ref, case):
    """ids `stage<s>.<iteration>#<name>` of the loop instances an aggregating reference denotes, by iteration"""
    name = ref['path'].partition('/')[0]
    return ["stage%d.%d#%s" % (ref['stage'], i, name) for i in range(case['loop']['iters'])]


def value_of(ref, case):
    """the reference's own value with the instance directory written $I (the oracle's statement)"""
    paths, keys = places_of(ref, case)
    if ref['kind'] == 'output':
        contents = [fget(case, k) for k in keys]
        if any(c is None for c in contents):
            return ""                       # not produced yet
        if ref['method'] == 'loopoutput':
            return " ".join(strip_final_newlines(text_mode(c)) for c in contents)
        return strip_final_newlines(contents[0])
    return " ".join(paths)


def source_of(ref, case):
    """what the model's DataReference.resolve is given: paths and RAW file contents"""
    paths, keys = places_of(ref, case)
    if ref['kind'] == 'output':
        contents = [fget(case, k) for k in keys]
        if ref['method'] == 'loopoutput':
            if is_looped(ref, case):
                # the loop instances as (id, contents) in the order of their id TEXTS (0, 1, 10, 11, 2, …) — the
                # instances of a placeholder are a set; putting them into iteration order is the model's job
                # (ArgSubst.orderInstances)
                ids = instance_ids(ref, case)
                return {"t": "instfiles", "insts": sorted(({"id": i, "c": c} for i, c in zip(ids, contents)),
                                                          key=lambda x: x["id"])}
            return {"t": "files", "cs": contents}
        return {"t": "file", "c": contents[0]}
    if ref['stage'] is None:
        return {"t": "path", "p": paths[0]}
    # references to components: the model joins the file part to the location(s) itself (refPath / loopRefPath)
    if ref['method'] == 'loopref':
        if is_looped(ref, case):
            ids = instance_ids(ref, case)
            return {"t": "insts", "file": ref['file'],
                    "insts": sorted(({"id": i, "loc": l} for i, l in zip(ids, locations_of(ref, case))),
                                    key=lambda x: x["id"])}
        return {"t": "locs", "locs": locations_of(ref, case), "file": ref['file']}
    return {"t": "loc", "loc": locations_of(ref, case)[0], "file": ref['file']}


def judged_by_oracle(ref, case):
    """a :loopoutput file with carriage returns is read in text mode (CRLF -> LF) while :output keeps them; the
    property does not say which is right, such values are compared with the model only"""
    if ref['method'] != 'loopoutput':
        return True
    _, keys = places_of(ref, case)
    return not any("\r" in (fget(case, k) or "") for k in keys)


def my_refs(case, order=None):
    refs = [read_ref(t, case['stage']) for t in (order if order is not None else case['refs'])]
    # ComponentSpecification.dataReferences lists direct references first (stable)
    return [r for r in refs if r['stage'] is None] + [r for r in refs if r['stage'] is not None]


def args_of(case):
    return "".join(s[1] for s in case['segs'])


def expected(case, args, order=None):
    """(expected string, expected unused list, ambiguous?) by tokenising substitution"""
    refs = my_refs(case, order)
    table = {}
    owner = {}
    quirk = False
    for r in refs:
        if r['kind'] == 'other':
            continue
        v = value_of(r, case)
        if not judged_by_oracle(r, case):
            quirk = True
        for sp in [r['abs']] + ([r['rel']] if r['relActive'] else []):
            if sp in table and table[sp] != v:
                return None, None, True          # two declared references share a spelling: not well formed
            table[sp] = v
            owner.setdefault(sp, set()).add(r['abs'])
    out = []
    used = set()
    pos = 0
    ambiguous = quirk
    for m in TOKEN.finditer(args):
        tok = m.group(0)
        out.append(args[pos:m.start()])
        if tok in table:
            out.append(table[tok])
            used |= owner[tok]
        else:
            if any(tok.endswith(sp) for sp in table):
                ambiguous = True                   # undeclared token that ends in a declared spelling
            out.append(tok)
        pos = m.end()
    out.append(args[pos:])
    unused = [r['abs'] for r in refs if r['kind'] != 'other' and r['abs'] not in used]
    return "".join(out), unused, ambiguous


# ----------------------------------------------------------------------------------------
# real code
# ----------------------------------------------------------------------------------------

_quiet = [False]


def _imports():
    import tests.utils as TU
    import experiment.model.storage
    import experiment.model.data
    import experiment.model.graph
    if not _quiet[0]:
        logging.disable(logging.CRITICAL)
        _quiet[0] = True
    return TU, experiment


def flowir_for(case, order):
    import yaml
    comps = []
    for st, name in case['producers']:
        comps.append({'name': name, 'stage': st, 'command': {'executable': 'echo', 'arguments': 'hi'}})
    refs = list(order)
    canonical = " ".join(read_ref(t, case['stage'])['abs'] for t in refs
                         if read_ref(t, case['stage'])['kind'] != 'other') or "hi"
    comps.append({'name': case['consumer'], 'stage': case['stage'],
                  'command': {'executable': 'echo', 'arguments': canonical}, 'references': refs})
    lp = case.get('loop')
    dowhile = None
    if lp:
        comps.append({'name': LOOP_IMPORT, 'stage': lp['stage'], '$import': 'dowhile.yaml'})
        dowhile = yaml.safe_dump({
            'type': 'DoWhile', 'condition': '%s:output' % LOOP_STOP, 'inputBindings': {},
            'components': [{'name': n, 'command': {'executable': 'echo', 'arguments': 'hi'}} for n in lp['names']] +
                          [{'name': LOOP_STOP, 'command': {'executable': 'echo', 'arguments': 'True'}}]})
    return yaml.safe_dump({'components': comps}), canonical, dowhile


def apply_log(cfg):
    """ambient setting: the logging configuration of the process.  None: logging disabled (as in all other cases);
    `{"root": level | None, "loggers": {name: level}}`: these levels, records go to a NullHandler.  Returns the undo."""
    if cfg is None:
        return lambda: None
    root = logging.getLogger()
    saved_handlers, saved_level, saved_disable = root.handlers[:], root.level, logging.root.manager.disable
    names = list(cfg.get("loggers", {}))
    saved = {n: logging.getLogger(n).level for n in names}
    root.handlers = [logging.NullHandler()]
    logging.disable(logging.NOTSET)
    if cfg.get("root") is not None:
        root.setLevel(cfg["root"])
    for n in names:
        logging.getLogger(n).setLevel(cfg["loggers"][n])

    def undo():
        for n in names:
            logging.getLogger(n).setLevel(saved[n])
        root.setLevel(saved_level)
        root.handlers = saved_handlers
        logging.disable(saved_disable if isinstance(saved_disable, int) else logging.CRITICAL)
    return undo


class Impl:
    """one real experiment per (case, declaration order); resolves a batch of argument strings"""

    def __init__(self, workdir):
        self.workdir = workdir
        self.n = 0

    def run(self, case, order, arg_list, history=None):
        """`history`: list of batches of file operations (see `gen_history`); after every batch the same argument
        strings are resolved AGAIN on the same live experiment (answer `rounds`)"""
        TU, experiment = _imports()
        self.n += 1
        text, canonical, dowhile = flowir_for(case, order)
        pkg_path = os.path.join(self.workdir, 'p%d.package' % self.n)
        os.makedirs(os.path.join(pkg_path, 'conf'))
        with open(os.path.join(pkg_path, 'conf', 'flowir_package.yaml'), 'w') as fh:
            fh.write(text)
        if dowhile is not None:
            with open(os.path.join(pkg_path, 'conf', 'dowhile.yaml'), 'w') as fh:
                fh.write(dowhile)
        data = {k: ctext(v) for k, v in case['files'].items() if k.startswith('data/')}
        for d in case.get('data', []):
            data.setdefault('data/' + d, 'x')
        for k, v in data.items():
            # byte exact: no newline translation, no stripping
            os.makedirs(os.path.dirname(os.path.join(pkg_path, k)), exist_ok=True)
            with open(os.path.join(pkg_path, k), 'wb') as fh:
                fh.write(v.encode('utf-8'))
        cwd = os.getcwd()
        exp = None
        restore_log = apply_log(case.get('log'))
        try:
            try:
                pkg = experiment.model.storage.ExperimentPackage.packageFromLocation(pkg_path)
                exp = experiment.model.data.Experiment.experimentFromPackage(pkg, location=self.workdir)
            except Exception as exc:  # noqa
                return {"load_error": type(exc).__name__ + ": " + str(exc)[:300]}
            inst = exp.instanceDirectory
            loc = inst.location
            lp = case.get('loop')
            if lp and lp['iters'] > 1:
                # the real mechanism that creates the loop instances 1#name, 2#name, ... of a DoWhile
                try:
                    import experiment.model.frontends.flowir as FL
                    wg = exp.experimentGraph
                    doc = list(wg._documents[FL.FlowIR.LabelDoWhile].values())[0]['document']
                    for it in range(1, lp['iters']):
                        wg.instantiate_dowhile_next_iteration(doc, it, False)
                except Exception as exc:  # noqa
                    return {"load_error": "next iteration: " + type(exc).__name__ + ": " + str(exc)[:300]}
            for key, content in case['files'].items():
                if key.startswith('data/'):
                    continue
                m = re.match(r"stage(\d+)\.([^/]+)/(.*)$", key)
                wd = inst.workingDirectoryForComponent(int(m.group(1)), m.group(2))
                target = os.path.join(wd, m.group(3))
                os.makedirs(os.path.dirname(target), exist_ok=True)
                with open(target, 'wb') as fh:
                    fh.write(ctext(content).encode('utf-8'))
            node = exp.experimentGraph.graph.nodes['stage%d.%s' % (case['stage'], case['consumer'])]
            spec = node['componentSpecification']
            job = node.get('componentInstance')
            seen = [dict(abs=r.absoluteReference, rel=r.relativeReference, stage=r.stageIndex, method=r.method,
                         file=r.fileRef) for r in spec.dataReferences]
            represents = {}
            if lp:
                for nm in lp['names']:
                    ph = exp.experimentGraph._placeholders.get('stage%d.%s' % (lp['stage'], nm), {})
                    represents[nm] = sorted(ph.get('represents', []))
            def resolve_all(arg_strings):
                outs = []
                for args in arg_strings:
                    spec.setOption('#command.arguments', args)
                    unused, unresolved = [], []
                    try:
                        out = spec.resolveArguments(unresolved=unresolved, unused=unused, ignoreErrors=True)
                    except Exception as exc:  # noqa
                        outs.append({"error": type(exc).__name__ + ": " + str(exc)[:200]})
                        continue
                    names = []
                    for u in unused:
                        m = re.match(r"Reference (.*?) declared by component", str(u))
                        names.append(m.group(1) if m else "?")
                    o = {"out": out.replace(loc, "$I"), "unused": names, "unresolved": bool(unresolved)}
                    # another entry point to the same code: the component instance (`Job.resolveArguments`, what the
                    # runtime builds the command line from; it does not tolerate errors — then it has no answer)
                    if job is not None:
                        try:
                            o["job"] = job.resolveArguments().replace(loc, "$I")
                        except Exception as exc:  # noqa
                            o["job_error"] = type(exc).__name__
                    outs.append(o)
                return outs

            def target_of(key):
                if key.startswith('data/'):
                    return os.path.join(loc, key)
                m = re.match(r"stage(\d+)\.([^/]+)/(.*)$", key)
                return os.path.join(inst.workingDirectoryForComponent(int(m.group(1)), m.group(2)), m.group(3))

            outs = resolve_all([canonical] + list(arg_list))
            rounds = []
            for batch in (history or []):
                for op in batch:
                    apply_file_op(target_of(op["key"]), op)
                rounds.append(resolve_all(list(arg_list)))
            return {"seen": seen, "canonical": outs[0], "outs": outs[1:], "canonical_args": canonical,
                    "represents": represents, "rounds": rounds}
        finally:
            restore_log()
            os.chdir(cwd)
            if exp is not None:
                shutil.rmtree(exp.instanceDirectory.location, ignore_errors=True)
            shutil.rmtree(pkg_path, ignore_errors=True)


# ----------------------------------------------------------------------------------------
# generator
# ----------------------------------------------------------------------------------------

FAMILIES = [
    ["A", "BA", "AB", "ABA"],
    ["A", "BA", "CBA", "B"],
    ["gen", "regen", "gen2", "pregen"],
    ["A", "A-B", "B-A", "A_A"],
    ["run", "rerun", "run1", "1run"],
    ["x", "xx", "xxx", "yx"],
]
FILES = [None, None, "out.txt", "t/out.txt", "out"]
# degenerate but valid file parts.  For a path value (:ref, :loopref, :copy …): present but empty (`P/:ref`, the
# contents-of-the-directory spelling), `.`, a directory with trailing separator, doubled separator inside;
# for a contents value (:output, :loopoutput) only shapes that still name a file.
# (A file part that STARTS with a separator, `P//x`, is not generated: os.path.join then drops the producer.)
ODD_DIR_FILES = ["", "", ".", "t/", "t//out.txt", "./out.txt", "t/./", "t/.."]
ODD_FILE_FILES = ["./out.txt", "t//out.txt", "t/./out.txt"]
ODD_DIRECT = ["data/%s/", "data//%s", "data/./%s", "data/%s/."]


def pick_file(rng, odd=0.3):
    """file part of a candidate reference and the methods it can carry"""
    if rng.random() < odd:
        if rng.random() < 0.65:
            return rng.choice(ODD_DIR_FILES), False
        return rng.choice(ODD_FILE_FILES), True
    f = rng.choice(FILES)
    return f, True
CONTENTS = ["hello", "A:ref", "stage0.A:ref x", "BA:ref -k", "v=1\n", "", "line1\nline2\n\n", "data/A:ref",
            ":ref", "1 2 3\n", "gen:ref regen:ref", "x:ref xx:ref stage1.x:ref", "stage0.run/out.txt:output"]
# white space that belongs to a file's contents: before the text, inside it, after it, and the terminating newlines
LEADS = ["", "", "", " ", "  ", "\t", "\n", "\n\n", " \n", "\r\n", "\t ", "    ", "\x0b", "\x0c", "\u00a0", "\u2003"]
BODIES = ["hello", "ATOM      1  N   ALA A   1", "col1\tcol2\t", "a\n\nb", "l1\r\nl2", "l1\nl2\n l3", "1 2 3", "v=1",
          "", "", "A:ref", "stage0.A:ref x", "BA:ref -k", "gen:ref regen:ref", " x:ref xx:ref ", "stage0.run/out.txt:output",
          ":output", "A:loopoutput", "w" * 1500, "k=" + "0123456789 " * 40]
TRAILS = ["", "\n", "\n", "\n", "\n\n", " ", "  \n", "\t\n", "\t", " \n\n", "\r\n", "\r", "\n \n", "\n\t", "\r\n\r\n",
          "\x0c\n", "\u00a0\n", "\n\r", " \t \n\n\n"]


def gen_content(rng):
    if rng.random() < 0.2:
        return rng.choice(CONTENTS)
    return rng.choice(LEADS) + rng.choice(BODIES) + rng.choice(TRAILS)


def content_tags(text):
    tags = []
    nbytes = len(text.encode("utf-8"))
    if nbytes > 65536:
        tags.append("content:>64KiB")
    elif nbytes >= 4096:
        tags.append("content:4KiB..64KiB")
    if text == "":
        tags.append("content:empty")
    elif text.strip() == "":
        tags.append("content:white-space-only")
    else:
        core = strip_final_newlines(text)
        if core != core.lstrip():
            tags.append("content:leading-white-space")
        if core != core.rstrip():
            tags.append("content:trailing-white-space-before-final-newlines")
        if "\n" in core.strip():
            tags.append("content:interior-newline")
    if "\r" in text:
        tags.append("content:CR")
    if len(text) > 400:
        tags.append("content:long")
    if TOKEN.search(text):
        tags.append("content:reference-like")
    return tags


SEPS = [" ", "=", " -f=", " --opt=", ",", ";", " '", "(", " -I ", "  ", ":", " x=", "|"]
LITS = ["", "", " ", "-v", " && ", "ref", ":", "stage0.", "B", "A", ":re", "A:", "/", "out.txt", "'", ")", ">log",
        " Z:ref", " stage7.Q/x:output", ":ref", " q:copy", "x", ".txt", "erence", "2", "-", "_", "\t", " \t ", "\n"]


def gen_scenario(rng):
    fam = rng.choice(FAMILIES)
    k = rng.randint(0, 2)
    nprod = min(rng.randint(2, 5), len(fam) * (k + 1))
    producers = []
    while len(producers) < nprod:
        p = [rng.randint(0, k), rng.choice(fam)]
        if p not in producers:
            producers.append(p)
    if rng.random() < 0.7:
        # make sure the same name exists in the consumer's stage and (if any) in an earlier one
        nm = rng.choice(fam)
        for st in ({k, rng.randint(0, k)}):
            if [st, nm] not in producers:
                producers.append([st, nm])
    for st in range(k):
        # the loader wants every stage below the consumer's to be populated
        if not any(p[0] == st for p in producers):
            producers.append([st, rng.choice(fam)])
    data = rng.sample(fam, rng.randint(0, 2))
    files = {}
    cands = []
    for st, name in producers:
        for _ in range(2):
            f, file_ok = pick_file(rng)
            path = name if f is None else name + "/" + f
            meths = ["ref", "ref", "ref"] + (["output", "output"] if f is not None else ["output"]) + ["copy", "link"]
            if not file_ok:
                meths = ["ref", "ref", "ref", "copy", "link"]      # names a directory: no contents value
            spell = rng.choice(["abs", "abs", "rel"]) if st == k else "abs"
            cands.append((("stage%d." % st if spell == "abs" else "") + path + ":" + rng.choice(meths), st, name, f))
    loop = None
    if rng.random() < 0.4:
        # a real DoWhile: its components are placeholders with loop instances 0#name .. (iters-1)#name
        ls = rng.randint(0, k)
        free = [n for n in fam if [ls, n] not in producers]
        if free:
            # number of loop instances: mostly 1-3; sometimes two-digit iteration numbers (10 … 12 exist), where the
            # order of the id texts and the iteration order differ
            iters = rng.randint(1, 3) if rng.random() < 0.88 else rng.choice([10, 11, 12, 13])
            loop = dict(stage=ls, names=rng.sample(free, rng.randint(1, min(2, len(free)))), iters=iters)
            for name in loop['names']:
                for _ in range(2):
                    f, file_ok = pick_file(rng)
                    path = name if f is None else name + "/" + f
                    meths = ["loopref", "loopoutput", "loopoutput", "ref", "output", "output"]
                    if not file_ok:
                        meths = ["loopref", "loopref", "ref"]
                    spell = rng.choice(["abs", "abs", "rel"]) if ls == k else "abs"
                    cands.append((("stage%d." % ls if spell == "abs" else "") + path + ":" + rng.choice(meths),
                                  ls, name, f))
    for d in data:
        shape = rng.choice(ODD_DIRECT) if rng.random() < 0.3 else "data/%s"
        cands.append(((shape % d) + ":" + rng.choice(["ref", "output", "output"]), None, d, None))
    if data and rng.random() < 0.15:
        cands.append(("data/:ref", None, "", None))
    rng.shuffle(cands)
    # make sure the interesting kinds are declared: a reference to a looped producer when there is a loop (an
    # aggregating one most of the time), and usually one whose value is a file's contents
    front = []
    if loop:
        lc = [c for c in cands if c[1] == loop['stage'] and c[2] in loop['names']]
        agg = [c for c in lc if ":loop" in c[0]]
        front.append(rng.choice(agg) if agg and rng.random() < 0.75 else rng.choice(lc))
    outs = [c for c in cands if c[0].endswith("output") and c not in front]
    if outs and rng.random() < 0.7:
        front.append(rng.choice(outs))
    cands = front + [c for c in cands if c not in front]
    nrefs = rng.choice([2, 3, 3, 4, 4])
    refs, seen_abs = [], set()
    for text, st, name, f in cands:
        r = read_ref(text, k)
        if r['abs'] in seen_abs:
            continue
        seen_abs.add(r['abs'])
        refs.append(text)
        if r['kind'] == 'output':
            for key in places_of(r, dict(loop=loop))[1]:
                if rng.random() < 0.9:
                    files[key] = gen_content(rng)
        if len(refs) >= nrefs:
            break
    for d in data:
        files.setdefault('data/' + d, gen_content(rng))
    consumer = rng.choice(["C", "C", "cons", "ZA"])
    while [k, consumer] in producers or (loop and loop['stage'] == k and consumer in loop['names']):
        consumer += "c"
    scen = dict(stage=k, consumer=consumer, producers=producers, data=data, files=files, refs=refs)
    if loop:
        scen['loop'] = loop
    return scen


def gen_segs(rng, scen, style):
    refs = [read_ref(t, scen['stage']) for t in scen['refs']]
    segs = []
    sub = [r for r in refs if r['kind'] != 'other']
    pool = list(sub)
    rng.shuffle(pool)
    if style == "each-once":
        chosen = pool
    elif style == "repeat":
        chosen = pool + [rng.choice(pool) for _ in range(rng.randint(1, 3))] if pool else []
        rng.shuffle(chosen)
    elif style == "subset":
        chosen = pool[:rng.randint(0, len(pool))]
    else:
        chosen = pool + ([rng.choice(refs)] if refs else [])
        rng.shuffle(chosen)
    # never empty: the scan for left-over `:method` text (outside this property) indexes the word before it
    segs.append(["lit", rng.choice(["-v", "x=", "--in ", "run -q"])])
    for r in chosen:
        if style == "abs":
            sp = r['abs']
        elif style == "rel":
            sp = r['rel'] if r['relActive'] else r['abs']
        else:
            sp = rng.choice([r['abs'], r['rel']]) if r['relActive'] else r['abs']
        lit = rng.choice(LITS) if style in ("noisy", "repeat") else ""
        segs.append(["lit", lit + rng.choice(SEPS)])
        segs.append(["tok", sp])
        if style == "noisy" and rng.random() < 0.4:
            segs.append(["lit", rng.choice(LITS)])
    segs.append(["lit", rng.choice(["", " ", " end", ";"]) if style != "noisy" else rng.choice(LITS)])
    return segs


STYLES = ["each-once", "abs", "rel", "repeat", "subset", "noisy", "noisy"]

# sizes (bytes of the file) around powers of two: a value is the WHOLE contents at every length
BIG_SIZES = [65537, 131072, 65536, 4096, 65535, 200000, 131073, 4097, 131071, 4095, 98304, 70001]


def big_content(rng, size, unit=None):
    unit = unit or rng.choice(["x", "x", "x", "µ"])
    lead = rng.choice(["", "", " ", "\n", "\t"])
    trail = rng.choice(["\n", "\n", "", "\n\n", " \n"])
    n = size - len(lead) - len(trail)
    if unit == "µ":
        # one 2-byte character per 9-character token: n characters are about n * 10 / 9 bytes
        n = n * 9 // 10
    return {"big": n, "unit": unit, "lead": lead, "trail": trail}


def big_scenario(rng, i):
    """few references, long contents: an :output reference to a file / to stdout / to a direct file and a
    :loopoutput over 2 loop instances, sizes from BIG_SIZES (rotating with i so that every run has values above
    64 KiB and above 128 KiB of every kind), one :ref next to them"""
    k = 1
    producers = [[0, "A"], [0, "BA"], [1, "A"]]
    kinds = ["file", "stdout", "direct", "loop"]
    first = kinds[i % 4]
    second = rng.choice([x for x in kinds if x != first] + ["none"])
    refs, files, data, loop = [], {}, [], None

    def add(kind, size):
        nonlocal loop
        if kind == "file":
            refs.append("stage0.A/big.txt:output")
            files["stage0.A/big.txt"] = big_content(rng, size)
        elif kind == "stdout":
            refs.append(rng.choice(["stage0.BA:output", "stage1.A:output", "A:output"]))
            r = read_ref(refs[-1], k)
            files["stage%d.%s/out.stdout" % (r['stage'], r['path'])] = big_content(rng, size)
        elif kind == "direct":
            data.append("big")
            refs.append(rng.choice(["data/big:output", "data/big:output", "data//big:output"]))
            files["data/big"] = big_content(rng, size)
        elif kind == "loop":
            loop = dict(stage=0, names=["AB"], iters=2)
            f = rng.choice([None, "o.txt"])
            refs.append("stage0.AB%s:loopoutput" % ("/" + f if f else ""))
            for it in range(2):
                files["stage0.%d#AB/%s" % (it, f or "out.stdout")] = big_content(rng, size if it else 4096, unit="x")
    # scenarios 0-3: every kind once above 128 KiB; 4-7: every kind once just above / at 64 KiB; then rotating
    if i < 4:
        size = [131073, 200000, 131073, 140001][i]
    elif i < 8:
        size = [65537, 65537, 65536, 65537][i - 4]
    else:
        size = BIG_SIZES[(i // 4 + i) % len(BIG_SIZES)]
    add(first, size)
    if second != "none":
        add(second, rng.choice(BIG_SIZES))
    refs.append(rng.choice(["stage0.BA:ref", "A:ref", "stage0.A/:ref"]))
    rng.shuffle(refs)
    scen = dict(stage=k, consumer="C", producers=producers, data=data, files=files, refs=refs)
    if loop:
        scen['loop'] = loop
    return scen

def many_iterations_scenario(rng, i, iters=None):
    """a DoWhile unrolled to 11-13 (or `iters`) iterations — the iteration numbers 10, 11, … exist — and a consumer
    that aggregates a looped producer with :loopref and :loopoutput (distinct contents per instance: the position of
    every instance in the value is visible), next to :ref/:output through the placeholder (latest instance)"""
    fam = rng.choice(FAMILIES)
    k = rng.randint(0, 1)
    ls = rng.randint(0, k)
    names = rng.sample(fam, 2)
    iters = iters or [11, 12, 13, 11][i % 4]
    loop = dict(stage=ls, names=[names[0]], iters=iters)
    producers = [[st, names[1]] for st in range(k + 1)]
    f = rng.choice([None, "out.txt", "t/out.txt"])
    fpart = "" if f is None else "/" + f
    pre = rng.choice(["stage%d." % ls, "" if ls == k else "stage%d." % ls])
    refs = [pre + names[0] + fpart + ":loopoutput", "stage%d.%s%s:loopref" % (ls, names[0], rng.choice(["", "/x.dat", "/"])),
            rng.choice(["stage%d.%s:ref" % (ls, names[0]), "stage%d.%s:output" % (ls, names[0]),
                        "stage%d.%s:ref" % (k, names[1])])]
    files = {}
    for it in range(iters):
        files["stage%d.%d#%s/%s" % (ls, it, names[0], f or "out.stdout")] = \
            rng.choice(["", " ", "\t"]) + "value-%d" % it + rng.choice(["\n", "\n", "", " \n\n"])
        if refs[2].endswith(":output"):
            files.setdefault("stage%d.%d#%s/out.stdout" % (ls, it, names[0]), "stdout-%d\n" % it)
    rng.shuffle(refs)
    consumer = "C"
    while [k, consumer] in producers or (ls == k and consumer in loop['names']):
        consumer += "c"
    return dict(stage=k, consumer=consumer, producers=producers, data=[], files=files, refs=refs, loop=loop)


def gen_log(rng):
    """ambient logging configuration (None: disabled, as usual)"""
    r = rng.random()
    if r < 0.6:
        return None
    if r < 0.85:
        return {"root": rng.choice([0, 1, 10, 13, 14, 15, 20]), "loggers": {}}
    return {"root": rng.choice([None, 20]), "loggers": {rng.choice(["graph", "flowir", "graph.workflowgraph"]): rng.choice([10, 13, 14, 15])}}


CORPUS = [
    # DESIGN section 8 #4: one producer's name is a suffix of another's, relative spellings
    dict(stage=0, consumer="C", producers=[[0, "A"], [0, "BA"]], data=[], files={}, refs=["A:ref", "BA:ref"],
         segs=[["lit", "x="], ["tok", "BA:ref"], ["lit", " y="], ["tok", "A:ref"]]),
    # both spellings of one reference in the same command line
    dict(stage=0, consumer="C", producers=[[0, "A"]], data=[], files={}, refs=["stage0.A:ref"],
         segs=[["lit", "x="], ["tok", "stage0.A:ref"], ["lit", " y="], ["tok", "A:ref"]]),
    # equal names across stages
    dict(stage=1, consumer="C", producers=[[0, "A"], [1, "A"]], data=[], files={},
         refs=["stage1.A:ref", "stage0.A:ref"],
         segs=[["lit", "x="], ["tok", "A:ref"], ["lit", " "], ["tok", "stage0.A:ref"]]),
    # contents of an output reference look like another declared reference
    dict(stage=1, consumer="C", producers=[[0, "A"], [1, "A"]], data=[],
         files={"stage0.A/out.txt": "hello A:ref stage1.A:ref\n\n"},
         refs=["stage0.A/out.txt:output", "A:ref"],
         segs=[["lit", "x="], ["tok", "A:ref"], ["lit", " "], ["tok", "stage0.A/out.txt:output"]]),
    # file contents with white space at both ends, tabs, CR, blank lines: only the final newlines are not part of the value
    dict(stage=1, consumer="C", producers=[[0, "A"], [1, "A"]], data=["hdr"],
         files={"stage0.A/rec.pdb": "  ATOM      1  N   ALA A   1  \n", "data/hdr": "\tindented header\t\n\n",
                "stage0.A/out.stdout": "\n v \r\n", "stage1.A/out.stdout": " \n"},
         refs=["stage0.A/rec.pdb:output", "data/hdr:output", "stage0.A:output", "A:output"],
         segs=[["lit", "-r=("], ["tok", "stage0.A/rec.pdb:output"], ["lit", ") -h=("], ["tok", "data/hdr:output"],
               ["lit", ") -o=("], ["tok", "stage0.A:output"], ["lit", ") -p=("], ["tok", "A:output"], ["lit", ")"]]),
    # loop instances of a DoWhile: :loopoutput / :loopref aggregate, :output / :ref see the latest instance
    dict(stage=1, consumer="C", producers=[[0, "B"]], data=[], loop=dict(stage=0, names=["A", "BA"], iters=2),
         files={"stage0.0#A/out.stdout": "  a0 \n\n", "stage0.1#A/out.stdout": "\ta1\t\n",
                "stage0.0#BA/out.txt": " b0", "stage0.1#BA/out.txt": "\n\nb1 \n"},
         refs=["stage0.A:loopoutput", "stage0.BA/out.txt:loopoutput", "stage0.A:loopref", "stage0.A:output"],
         segs=[["lit", "-a=("], ["tok", "stage0.A:loopoutput"], ["lit", ") -b=("], ["tok", "stage0.BA/out.txt:loopoutput"],
               ["lit", ") -d "], ["tok", "stage0.A:loopref"], ["lit", " -l=("], ["tok", "stage0.A:output"], ["lit", ")"]]),
    # well separated names (the situation the repository's tests cover)
    dict(stage=1, consumer="C", producers=[[0, "first"], [0, "second"]], data=["in"], files={"data/in": "7\n"},
         refs=["stage0.first:ref", "stage0.second/out.txt:ref", "data/in:output"],
         segs=[["lit", "-a "], ["tok", "stage0.first:ref"], ["lit", " -b="], ["tok", "stage0.second/out.txt:ref"],
               ["lit", " -n "], ["tok", "data/in:output"]]),
    # one live component, a fixed-width progress file rewritten with the same length and the same modification time,
    # then with another length, then removed; a second file of another producer with the same file name next to it
    dict(stage=0, consumer="Monitor", producers=[[0, "Simulate"], [0, "SimulateAgain"]], data=[],
         files={"stage0.Simulate/progress.txt": "step=0010 energy=-1.50\n", "stage0.SimulateAgain/progress.txt": "step=0001\n"},
         refs=["Simulate/progress.txt:output", "stage0.SimulateAgain/progress.txt:output", "Simulate:ref"],
         segs=[["lit", "--progress="], ["tok", "Simulate/progress.txt:output"], ["lit", " --other "],
               ["tok", "stage0.SimulateAgain/progress.txt:output"], ["lit", " --dir "], ["tok", "Simulate:ref"]],
         history=[[{"key": "stage0.SimulateAgain/progress.txt", "mode": "write", "c": "step=0002 done\n"}],
                  [{"key": "stage0.Simulate/progress.txt", "mode": "keep-mtime", "c": "step=0020 energy=-2.75\n"}],
                  [{"key": "stage0.Simulate/progress.txt", "mode": "replace-keep-mtime", "c": "step=0030 energy=-3.25\n"},
                   {"key": "stage0.SimulateAgain/progress.txt", "mode": "older-mtime", "c": "step=0003 done\n"}],
                  [],
                  [{"key": "stage0.Simulate/progress.txt", "mode": "remove"}],
                  [{"key": "stage0.Simulate/progress.txt", "mode": "write", "c": "step=0040 energy=-4.00\n"}]]),
]


# ----------------------------------------------------------------------------------------
# histories: one live experiment, the referenced files change between two resolutions
# ----------------------------------------------------------------------------------------

_HTIME = [0.0, 0.0]
HISTORY_SLUG = "reference-resolved-again-is-not-the-current-contents-of-the-file"
_SWAP_UNIT = {"x": "y", "y": "x", "\u00b5": "\u00e9", "\u00e9": "\u00b5"}


def same_length_other_contents(v, j=1):
    """different contents with exactly the same number of bytes (a fixed-width counter / progress / energy file that
    is rewritten): ASCII letters and digits are rotated by j; None when there is nothing to vary"""
    if isinstance(v, dict):
        return dict(v, unit=_SWAP_UNIT.get(v.get("unit", "x"), "y"))
    out = []
    for ch in v:
        if "0" <= ch <= "9":
            out.append(chr(48 + (ord(ch) - 48 + j) % 10))
        elif "a" <= ch <= "z":
            out.append(chr(97 + (ord(ch) - 97 + j) % 26))
        elif "A" <= ch <= "Z":
            out.append(chr(65 + (ord(ch) - 65 + j) % 26))
        else:
            out.append(ch)
    w = "".join(out)
    if w == v:
        for i, ch in enumerate(v):
            if ch in "\n\r" or ord(ch) > 126:
                continue
            w = v[:i] + {" ": "\t", "\t": " ", "_": "-"}.get(ch, "_") + v[i + 1:]
            break
    return None if w == v else w


def apply_file_op(target, op):
    """one step of a producer (or of a stage-out / copy tool) on the real file system.  Modes:
    write: rewrite in place, the file system gives a new modification time; keep-mtime: rewrite in place and leave the
    modification time the file had (coarse time stamps, cp -p, rsync -t); replace-keep-mtime: the same through a
    temporary file and an atomic rename (another inode); older-mtime: the file ends up OLDER than it was (restored
    from a copy, clock skew between hosts); remove: the file is deleted"""
    mode = op["mode"]
    if mode == "remove":
        if os.path.exists(target):
            os.remove(target)
        return
    data = ctext(op["c"]).encode("utf-8")
    before = os.stat(target) if os.path.exists(target) else None
    os.makedirs(os.path.dirname(target), exist_ok=True)
    if mode == "replace-keep-mtime" and before is not None:
        tmp = target + ".tmp~"
        with open(tmp, "wb") as fh:
            fh.write(data)
        os.utime(tmp, ns=(before.st_atime_ns, before.st_mtime_ns))
        os.replace(tmp, target)
        return
    with open(target, "wb") as fh:
        fh.write(data)
    if before is not None:
        if mode in ("keep-mtime", "replace-keep-mtime"):
            os.utime(target, ns=(before.st_atime_ns, before.st_mtime_ns))
        elif mode == "older-mtime":
            os.utime(target, ns=(before.st_atime_ns, before.st_mtime_ns - 10 * 10 ** 9))


def content_keys(case):
    """keys of the files whose contents are the value of a declared reference"""
    keys = []
    for r in my_refs(case):
        if r['kind'] == 'output':
            for k in places_of(r, case)[1]:
                if k not in keys:
                    keys.append(k)
    return keys


def gen_history(rng, scen, nrounds=None):
    """batches of file operations on the files the declared :output / :loopoutput references read: mostly rewrites
    with other contents of the SAME length that keep the modification time, also other lengths, new and older
    modification times, atomic replacement, removal and (re)creation; [] = nothing changes between two resolutions"""
    keys = content_keys(scen)
    if not keys:
        return []
    state = dict(scen['files'])
    for d in scen.get('data', []):
        state.setdefault('data/' + d, 'x')
    hist = []
    nrounds = nrounds or rng.choice([2, 3, 3, 4])
    for rnd in range(nrounds):
        batch = []
        if rnd > 0 and rng.random() < 0.12:
            hist.append(batch)           # resolved twice without any change
            continue
        for key in rng.sample(keys, min(len(keys), rng.choice([1, 1, 2, len(keys)]))):
            cur = state.get(key)
            if cur is None:
                op = {"key": key, "mode": "write", "c": gen_content(rng)}
            else:
                same = same_length_other_contents(cur, rng.randint(1, 9))
                r = rng.random()
                if same is not None and (r < 0.6 or (rnd == 0 and not batch)):
                    op = {"key": key, "c": same,
                          "mode": rng.choice(["keep-mtime", "keep-mtime", "keep-mtime", "replace-keep-mtime",
                                              "older-mtime", "write"])}
                elif r < 0.85 or key.startswith("data/"):
                    other = gen_content(rng)
                    if isinstance(cur, dict):
                        other = dict(cur, big=cur["big"] + rng.choice([-1, 1, 9]))
                    op = {"key": key, "c": other, "mode": rng.choice(["keep-mtime", "write", "older-mtime",
                                                                      "replace-keep-mtime"])}
                else:
                    op = {"key": key, "mode": "remove"}
            batch.append(op)
            if op["mode"] == "remove":
                state.pop(key, None)
            else:
                state[key] = op["c"]
        hist.append(batch)
    return hist


def files_after(files, batch):
    files = dict(files)
    for op in batch:
        if op["mode"] == "remove":
            files.pop(op["key"], None)
        else:
            files[op["key"]] = op["c"]
    return files


def psource_of(ref, case):
    """the model's source of a reference with the files named by their keys (the model reads its own file system)"""
    if ref['kind'] != 'output':
        return source_of(ref, case)
    _, keys = places_of(ref, case)
    if ref['method'] == 'loopoutput':
        if is_looped(ref, case):
            return {"t": "instFilesAt", "insts": sorted(({"id": i, "p": k} for i, k in zip(instance_ids(ref, case), keys)),
                                                        key=lambda x: x["id"])}
        return {"t": "filesAt", "ps": keys}
    return {"t": "fileAt", "p": keys[0]}


def history_request(case, order, arg_list, hist):
    """the history for the model: symbolic modification times (a counter; kept / older as the mode says)"""
    refs = my_refs(case, order)
    clock = [1000]
    mt = {}

    def tick():
        clock[0] += 10
        return clock[0]

    def mop(op):
        if op["mode"] == "remove":
            mt.pop(op["key"], None)
            return {"op": "remove", "p": op["key"]}
        old = mt.get(op["key"])
        if old is None or op["mode"] == "write":
            t = tick()
        elif op["mode"] == "older-mtime":
            t = old - 1
        else:
            t = old
        mt[op["key"]] = t
        return {"op": "write", "p": op["key"], "t": t, "c": ctext(op["c"])}

    init_files = dict(case['files'])
    for d in case.get('data', []):
        init_files.setdefault('data/' + d, 'x')
    init = [mop({"key": k, "mode": "write", "c": v}) for k, v in sorted(init_files.items()) if v is not None]
    return {"op": "history", "args": list(arg_list),
            "refs": [dict(text=r['decl'], consumer=case['stage'], direct=r['stage'] is None,
                          source=psource_of(r, case)) for r in refs],
            "init": init, "rounds": [[mop(op) for op in batch] for batch in hist]}


def check_history(ctx, impl, scen, seg_lists, label, hist=None):
    """ONE real experiment: the argument strings are resolved, then after every batch of `hist` resolved again on the same
    live objects.  Every answer must be the one for the contents the files hold at that moment."""
    base = {k: v for k, v in scen.items() if k not in ('segs', 'history', 'again_after')}
    hist = hist if hist is not None else scen.get('history')
    if not hist:
        return
    order = list(base['refs'])
    arg_list = ["".join(s[1] for s in segs) for segs in seg_lists]
    t_ = time.time()
    res = impl.run(base, order, arg_list, history=hist)
    _HTIME[0] += time.time() - t_
    if "load_error" in res:
        ctx.fail("valid-workflow-rejected-at-load", dict(base, segs=[]), res)
        return
    t_ = time.time()
    m = ctx.model([history_request(base, order, arg_list, hist)])
    _HTIME[1] += time.time() - t_
    states = [base['files']]
    for batch in hist:
        states.append(files_after(states[-1], batch))
    answers = [res["outs"]] + res["rounds"]
    modes = sorted({"history:" + op["mode"] for batch in hist for op in batch} |
                   ({"history:no-change"} if any(not b for b in hist) else set()))
    for ai, (segs, args) in enumerate(zip(seg_lists, arg_list)):
        case = dict(base, segs=segs, history=hist)
        ctx.case(case, nontrivial=(len(order) >= 2 and sum(1 for s_ in segs if s_[0] == "tok") >= 2),
                 tags=[label, "history", "history:rounds=%d" % len(hist)] + modes)
        for ri, (files, outs) in enumerate(zip(states, answers)):
            now = dict(base, files=files)
            out = outs[ai]
            exp_out, exp_unused, ambiguous = expected(now, args, order)
            what = None
            if "error" in out:
                what, detail = "resolveArguments-raises", out
            elif not ambiguous:
                if out["out"] != exp_out:
                    what, detail = HISTORY_SLUG if ri else "reference-not-replaced-by-its-own-value-or-other-text-changed", \
                        big_detail(exp_out, out["out"], args)
                elif "job" in out and out["job"] != exp_out:
                    what, detail = HISTORY_SLUG if ri else "reference-not-replaced-by-its-own-value-or-other-text-changed", \
                        dict(big_detail(exp_out, out["job"], args), entry_point="Job.resolveArguments")
                elif sorted(out["unused"]) != sorted(exp_unused):
                    what, detail = "wrong-set-of-unused-references", dict(expected=exp_unused, got=out["unused"], args=args)
            if what:
                # the history up to the round that went wrong is the failing input
                ctx.fail(what, dict(case, history=hist[:ri]) if ri else dict(base, segs=segs),
                         dict(detail, resolution_number=ri + 1,
                              operations_before_it=[[dict(op, c=(op.get("c") if not isinstance(op.get("c"), str)
                                                                 else op["c"][:200])) for op in b] for b in hist[:ri]][-1:]))
                break
            if m is not None and "error" not in out:
                mr = m[0]["results"][ai][ri]
                ctx.compare("resolveArguments after a history of file operations == ArgSubst.resolveRounds",
                            dict(case, history=hist[:ri]),
                            dict(out=mr["out"], unused=sorted(mr["unused"]), unresolved=mr["unresolved"]),
                            dict(out=out["out"], unused=sorted(out["unused"]), unresolved=out["unresolved"]))


# ----------------------------------------------------------------------------------------
# checking
# ----------------------------------------------------------------------------------------

def model_request(case, order, args):
    refs = my_refs(case, order)
    # the model reads the declared TEXT itself (ArgSubst.declOfText); that it is a reference to a component or a
    # direct one is decided by the loader and given
    return {"op": "resolve", "args": args,
            "refs": [dict(text=r['decl'], consumer=case['stage'], direct=r['stage'] is None,
                          source=source_of(r, case)) for r in refs]}


def big_detail(expected, got, args):
    """failure detail without megabytes of text"""
    if expected is None or (len(expected) < 3000 and len(got) < 3000):
        return dict(expected=expected, got=got, args=args)
    i = 0
    n = min(len(expected), len(got))
    while i < n and expected[i] == got[i]:
        i += 1
    return dict(args=args, expected_length=len(expected), got_length=len(got), identical_up_to=i,
                expected_there=expected[max(0, i - 40):i + 40], got_there=got[max(0, i - 40):i + 40],
                expected_tail=expected[-60:], got_tail=got[-60:])


def orders_of(ctx, refs, limit):
    perms = list(itertools.permutations(refs))
    if len(perms) <= limit:
        return perms, True
    keep = [perms[0], perms[-1]] + ctx.rng.sample(perms[1:-1], limit - 2)
    return keep, False


def check_scenario(ctx, impl, scen, seg_lists, perm_limit, label):
    """scen: scenario without 'segs'; seg_lists: list of segment lists.  All declaration orders (up to
    perm_limit) are built as separate real experiments."""
    base = {k: v for k, v in scen.items() if k != 'segs'}
    arg_list = ["".join(s[1] for s in segs) for segs in seg_lists]
    orders, complete = orders_of(ctx, base['refs'], perm_limit)
    per_order = []
    reqs = []
    for order in orders:
        res = impl.run(base, order, arg_list)
        per_order.append(res)
        for args in arg_list:
            reqs.append(model_request(base, order, args))
    mouts = ctx.model(reqs) if reqs else []
    qi = 0
    first_out = {}
    for oi, (order, res) in enumerate(zip(orders, per_order)):
        if "load_error" in res:
            # the generator only produces loadable documents; a rejection of one is reported as an oracle failure
            case = dict(base, refs=list(order), segs=[["lit", res.get("canonical_args", "")]])
            ctx.case(case, nontrivial=False, tags=["impl:load-error"])
            ctx.fail("valid-workflow-rejected-at-load", dict(base, refs=list(order), segs=[]), res)
            qi += len(arg_list)
            continue
        mine = my_refs(base, order)
        vtags = set()
        for r in mine:
            if r['kind'] == 'other':
                continue
            vtags.add("method:" + r['method'] + ("@placeholder" if is_looped(r, base) else ""))
            if r['kind'] == 'output':
                for key in places_of(r, base)[1]:
                    c = fget(base, key)
                    vtags.update(["content:missing"] if c is None else content_tags(c))
        if base.get('loop'):
            n_it = base['loop']['iters']
            vtags.add("loop:iters=%s" % (n_it if n_it <= 3 else "4-10" if n_it <= 10 else "11-13" if n_it <= 13 else ">13"))
            # the instances the harness (and through it the model) assumes are the ones the placeholder represents
            ctx.compare("placeholder['represents'] == instances 0 … iters-1 of the looped component",
                        dict(base, refs=list(order), segs=[]),
                        {nm: sorted("stage%d.%d#%s" % (base['loop']['stage'], i, nm) for i in range(n_it))
                         for nm in base['loop']['names']},
                        res.get("represents"))
        vtags.add("logging:" + ("disabled" if base.get('log') is None else "configured"))
        ctx.compare("spec.dataReferences spellings == harness reading of the declaration",
                    dict(base, refs=list(order), segs=[]),
                    [dict(abs=r['abs'], rel=r['rel'], stage=r['stage'], method=r['method'], file=r['file'])
                     for r in mine],
                    res["seen"])
        sp = ctx.model([{"op": "spell", "text": r['decl'], "consumer": base['stage'], "direct": r['stage'] is None}
                        for r in mine])
        if sp is not None:
            ctx.compare("DataReference (absoluteReference, relativeReference, stage, fileRef, method) == ArgSubst.parseRef",
                        dict(base, refs=list(order), segs=[]),
                        [dict(abs=m_.get("abs"), rel=m_.get("rel"), stage=m_.get("stage"), method=m_.get("method"),
                              file=m_.get("file")) for m_ in sp],
                        res["seen"])
            for r in mine:
                if r['file'] == "":
                    ctx.tag("shape:empty-file-part")
                elif r['file'] is not None and (r['file'].endswith("/") or "//" in r['file'] or
                                                "." in r['file'].split("/")):
                    ctx.tag("shape:odd-file-part")
                elif r['stage'] is None and os.path.normpath(r['path']) != r['path']:
                    ctx.tag("shape:odd-direct-path")
        for ai, (segs, args) in enumerate(zip(seg_lists, arg_list)):
            case = dict(base, refs=list(order), segs=segs)
            out = res["outs"][ai]
            exp_out, exp_unused, ambiguous = expected(base, args, order)
            ntok = sum(1 for s in segs if s[0] == "tok")
            overlap = overlapping(mine)
            tags = [label, "refs:%d" % len(order), "overlap" if overlap else "no-overlap",
                    "ambiguous" if ambiguous else "unambiguous",
                    "impl:" + ("error" if "error" in out else "ok")] + sorted(vtags)
            ctx.case(case, nontrivial=(ntok >= 2 and len(order) >= 2), tags=tags)
            if "error" in out:
                ctx.fail("resolveArguments-raises", case, out)
            elif not ambiguous:
                if out["out"] != exp_out:
                    ctx.fail("reference-not-replaced-by-its-own-value-or-other-text-changed", case,
                             big_detail(exp_out, out["out"], args))
                elif "job" in out and out["job"] != exp_out:
                    ctx.fail("reference-not-replaced-by-its-own-value-or-other-text-changed", case,
                             dict(big_detail(exp_out, out["job"], args), entry_point="Job.resolveArguments"))
                elif sorted(out["unused"]) != sorted(exp_unused):
                    ctx.fail("wrong-set-of-unused-references", case,
                             dict(expected=exp_unused, got=out["unused"], args=args))
                key = ai
                if key in first_out and first_out[key][0] != out["out"]:
                    ctx.fail("result-depends-on-declaration-order", case,
                             dict(args=args, this_order=list(order), this_out=out["out"],
                                  other_order=first_out[key][1], other_out=first_out[key][0]))
                first_out.setdefault(key, (out["out"], list(order)))
            if mouts is not None:
                m = mouts[qi]
                if not m["functional"]:
                    ctx.tag("model:dictionary-not-functional")
                if not m["roundtrip"]:
                    ctx.fail("model-parse-does-not-reproduce-arguments", case, m)
                if m["new"] != m["old"]:
                    ctx.tag("model:old-algorithm-differs")
                if "job" in out:
                    ctx.tag("entry:Job.resolveArguments")
                    ctx.compare("Job.resolveArguments == ArgSubst.resolve (out)", case,
                                dict(out=m["new"]["out"]), dict(out=out["job"]))
                if "error" not in out:
                    ctx.compare("resolveArguments (out, unused, unresolved) == ArgSubst.resolve", case,
                                dict(out=m["new"]["out"], unused=sorted(m["new"]["unused"]),
                                     unresolved=m["new"]["unresolved"]),
                                dict(out=out["out"], unused=sorted(out["unused"]), unresolved=out["unresolved"]))
                if not ambiguous and exp_out is not None:
                    # the oracle and the model are written independently; they must agree as well
                    ctx.compare("tokenising oracle == ArgSubst.resolve (out, unused)", case,
                                dict(out=m["new"]["out"], unused=sorted(m["new"]["unused"])),
                                dict(out=exp_out, unused=sorted(exp_unused)))
            qi += 1
    if base.get('again_after') and per_order and "load_error" not in per_order[0]:
        # process-level state: other scenarios (the same names in other roles, other numbers of loop instances), then
        # the first declaration order of this one again: the same answers
        for other in base['again_after']:
            impl.run({k: v for k, v in other.items() if k != 'segs'}, other['refs'], ["hi"])
        again = impl.run(base, orders[0], arg_list)
        ctx.tag("run-again-after-other-scenarios")
        if again != per_order[0]:
            ctx.fail("result-depends-on-earlier-cases", dict(base, refs=list(orders[0]), segs=seg_lists[0]),
                     dict(first=str(per_order[0])[:1500], again=str(again)[:1500]))
    return complete


def overlapping(refs):
    sps = set()
    for r in refs:
        if r['kind'] != 'other':
            sps.add(r['abs'])
            sps.add(r['rel'])
    return any(a != b and a in b for a in sps for b in sps if not (b.endswith(a) and b.startswith("stage")
                                                                    and b[len(b) - len(a) - 1] == "." and
                                                                    b[:len(b) - len(a) - 1][5:].isdigit()))


def classify_none(what, case, detail):
    return False


CLASSIFIERS = {}


def make_shrinker(ctx, impl):
    from harness import common

    mode = [None]

    def fails(case):
        base = {k: v for k, v in case.items() if k != 'segs'}
        if mode[0] == "result-depends-on-declaration-order":
            args = args_of(case)
            first = None
            for order in list(itertools.permutations(case['refs']))[:24]:
                res = impl.run(base, order, [args])
                if "load_error" in res or "error" in res["outs"][0] or expected(base, args, order)[2]:
                    return False
                if first is None:
                    first = res["outs"][0]["out"]
                elif res["outs"][0]["out"] != first:
                    return list(case['refs'])
            return False
        args = args_of(case)
        orders = list(itertools.permutations(case['refs']))[:24]
        outs = []
        for order in orders:
            res = impl.run(base, order, [args])
            if "load_error" in res:
                return False
            out = res["outs"][0]
            if "error" in out:
                return False
            e, u, amb = expected(base, args, order)
            if amb:
                return False
            if out["out"] != e or sorted(out["unused"]) != sorted(u):
                return list(order)
            outs.append(out["out"])
        return False

    def shrink(what, case):
        if what == "valid-workflow-rejected-at-load" or case.get('history'):
            return None          # a history is stored as found
        mode[0] = what
        bad = fails(case)
        if not bad:
            return None
        case = dict(case, refs=bad)
        # 1. drop references (and their tokens)
        changed = True
        while changed:
            changed = False
            for t in list(case['refs']):
                r = read_ref(t, case['stage'])
                cand = dict(case, refs=[x for x in case['refs'] if x != t],
                            segs=[s for s in case['segs'] if not (s[0] == "tok" and s[1] in (r['abs'], r['rel']))])
                if len(cand['refs']) >= 1:
                    b = fails(cand)
                    if b:
                        case = dict(cand, refs=b)
                        changed = True
                        break
        # 2. drop segments
        segs = common.shrink_list(case['segs'], lambda ss: bool(fails(dict(case, segs=ss))), max_steps=40)
        case = dict(case, segs=segs)
        b = fails(case)
        if b:
            case = dict(case, refs=b)
        # 3. drop producers / files that are not needed
        for p in list(case['producers']):
            cand = dict(case, producers=[x for x in case['producers'] if x != p])
            if fails(cand):
                case = dict(cand, refs=fails(cand))
        for key in list(case['files']):
            cand = dict(case, files={k: v for k, v in case['files'].items() if k != key})
            if fails(cand):
                case = dict(cand, refs=fails(cand))
        return case

    def shrink_and_clean(what, case):
        # called from finish(), after run() removed its scratch directory: Impl recreates it on demand
        try:
            return shrink(what, case)
        finally:
            shutil.rmtree(impl.workdir, ignore_errors=True)

    return shrink_and_clean


def check_methods(ctx):
    TU, experiment = _imports()
    impl_methods = list(experiment.model.graph.DataReference.methods)
    m = ctx.model([{"op": "methods"}])
    if m is not None:
        ctx.compare("DataReference.methods == ArgSubst.methods", {"methods": True}, m[0]["methods"], impl_methods)
    if sorted(impl_methods) != sorted(METHODS):
        ctx.notes.append("DataReference.methods changed: %s" % impl_methods)


def run(ctx):
    ctx.rule = ("case = (producer set over stages 0..2 drawn from 6 families of mutually overlapping names, optionally a real "
                "DoWhile whose 1-2 looped components have 1-3 loop instances (12% of the loops and 3 dedicated scenarios "
                "per quick run, 12 per thorough run: 10-13 instances, i.e. two-digit iteration numbers, distinct contents "
                "per instance; thorough: one with 101), optionally a sampled logging configuration of the process (root / "
                "graph / flowir loggers at 0,1,10,13,14,15,20 instead of disabled logging), consumer stage, 2-4 declared references in one "
                "declaration order mixing :ref/:output/:loopref/:loopoutput/:copy/:link (to working directories, files, "
                "stdout, placeholders), absolute and relative spellings, data/ direct references, degenerate file parts "
                "(present but empty `P/:ref`, `.`, trailing / doubled separator, `./f`; direct paths with trailing / doubled "
                "separator or `.`), byte-exact files whose "
                "contents carry white space at both ends (blanks, tabs, VT/FF, NBSP, blank lines, CR/CRLF), are empty / "
                "white-space only / missing / look like references / are long (size classes 4 KiB, 64 KiB +-1, 96 KiB, "
                "128 KiB +-1, 200 KB for :output of file, stdout, direct file and :loopoutput), argument string built from separators, noise "
                "text and reference tokens); every declaration order (all permutations of <= 4 references) is built as its "
                "own real Experiment; every generated scenario is additionally built as ONE live Experiment on which the argument "
                "strings are resolved, then 2-4 batches of file operations on the files the :output / :loopoutput references "
                "read are applied (other contents of the same byte length with the modification time kept in place / kept "
                "through an atomic rename / set older / renewed, other lengths, removal, creation, no change), resolving "
                "again through both entry points after every batch; non-trivial = >= 2 declared references and >= 2 reference tokens in the argument "
                "string; distinct by canonical JSON of the case")
    ctx.assumptions = [
        "argument strings and file contents contain no '%' and no '[': the final FlowIR.fill_in (variable interpolation, "
        "array access) is then the identity and is not part of this property",
        "an undeclared token that merely ends in a declared spelling (xA:ref with only A declared) is rejected by the "
        "loader (FlowIRUnknownReferenceInArguments); such strings are compared with the model but not judged by the oracle",
        "the value of an :output reference is the file's decoded text minus the newline characters that terminate it and "
        "nothing else (\"\" while the file is missing); a :loopoutput reference is the blank-joined list of these per loop "
        "instance; files are valid UTF-8",
        "the :loopoutput branch reads in text mode (CRLF and CR become LF) while :output keeps carriage returns: values of "
        ":loopoutput references whose files contain CR are compared with the model only, not judged by the oracle",
        "no file part starts with a separator (`P//x`: os.path.join then drops the producer and the spelling is `/x:ref`, "
        "Witness.C10.doubled_separator_spelling_is_not_the_text) and no reference is an absolute path; `P/:output` / "
        "`P/:loopoutput` (a directory where a file is needed) are not generated; the value of a direct reference is the "
        "normalised path below the instance directory",
        "the loop instances of a looped producer are given to the model as (instance id, location / contents) pairs in the "
        "order of their id TEXTS; the model puts them into iteration order (ArgSubst.orderInstances); that the ids are the "
        "ones the real placeholder represents is compared on every case",
        "Job.resolveArguments (the component instance's entry point) is judged like resolveArguments whenever it returns "
        "(it does not tolerate missing files)",
        "some scenarios are run a second time after two other scenarios that use the same producer / consumer names in other "
        "roles: the answers must be identical (process-level state)",
        "histories: a reference resolved again on the same live component after the referenced file was rewritten, removed "
        "or created must have the value of the contents the file holds at that moment (\"\" while it does not exist), "
        "whatever its length and modification time are and whatever an earlier resolution returned; modification times "
        "are set with os.utime (what cp -p / rsync -t / a coarse-grained file system leave behind)",
        "argument strings other than the canonical one are installed with setOption('#command.arguments') on the loaded "
        "experiment (the loader refuses undeclared reference-like text, which the property wants left untouched)",
    ]
    ctx.trusted.append("C10: Python `re` semantics of an alternation of escaped literals sorted longest first "
                       "(leftmost match, first matching alternative), modelled by ArgSubst.best/parseAux and exercised "
                       "by the correspondence")
    ctx.classifiers = CLASSIFIERS
    quick = ctx.tier == "quick"
    rng = ctx.rng
    tmp = tempfile.mkdtemp(prefix="c10-")
    t0 = time.time()
    try:
        impl = Impl(tmp)
        ctx.shrinker = make_shrinker(ctx, impl)
        check_methods(ctx)
        complete_all = True
        corpus = [] if os.environ.get("C10_NO_CORPUS") else list(CORPUS)   # switch only for self-tests of the generator
        cdir = os.path.join(os.path.dirname(os.path.dirname(os.path.abspath(__file__))), "corpus", "C10")
        if os.path.isdir(cdir):
            import json
            for fn in sorted(os.listdir(cdir)):
                if fn.endswith(".json"):
                    doc = json.load(open(os.path.join(cdir, fn)))
                    corpus.append(doc.get("input", doc))
        for c in corpus:
            complete_all &= check_scenario(ctx, impl, {k_: v for k_, v in c.items() if k_ != 'history'}, [c['segs']], 24,
                                           "corpus")
            if c.get('history'):
                check_history(ctx, impl, c, [c['segs']], "corpus")
        nscen = 28 if quick else 260
        nargs = 6 if quick else 10
        budget = 62 if quick else 640
        # two-digit (thorough: also three-digit) iteration numbers first: every order of few references, few strings
        nmany = 3 if quick else 12
        for i in range(nmany):
            scen = many_iterations_scenario(rng, i)
            if i % 2:
                scen['log'] = {"root": rng.choice([10, 13, 14]), "loggers": {}}
            seg_lists = [gen_segs(rng, scen, st) for st in ("each-once", rng.choice(["repeat", "abs", "noisy"]))]
            complete_all &= check_scenario(ctx, impl, scen, seg_lists, 3 if quick else 6, "generated-many-iterations")
            check_history(ctx, impl, scen, seg_lists, "generated-many-iterations", gen_history(rng, scen))
        if not quick:
            scen = many_iterations_scenario(rng, 0, iters=101)
            complete_all &= check_scenario(ctx, impl, scen, [gen_segs(rng, scen, "each-once")], 2, "generated-many-iterations")
        recent = []
        for i in range(nscen):
            if time.time() - t0 > budget:
                ctx.notes.append("time budget reached after %d scenarios" % i)
                break
            scen = gen_scenario(rng)
            scen_log = gen_log(rng)
            if scen_log is not None:
                scen['log'] = scen_log
            seg_lists = [gen_segs(rng, scen, rng.choice(STYLES)) for _ in range(nargs)]
            if len(recent) >= 2 and i % (6 if quick else 10) == 5:
                # the same producer / consumer names in other roles in between, then this scenario again
                scen['again_after'] = [dict(r, segs=[]) for r in recent[-2:]]
            complete_all &= check_scenario(ctx, impl, scen, seg_lists,
                                           24 if not scen.get('loop') or scen['loop']['iters'] <= 3 else 4, "generated")
            # the same scenario as ONE live experiment whose referenced files change between resolutions
            for _ in range(1 if quick else 2):
                check_history(ctx, impl, scen, seg_lists[:3], "generated", gen_history(rng, scen))
            recent.append({k_: v for k_, v in scen.items() if k_ != 'again_after'})
        # long contents (few cases: every declaration order is its own experiment and the strings are long)
        nbig = 8 if quick else 36
        for i in range(nbig):
            scen = big_scenario(rng, i)
            seg_lists = [gen_segs(rng, scen, st) for st in ("each-once", rng.choice(["repeat", "abs", "noisy"]))]
            complete_all &= check_scenario(ctx, impl, scen, seg_lists, 6, "generated-long-contents")
            if i % 4 == 1:
                check_history(ctx, impl, scen, seg_lists[:1], "generated-long-contents", gen_history(rng, scen, 2))
        ctx.extra["declaration_orders_exhaustive"] = bool(complete_all)
        ctx.extra["experiments_built"] = impl.n
        ctx.extra["history_seconds_impl_model"] = [round(x, 1) for x in _HTIME]
    finally:
        shutil.rmtree(tmp, ignore_errors=True)


def replay(ctx, doc):
    case = doc.get("input")
    if case is None:
        for b in doc.get("no_longer_checks", []):
            if b.get("kind") == "correspondence" and isinstance(b.get("input"), dict) and "producers" in b["input"]:
                case = b["input"]
        if case is None:
            return
    ctx.classifiers = CLASSIFIERS
    tmp = tempfile.mkdtemp(prefix="c10-")
    try:
        impl = Impl(tmp)
        check_methods(ctx)
        if not case.get('segs'):
            case = dict(case, segs=[["lit", "hi"]])
        # the stored declaration order first, then every other order
        check_scenario(ctx, impl, {k: v for k, v in case.items() if k != 'history'}, [case['segs']], 24, "replay")
        if case.get('history'):
            check_history(ctx, impl, case, [case['segs']], "replay")
    finally:
        shutil.rmtree(tmp, ignore_errors=True)
