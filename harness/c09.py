"""C09 — Data references parse, print and classify consistently.

Implementation under test (real code, in-process, pure functions):
  FlowIR.ParseDataReference / ParseProducerReference / ParseDataReferenceFull / compile_reference /
  is_datareference_to_component / expand_potential_component_reference / expand_component_references /
  application_dependency_to_name / is_var_reference, Manifest.top_level_folders (flowir.py),
  graph.DataReference / ComponentIdentifier (absolute / relative forms, to_uid), and the verdict of
  FlowIRConcrete.validate(top_level_folders=Manifest(...).top_level_folders) on a two-stage workflow
  whose consumer declares the reference.
Model: lean/St4sd/Model/Ref.lean via drv-c09.  Theorems: lean/St4sd/Props/C09.lean.

A *world* = (known components per stage, manifest keys, application dependencies, context stage);
reference strings are built from a grammar (stage prefix x producer x nested file path x method), mostly out of
the world's own vocabulary so that every classification branch is hit, plus a malformed stream.

The run is ONE interpreter session (lean/St4sd/Model/RefSession.lean, theorems of section 6 of Props/C09.lean):
  * every call goes through Impl.call, which hands the caller's persistent list / dict objects (or None / [] / a copy)
    to the real code, and afterwards compares the live class-level tables with the constants extracted from the sources
    and the argument objects with their value before the call;
  * families of worlds use the same names in different roles and are evaluated interleaved;
  * earlier calls are made again later, and in fresh interpreters (class Zygote: a child forked after importing the code
    under test and before the first call to it; every request runs in a fork of that child);
  * an oracle failure that does not show in a fresh interpreter is reported as `result-depends-on-earlier-calls` with the
    (shrunk) sequence of calls that produces it.

Directory worlds (lean/St4sd/Model/RefDir.lean, section 7 of Props/C09.lean): the clause "top-level or manifest folder of the
package" is driven through the REAL derivation of the folder set from disk.  A generated package directory (real / empty
directories, files, absolute / relative / chained links to directories inside and outside the package, links to files,
broken links, link loops, fifos; names colliding with components, reserved folders, application dependencies; hidden and
dotted names; `conf` itself a link) is built in a scratch directory and the folder set is obtained by
Manifest.fromDirectory, ExperimentConfigurationFactory.configurationForExperiment (no / dictionary / yaml manifest),
ExperimentPackage.packageFromLocation + Experiment.experimentFromPackage, Experiment.experimentFromInstance on the created
instance (restart) and a single-file package whose manifest deploys the folders with :copy / :link; every derived set is
compared with the model and handed to the classification functions for references into every entry.  The oracle knows
what is a folder from how the entry was BUILT (as the user sees it with os.path.isdir), never from the code under test.
"""
from __future__ import annotations

import json

METHODS_FALLBACK = ['copy', 'link', 'ref', 'copyout', 'extract', 'output', 'loopref', 'loopoutput']

# parameters of every driven entry point, in call order.  A *call descriptor* is {"op": name, <param>: value...};
# a list / known-components value may be {"$obj": name}: the persistent object `name` of the session (the same Python
# object is handed to every call that refers to it, as a caller that keeps its folder list around does).
OPS = {
    "pdr": ["v"], "cpdr": ["v"], "ppr": ["r", "i"], "cppr": ["r", "i"],
    "full": ["v", "i", "deps", "extra"], "isc": ["v", "tlf"], "compile": ["p", "f", "m", "s", "r"],
    "expand": ["v", "ctx", "known", "tlf", "force"], "expand1": ["v", "ctx", "known", "deps", "tlf"],
    "expandall": ["refs", "ctx", "known", "deps", "tlf"], "dref": ["v", "i"], "dri": ["v", "stage", "deps"],
    "vrefs": ["v", "known", "implied", "tlf"], "validate": ["v", "stage", "known", "tlf", "deps"],
    "tlf": ["keys"], "appdep": ["v"], "isvar": ["v"],
    # the folder set derived from disk (section "directory worlds")
    "fromdir": ["path", "dirs", "files", "resolve", "method"], "pkgload": ["path", "manifest", "consumer"],
    "instance": ["path", "manifest", "consumer", "location"],
}
FOLDER_PARAMS = ("deps", "extra", "tlf")
TABLES = ("special", "methods", "dr_methods", "varpat")


def snap(a):
    if type(a) is list:
        return a[:]
    if type(a) is dict:
        return {k: (v[:] if type(v) is list else v) for k, v in a.items()}
    return a


def to_json_obj(a):
    """persistent object -> JSON (known-components dictionaries get string keys)"""
    if type(a) is dict:
        return {str(k): list(v) for k, v in a.items()}
    return list(a) if type(a) is list else a


def from_json_obj(a):
    if type(a) is dict:
        return {int(k): list(v) for k, v in a.items()}
    return list(a) if type(a) is list else a


def is_ref(v):
    return type(v) is dict and "$obj" in v


_SRC = []


def source_tables():
    """the class-level tables as they are written in the sources of the tree under test (ast, no import)"""
    if not _SRC:
        from harness import gen_c09
        c = gen_c09.extract()
        _SRC.append({"special": list(c["special"]), "methods": list(c["methods"]), "dr_methods": list(c["methods"]),
                     "varpat": c["varpat"]})
    return {k: (list(v) if isinstance(v, list) else v) for k, v in _SRC[0].items()}


class Impl:
    """the real code.  Every entry point is reached through `call(descriptor, objects)`, which also watches (a) the
    caller's list / dict arguments and (b) the live class-level tables for in-place changes."""

    def __init__(self, src=None):
        import experiment.model.frontends.flowir as M
        import experiment.model.graph as G
        import experiment.model.errors as E
        import experiment.model.data as D
        import experiment.model.conf as C
        import experiment.model.storage as ST
        self.M, self.G, self.E, self.D, self.C, self.ST = M, G, E, D, C, ST
        self.F = M.FlowIR
        self.src = src or source_tables()
        self.events = []          # in-place changes seen by call(): dicts
        self.restore = True       # put changed tables / arguments back after reporting them
        self.trace = None         # optional: collections.deque of (descriptor, objects, answer)
        self.ncalls = 0

    # -- live class-level state ------------------------------------------------------------
    def tables(self):
        return {"special": list(self.F.SpecialFolders), "methods": list(self.F.data_reference_methods),
                "dr_methods": list(self.G.DataReference.methods), "varpat": self.F.VariablePattern}

    def special(self):
        return list(self.F.SpecialFolders)

    def methods(self):
        return list(self.F.data_reference_methods)

    def _tables_ok(self):
        F, s = self.F, self.src
        return list(F.SpecialFolders) == s["special"] and list(F.data_reference_methods) == s["methods"] \
            and list(self.G.DataReference.methods) == s["dr_methods"] and F.VariablePattern == s["varpat"]

    def _restore_tables(self):
        s = self.src
        self.F.SpecialFolders = list(s["special"])
        self.F.data_reference_methods = list(s["methods"])
        self.G.DataReference.methods = list(s["dr_methods"])
        self.F.VariablePattern = s["varpat"]

    @staticmethod
    def _guard(fn):
        try:
            return fn()
        except ValueError:
            return {"err": True}
        except Exception as exc:  # noqa
            return {"other": type(exc).__name__}

    # -- the generic call ------------------------------------------------------------------
    def call(self, desc, objs=None):
        op = desc["op"]
        args = []
        watched = []
        for name in OPS[op]:
            val = desc.get(name)
            if is_ref(val):
                a = objs[val["$obj"]]
                watched.append((name, val["$obj"], a, snap(a)))
            elif name == "known" and type(val) is dict:
                a = {int(s): list(n) for s, n in val.items()}
                watched.append((name, None, a, snap(a)))
            elif type(val) is list:
                a = list(val)
                watched.append((name, None, a, snap(a)))
            else:
                a = val
            args.append(a)
        before = None if self._tables_ok() else self.tables()
        out = getattr(self, "_" + op)(*args)
        self.ncalls += 1
        for name, oname, a, s in watched:
            if a != s:
                self.events.append({"kind": "arg", "param": name, "obj": oname, "call": desc, "objs": objs,
                                    "before": to_json_obj(s), "after": to_json_obj(a)})
                if self.restore and oname is not None:
                    if type(a) is list:
                        a[:] = s
                    else:
                        a.clear()
                        a.update(snap(s))
        if before is None and not self._tables_ok():
            self.events.append({"kind": "table", "call": desc, "objs": objs, "before": dict(self.src), "after": self.tables(),
                                "watched": {o: to_json_obj(s) for _n, o, _a, s in watched if o is not None}})
            if self.restore:
                self._restore_tables()
        if self.trace is not None:
            self.trace.append((desc, objs, out))
        return out

    # -- entry points (arguments are handed over exactly as given: None stays None) --------------------
    def _pdr(self, v):
        return self._guard(lambda: list(self.F.ParseDataReference(v)))

    def _cpdr(self, v):
        return self._guard(lambda: list(self.C.ParseDataReference(v)))

    def _ppr(self, r, i):
        return self._guard(lambda: list(self.F.ParseProducerReference(r, i)))

    def _cppr(self, r, i):
        return self._guard(lambda: list(self.C.ParseProducerReference(r, i)))

    def _full(self, v, i, deps, extra):
        return self._guard(lambda: list(self.F.ParseDataReferenceFull(v, i, deps, extra)))

    def _isc(self, v, tlf):
        return self._guard(lambda: self.F.is_datareference_to_component(v, tlf))

    def _compile(self, p, f, m, s, r=None):
        return self._guard(lambda: self.F.compile_reference(p, f, m, s, r))

    def _expand(self, v, ctx, known, tlf, force):
        return self._guard(lambda: self.F.expand_potential_component_reference(v, ctx, known, tlf, force))

    def _expand1(self, v, ctx, known, deps, tlf):
        return self._guard(lambda: self.F.expand_component_references([v], ctx, known, deps, tlf)[0])

    def _expandall(self, refs, ctx, known, deps, tlf):
        return self._guard(lambda: list(self.F.expand_component_references(refs, ctx, known, deps, tlf)))

    def _dref(self, v, i):
        def go():
            d = self.G.DataReference(v, i)
            pid = d.producerIdentifier
            uid = pid.to_uid("I")
            assert uid.startswith("I&")
            return {"stage": pid.stageIndex, "name": pid.componentName, "has": pid.hasIndex, "file": d.fileRef,
                    "method": d.method, "id": pid.identifier, "abs": d.absoluteReference,
                    "rel": d.relativeReference, "uid": uid[2:]}
        return self._guard(go)

    def _dri(self, v, stage, deps):
        """data.DataReferenceInfo: the in-project caller of ParseDataReferenceFull(application_dependencies=...,
        special_folders=None) (Job.consumesPredecessorPaths -> document description of an experiment)"""
        import re

        def go():
            try:
                d = self.D.DataReferenceInfo(v, "file://gw/tmp/c09-instance.instance", stage, "", deps)
            except re.error:
                return {"skip": "re.error"}     # the producer name is pasted into a regular expression
            pid = d._pid
            return {"pid": None if pid is None else pid.identifier, "method": d.method}
        return self._guard(go)

    def _vrefs(self, v, known, implied, tlf):
        return self._guard(lambda: (self.F.validate_references([v], known, implied, tlf) + [None])[0])

    def _tlf(self, keys):
        def go():
            try:
                man = self.M.Manifest({k: "/nowhere/%d:copy" % n for n, k in enumerate(keys)})
            except self.E.FlowIRManifestKeyIsAbsolutePath:
                return {"rejected": "absolute-key"}
            return list(man.top_level_folders)
        return self._guard(go)

    def _appdep(self, v):
        return self._guard(lambda: self.F.application_dependency_to_name(v))

    def _isvar(self, v):
        return self._guard(lambda: bool(self.F.is_var_reference(v)))

    def _validate(self, v, stage, known, tlf, deps=None):
        """names of the components reported unknown by FlowIRConcrete.validate for a consumer `zz-consumer` of stage
        `stage` declaring reference v; known = {stage: [names]}; tlf as given to validate(); deps = the
        application-dependencies of the default platform."""
        comps = []
        for s, names in known.items():
            for n in names:
                comps.append({'name': n, 'stage': int(s), 'command': {'executable': 'ls'}})
        comps.append({'name': 'zz-consumer', 'stage': stage, 'command': {'executable': 'ls'}, 'references': [v]})

        def go():
            doc = {'components': comps}
            if deps:
                doc['application-dependencies'] = {'default': list(deps)}
            c = self.M.FlowIRConcrete(doc, 'default', {})
            errs = c.validate(top_level_folders=tlf)
            unknown = []
            others = []
            for e in errs:
                if isinstance(e, self.E.FlowIRReferenceToUnknownComponent):
                    unknown.append(e)
                else:
                    others.append(type(e).__name__)
            return {"unknown": sorted(r for e in unknown for r in e.references),
                    "n_unknown": len(unknown), "others": sorted(others)}
        return self._guard(go)

    # -- the folder set derived from disk --------------------------------------------------------
    def _fromdir(self, path, dirs, files, resolve, method):
        """Manifest.fromDirectory: keys (os.listdir order), top_level_folders, and whether every value is
        `<path of the entry>:<method>`"""
        import os

        def go():
            man = self.M.Manifest.fromDirectory(path, method=method, resolve_paths=resolve, include_dirs=dirs,
                                                include_files=files)
            data = man.manifestData
            ok = True
            for k, val in data.items():
                want = os.path.join(path, k)
                if resolve:
                    want = os.path.normpath(os.path.abspath(want))
                ok = ok and val == "%s:%s" % (want, method)
            return {"keys": list(data), "tlf": list(man.top_level_folders), "values_ok": ok}
        return self._guard(go)

    def _consumer_view(self, conf, consumer):
        """what loading made of the references of the consumer + the unknown-component verdicts"""
        errs = []
        conf.validate(errs)
        unknown, others = [], []
        for e in errs:
            if isinstance(e, self.E.FlowIRReferenceToUnknownComponent):
                unknown.extend(e.references)
            else:
                others.append(type(e).__name__)
        refs = conf.get_flowir_concrete().get_component_configuration(tuple(consumer))['references']
        return {"tlf": list(conf.top_level_folders), "refs": list(refs), "unknown": sorted(unknown),
                "others": sorted(others)}

    @staticmethod
    def _quiet(fn):
        """the loaders log every configuration error at CRITICAL: keep the run's output readable"""
        import logging
        old = logging.root.manager.disable
        logging.disable(logging.CRITICAL)
        try:
            return fn()
        finally:
            logging.disable(old)

    def _pkgload(self, path, manifest, consumer):
        """ExperimentConfigurationFactory.configurationForExperiment(<package>, manifest=None | dict | yaml path)"""
        def go():
            man = dict(manifest) if isinstance(manifest, dict) else manifest
            try:
                conf = self.C.ExperimentConfigurationFactory.configurationForExperiment(
                    path, manifest=man, createInstanceFiles=False, updateInstanceFiles=False, validate=False)
            except self.E.ExperimentInvalidConfigurationError as exc:
                return {"invalid": type(getattr(exc, "underlyingError", None)).__name__}
            return self._consumer_view(conf, consumer)
        return self._quiet(lambda: self._guard(go))

    def _instance(self, path, manifest, consumer, location):
        """ExperimentPackage.packageFromLocation + Experiment.experimentFromPackage (the instance directory), then
        Experiment.experimentFromInstance on the directory that was created (a restart loads it like this)"""
        import os
        import shutil

        def unknown_refs(exc, depth=0):
            """references reported as pointing to unknown components anywhere below a loader's exception"""
            out = []
            if exc is None or depth > 6:
                return out
            if isinstance(exc, self.E.FlowIRReferenceToUnknownComponent):
                out.extend(exc.references)
            for attr in ("underlyingError", "underlyingErrors"):
                sub = getattr(exc, attr, None)
                for e in (sub if isinstance(sub, (list, tuple)) else [sub]):
                    if isinstance(e, BaseException):
                        out.extend(unknown_refs(e, depth + 1))
            return sorted(set(out))

        def go():
            exp = None
            try:
                try:
                    pkg = self.ST.ExperimentPackage.packageFromLocation(
                        path, manifest=dict(manifest) if isinstance(manifest, dict) else manifest, validate=False)
                    exp = self.D.Experiment.experimentFromPackage(pkg, location=location)
                except (self.E.ExperimentInvalidConfigurationError, self.E.InstanceCreateError,
                        self.E.PackageCreateError) as exc:
                    return {"invalid": type(exc).__name__, "unknown": unknown_refs(exc)}
                inst = exp.instanceDirectory.location
                first = self._consumer_view(exp.configuration, consumer)
                # what the instance directory looks like while it is loaded (lstat + stat, not the code under test)
                listing = [[n, disk_kind(os.path.join(inst, n))] for n in os.listdir(inst)]
                try:
                    exp2 = self.D.Experiment.experimentFromInstance(inst, updateInstanceConfiguration=False)
                except self.E.ExperimentInvalidConfigurationError as exc:
                    return {"created": first, "instance": os.path.basename(inst), "listing": listing,
                            "reload_invalid": type(exc).__name__, "unknown": unknown_refs(exc)}
                again = self._consumer_view(exp2.configuration, consumer)
                return {"created": first, "reloaded": again, "instance": os.path.basename(inst), "listing": listing}
            finally:
                if exp is not None:
                    shutil.rmtree(exp.instanceDirectory.shadowDir.location, ignore_errors=True)
        return self._quiet(lambda: self._guard(go))

    # -- conveniences used by the oracle (fresh argument lists) ------------------------------------
    def pdr(self, v):
        return self.call({"op": "pdr", "v": v})

    def full(self, v, i, deps, extra):
        return self.call({"op": "full", "v": v, "i": i, "deps": deps, "extra": extra})

    def isc(self, v, tlf):
        return self.call({"op": "isc", "v": v, "tlf": tlf})

    def compile(self, p, f, m, s, r=None):
        return self.call({"op": "compile", "p": p, "f": f, "m": m, "s": s, "r": r})

    def expand(self, v, ctx, known, tlf, force):
        return self.call({"op": "expand", "v": v, "ctx": ctx, "known": known, "tlf": tlf, "force": force})

    def expand1(self, v, ctx, known, deps, tlf):
        return self.call({"op": "expand1", "v": v, "ctx": ctx, "known": known, "deps": deps, "tlf": tlf})

    def dref(self, v, i):
        return self.call({"op": "dref", "v": v, "i": i})

    def dri(self, v, stage, deps):
        return self.call({"op": "dri", "v": v, "stage": stage, "deps": deps})

    def tlf(self, keys):
        return self.call({"op": "tlf", "keys": keys})

    def appdep(self, v):
        return self.call({"op": "appdep", "v": v})

    def isvar(self, v):
        return self.call({"op": "isvar", "v": v})

    def validate(self, v, stage, known, tlf, deps=()):
        return self.call({"op": "validate", "v": v, "stage": stage, "known": known, "tlf": list(tlf), "deps": list(deps)})


# ----------------------------------------------------------------------------------------
# sessions: sequences of calls in ONE interpreter; fresh interpreters come from a zygote process
# ----------------------------------------------------------------------------------------

def exec_session(sess, src):
    """run the calls of `sess` in order in THIS process (nothing is put back in between); JSON result"""
    impl = Impl(src)
    impl.restore = False
    objs = {k: from_json_obj(v) for k, v in (sess.get("objects") or {}).items()}
    answers = []
    for d in sess["calls"]:
        answers.append(impl.call(d, objs))
    return {"answers": answers, "tables_after": impl.tables(),
            "objects_after": {k: to_json_obj(v) for k, v in objs.items()},
            "events": [{"kind": e["kind"], "call": e["call"], "before": e["before"], "after": e["after"],
                        "param": e.get("param")} for e in impl.events[:20]]}


def exec_case(case):
    """the per-case oracle on one (string, world, variant) case in THIS process -> {"slugs": [...]}"""
    from harness import common
    sub = common.Ctx("C09", "quick", 0)
    sub.driver = None
    r2 = Run(sub)
    if "tree" in case["world"]:
        r2.dir_checks(case["world"], extra_probe=(case["v"], case.get("parts") or {"m": case["v"].rsplit(":", 1)[-1]}),
                      only_extra=True)
        return {"slugs": sorted({w for w, _c, _d in sub.failures})}
    tl = r2.impl.tlf(case["world"]["keys"])
    r2.ref_checks(case["world"], case.get("kind", "malformed:replay"), case["v"], case.get("parts"), tl,
                  case.get("variant", DEFAULT_VARIANT), fresh_check=False)
    return {"slugs": sorted({w for w, _c, _d in sub.failures})}


class Zygote:
    """A child forked before the first call is made to the code under test.  Every request is executed in a fresh
    fork of that child, i.e. in an interpreter in which nothing has been parsed yet, at the price of a fork."""

    def __init__(self, src):
        import os
        self.src = src
        rq_r, rq_w = os.pipe()
        an_r, an_w = os.pipe()
        pid = os.fork()
        if pid == 0:
            try:
                os.close(rq_w)
                os.close(an_r)
                self._serve(os.fdopen(rq_r, "r"), os.fdopen(an_w, "w"))
            finally:
                os._exit(0)
        os.close(rq_r)
        os.close(an_w)
        self.pid = pid
        self.w = os.fdopen(rq_w, "w")
        self.r = os.fdopen(an_r, "r")
        self.forks = 0

    def _serve(self, rf, wf):
        import os
        for line in rf:
            r, w = os.pipe()
            pid = os.fork()
            if pid == 0:
                try:
                    os.close(r)
                    try:
                        rq = json.loads(line)
                        out = json.dumps(exec_case(rq["case"]) if "case" in rq else exec_session(rq, self.src))
                    except Exception as exc:  # noqa
                        out = json.dumps({"crash": "%s: %s" % (type(exc).__name__, exc)})
                    with os.fdopen(w, "w") as fh:
                        fh.write(out)
                finally:
                    os._exit(0)
            os.close(w)
            with os.fdopen(r, "r") as fh:
                data = fh.read()
            os.waitpid(pid, 0)
            wf.write((data.replace("\n", " ") or json.dumps({"crash": "no answer"})) + "\n")
            wf.flush()

    def run(self, sess):
        self.w.write(json.dumps(sess) + "\n")
        self.w.flush()
        self.forks += 1
        line = self.r.readline()
        if not line:
            return {"crash": "zygote died"}
        return json.loads(line)

    def close(self):
        import os
        try:
            self.w.close()
            self.r.close()
            os.waitpid(self.pid, 0)
        except Exception:  # noqa
            pass


_ZYGOTE = [None]


def get_zygote(src):
    if _ZYGOTE[0] is None:
        _ZYGOTE[0] = Zygote(src)
    return _ZYGOTE[0]


def session_objects(calls, objs, override=None):
    """JSON value of the persistent objects the calls refer to (override: name -> value, e.g. the value before a call)"""
    out = {}
    for d in calls:
        for v in d.values():
            if is_ref(v) and v["$obj"] not in out:
                n = v["$obj"]
                out[n] = to_json_obj(override[n]) if override and n in override else to_json_obj(objs[n])
    return out


def check_session(zy, sess, src, max_singles=30, only=None):
    """the session oracle: (a) the class-level tables after the session are those written in the sources,
    (b) every probed call gets in the session the answer it gets alone in a fresh interpreter.
    -> list of (slug, detail)"""
    res = zy.run(sess)
    if "crash" in res:
        return [("session-crashed", res)]
    fails = []
    if res["tables_after"] != src:
        changed = [t for t in TABLES if res["tables_after"][t] != src[t]]
        fails.append(("class-level-table-changed", {"tables": changed, "source": {t: src[t] for t in changed},
                                                    "after_session": {t: res["tables_after"][t] for t in changed},
                                                    "first_change": (res["events"] or [None])[0]}))
    calls = sess["calls"]
    probes = sess.get("probes")
    if only == "class-level-table-changed":
        return fails
    if probes is None:
        probes = list(range(len(calls)))[-max_singles:]
    for k in probes:
        alone = zy.run({"objects": sess.get("objects") or {}, "calls": [calls[k]]})
        if "crash" in alone:
            continue
        if alone["answers"][0] != res["answers"][k]:
            fails.append(("result-depends-on-earlier-calls",
                          {"call": calls[k], "position": k, "answer_in_session": res["answers"][k],
                           "answer_alone_in_fresh_interpreter": alone["answers"][0]}))
            break
    return fails


SHRINK_BUDGET = [90.0]      # seconds of fresh-interpreter shrinking per process (only spent when something failed)


def shrink_session(zy, sess, src, slug):
    """ddmin over the calls before the probe / of the session; predicate = the same slug still fails"""
    import time
    from harness import common
    calls = sess["calls"]
    t_end = time.time() + max(0.0, SHRINK_BUDGET[0])
    probes = sess.get("probes")

    def build(prefix):
        if probes:
            k = probes[-1]
            s = {"objects": sess.get("objects") or {}, "calls": list(prefix) + [calls[k]], "probes": [len(prefix)]}
        else:
            s = {"objects": sess.get("objects") or {}, "calls": list(prefix)}
        used = session_objects(s["calls"], s["objects"])
        s["objects"] = used
        return s

    def still(prefix):
        if (not probes and not prefix) or time.time() > t_end:
            return False
        return any(w == slug for w, _d in check_session(zy, build(prefix), src, only=slug))
    prefix = calls[:probes[-1]] if probes else calls
    t0 = time.time()
    try:
        # the culprit is usually close to the probe: try short windows before the probe first
        found = False
        w = 4
        while probes and w < len(prefix):
            if still(prefix[-w:]):
                prefix, found = prefix[-w:], True
                break
            w *= 8
        if not found and not still(prefix):
            return sess
        small = common.shrink_list(prefix, still, max_steps=60)
        return build(small)
    finally:
        SHRINK_BUDGET[0] -= time.time() - t0


# ----------------------------------------------------------------------------------------
# vocabulary / grammar
# ----------------------------------------------------------------------------------------

LETTERS = "abcdefgxyzABQ"
NAME_TAIL = LETTERS + "0123456789" + "--__.."
STEMS = ["foo", "bar", "baz", "gen", "Gen-Input", "cluster.analysis", "a", "b2", "x-1", "sim_0", "Agg", "stager",
         "stag", "stage", "stagex1", "mystage1", "in", "inputs", "data2", "binary", "confs", "copy", "ref"]


def gen_plain_name(rng):
    """component-like name: letters digits - _ . ; never starts with `stage<digit>`; no / : % [ #"""
    r = rng.random()
    if r < 0.45:
        n = rng.choice(STEMS)
    else:
        n = rng.choice(LETTERS) + "".join(rng.choice(NAME_TAIL) for _ in range(rng.randint(0, 8)))
    if rng.random() < 0.25:
        n += str(rng.randint(0, 120))       # replica-like suffix
    if rng.random() < 0.15:
        n += "." + rng.choice(STEMS)
    if stage_prefixed(n):
        n = "x" + n
    return n


def gen_comp_name(rng):
    n = gen_plain_name(rng)
    if rng.random() < 0.2:
        n = "%d#%s" % (rng.randint(0, 12), n)   # loop iteration prefix
    return n


def gen_file(rng):
    segs = []
    for _ in range(rng.randint(1, 4)):
        r = rng.random()
        if r < 0.5:
            segs.append(rng.choice(["out.txt", "results", "file-1.csv", "sub.dir", "a", "*.xyz", "data", "input",
                                    "stage1.x", "f", "bar", "..", "."]))
        elif r < 0.6:
            segs.append("%(" + rng.choice(["var", "a.b", "x-1"]) + ")s")
        else:
            segs.append(gen_plain_name(rng))
    return "/".join(segs)


def gen_world(rng, special):
    nstages = rng.randint(1, 4)
    known = {}
    for s in rng.sample(range(0, 12), nstages):
        known[str(s)] = sorted({gen_comp_name(rng) for _ in range(rng.randint(1, 4))})
    ctx = int(rng.choice(list(known.keys()))) if rng.random() < 0.8 else rng.randint(0, 12)
    keys = []
    for _ in range(rng.choice([0, 1, 1, 2, 3])):
        depth = rng.choice([1, 1, 2, 2, 3])
        k = "/".join(gen_plain_name(rng) for _ in range(depth))
        if rng.random() < 0.1:
            k += "/"
        keys.append(k)
    keys = sorted(set(keys))
    deps = []
    for _ in range(rng.choice([0, 0, 1, 2])):
        base = gen_plain_name(rng).split(".")[0] or "dep"
        if rng.random() < 0.5:
            base = base.capitalize()
        form = rng.choice(["plain", "ext", "abs", "absext", "rel", "trail"])
        if form == "ext":
            base += rng.choice([".git", ".application", ".package"])
        elif form == "abs":
            base = "/opt/apps/" + base
        elif form == "absext":
            base = "/opt/my.apps/" + base + ".git"
        elif form == "rel":
            base = "apps/" + base + ".git"
        elif form == "trail":
            base = "/opt/" + base + ".d/"
        deps.append(base)
    return {"known": known, "ctx": ctx, "keys": keys, "deps": deps}


def first_segment(k):
    return k.split("/", 1)[0]


def oracle_dep_name(d):
    """independent restatement of the documented behaviour of application_dependency_to_name for the documented forms
    "<name>", "<name>.<extension>", "/some/name", "/some/path/<NAME>.<extension>" (optionally with a trailing slash);
    None for other forms (relative paths with a directory part: compared with the model only)"""
    d = d.rstrip("/")
    base = d.rsplit("/", 1)[1] if d.startswith("/") else d
    if "/" in base or not base:
        return None
    stem = base.rsplit(".", 1)[0] if "." in base.lstrip(".") else base
    return stem.lower()


def world_folders(world, special):
    tl = [first_segment(k) for k in world["keys"]]
    dn = [x for x in (oracle_dep_name(d) for d in world["deps"]) if x is not None]
    return tl, dn, set(tl) | set(dn) | set(special)


def stage_prefixed(name):
    return len(name) > 5 and name.startswith("stage") and name[5].isdigit()


def gen_reference(rng, world, special, methods):
    """returns (kind, string, parts|None); parts = dict(stage, prod, file, m) is the intended meaning"""
    tl, dn, allf = world_folders(world, special)
    m = rng.choice(methods)
    f = gen_file(rng) if rng.random() < 0.6 else None
    known_here = world["known"].get(str(world["ctx"]), [])
    all_known = [(int(s), n) for s, ns in world["known"].items() for n in ns]
    r = rng.random()

    def body(p):
        return "%s%s:%s" % (p, "" if f is None else "/" + f, m)
    if r < 0.22:
        p = rng.choice(known_here) if known_here and rng.random() < 0.7 else gen_comp_name(rng)
        return "comp-rel", body(p), dict(stage=None, prod=p, file=f, m=m)
    if r < 0.40:
        if all_known and rng.random() < 0.7:
            s, p = rng.choice(all_known)
        else:
            s, p = rng.randint(0, 130), gen_comp_name(rng)
        return "comp-abs", "stage%d.%s" % (s, body(p)), dict(stage=s, prod=p, file=f, m=m)
    if r < 0.50:
        p = rng.choice(special)
        return "folder-special", body(p), dict(stage=None, prod=p, file=f, m=m)
    if r < 0.62 and world["keys"]:
        k = rng.choice(world["keys"]).rstrip("/")
        return "folder-manifest", body(k), dict(stage=None, prod=first_segment(k), file=f, m=m)
    if r < 0.70 and dn:
        p = rng.choice(dn)
        return "folder-appdep", body(p), dict(stage=None, prod=first_segment(p), file=f, m=m)
    if r < 0.76:
        p = "/" + "/".join(gen_plain_name(rng) for _ in range(rng.randint(1, 3)))
        return "abspath", body(p), dict(stage=None, prod=p, file=f, m=m)
    if r < 0.82:
        p = rng.choice(["%(input)s", "%(a.b)s", "%(x-1)s", "pre%(v)ssuf", "%(v)s.d"])
        return "variable", body(p), dict(stage=None, prod=p, file=f, m=m)
    if r < 0.86:
        # a folder name that is also a known component of the context stage, or a component called like a folder
        pool = sorted(allf)
        p = rng.choice(pool)
        return "clash", body(p), None
    # malformed stream
    p = rng.choice(known_here) if known_here and rng.random() < 0.5 else gen_comp_name(rng)
    s = rng.randint(0, 20)
    form = rng.choice(["stage0n", "stagenx", "Stage", "stage.", "stage-", "nocolon", "twocolon", "emptym", "badm",
                       "empty", "emptyprod", "dblslash", "trailslash", "idx", "colonfile", "stagedotonly", "absfile",
                       "stagefolder", "stagespecial", "spaces", "stagevar", "junk"])
    if form == "stage0n":
        v = "stage0%d.%s" % (s, body(p))
    elif form == "stagenx":
        v = "stage%d%s.%s" % (s, rng.choice(["x", "-a", "_", "#"]), body(p))
    elif form == "Stage":
        v = "Stage%d.%s" % (s, body(p))
    elif form == "stage.":
        v = "stage.%s" % body(p)
    elif form == "stage-":
        v = "stage-%d.%s" % (s, body(p))
    elif form == "nocolon":
        v = body(p).replace(":", "")
    elif form == "twocolon":
        v = body(p) + ":" + rng.choice(methods)
    elif form == "emptym":
        v = body(p)[:-len(m)]
    elif form == "badm":
        v = body(p)[:-len(m)] + rng.choice(["REF", "reference", "cp", "ref ", "output2"])
    elif form == "empty":
        v = rng.choice(["", ":", ":ref", "/:ref", ".:ref", "..:ref", "./x:ref", "//:ref", "/:", "stage1.:ref"])
    elif form == "emptyprod":
        v = "/%s:%s" % (f or "x", m)
    elif form == "dblslash":
        v = "%s//%s:%s" % (p, f or "x", m)
    elif form == "trailslash":
        v = "%s/:%s" % (p, m)
    elif form == "idx":
        v = "%s[%d]%s:%s" % (p, s, "" if f is None else "/" + f, m)
    elif form == "colonfile":
        v = "%s/a:b:%s" % (p, m)
    elif form == "stagedotonly":
        v = "stage%d.:%s" % (s, m)
    elif form == "absfile":
        v = "stage%d.%s//abs/%s:%s" % (s, p, f or "x", m)
    elif form == "stagefolder":
        v = "stage%d.%s" % (s, body(rng.choice(sorted(allf))))
    elif form == "stagespecial":
        v = "stage%d.%s/%s:%s" % (s, rng.choice(special), f or "x", m)
    elif form == "spaces":
        v = " %s :%s" % (p, m)
    elif form == "stagevar":
        v = "stage%d.%s" % (s, body("%(v)s" + rng.choice(["", "x"])))
    else:
        alphabet = "stage01.:/%()[]#-_ax"
        v = "".join(rng.choice(alphabet) for _ in range(rng.randint(0, 14)))
    return "malformed:" + form, v, None


# ----------------------------------------------------------------------------------------
# evaluation of one reference in one world: implementation outputs, model requests, oracle
# ----------------------------------------------------------------------------------------

def known_json(known):
    return None if known is None else [{"s": int(s), "n": list(n)} for s, n in sorted(known.items(), key=lambda kv: int(kv[0]))]


MODES = ["list", "list", "list", "list", "copy", "none", "none", "empty"]
OPT_KEYS = ("full_deps", "full_extra", "isc_tlf", "exp_tlf", "exp_known", "all_deps", "all_tlf", "all_known",
            "dri_deps", "vrefs_tlf", "vrefs_known")
DEFAULT_OPT = {k: "list" for k in OPT_KEYS}
# optional folder arguments for which the documentation says Optional[List[str]]: None and [] are the same empty set
NONE_IS_EMPTY = {"full": ("deps", "extra"), "isc": ("tlf",), "expand1": ("deps", "tlf"), "dri": ("deps",),
                 "vrefs": ("tlf",)}


def norm_variant(variant):
    out = dict(DEFAULT_VARIANT)
    out.update(variant or {})
    opt = dict(DEFAULT_OPT)
    if "opt" not in (variant or {}):       # replays written before the optional-argument modes existed
        if not out.get("with_known", True):
            opt["exp_known"] = opt["all_known"] = "none"
        if not out.get("with_tlf", True):
            opt["exp_tlf"] = "none"
    opt.update((variant or {}).get("opt") or {})
    out["opt"] = opt
    return out


def world_objects(wid, world, tl_impl):
    """the persistent argument objects of a world: the caller keeps ONE list of application dependencies, ONE list of
    top-level folders and ONE dictionary of known components and hands them to every call"""
    tlf = tl_impl if isinstance(tl_impl, list) else []
    return {"%s.deps" % wid: list(world["deps"]), "%s.tlf" % wid: list(tlf),
            "%s.known" % wid: {int(s): list(n) for s, n in world["known"].items()}}


def wid_of(objs):
    return next(iter(objs)).split(".", 1)[0]


def optarg(mode, objs, what):
    """how the caller spells an optional argument: the persistent object, a fresh copy, None or an empty container"""
    name = "%s.%s" % (wid_of(objs), what)
    if mode == "list":
        return {"$obj": name}
    if mode == "copy":
        return to_json_obj(objs[name])
    if mode == "none":
        return None
    return {} if what == "known" else []


def plan(world, v, objs, variant):
    """list of (relation name, call descriptor)"""
    ctx = world["ctx"]
    opt = variant["opt"]
    idx = ctx if variant["with_index"] else None
    tl_exp = optarg(opt["exp_tlf"], objs, "tlf")
    if tl_exp is not None and variant["extra_folders"]:
        tl_exp = list(objs["%s.tlf" % wid_of(objs)]) + list(variant["extra_folders"])
    calls = [
        ("ParseDataReference", {"op": "pdr", "v": v}),
        ("ParseDataReferenceFull", {"op": "full", "v": v, "i": idx, "deps": optarg(opt["full_deps"], objs, "deps"),
                                    "extra": optarg(opt["full_extra"], objs, "tlf")}),
        ("is_datareference_to_component", {"op": "isc", "v": v, "tlf": optarg(opt["isc_tlf"], objs, "tlf")}),
        ("expand_potential_component_reference",
         {"op": "expand", "v": v, "ctx": ctx, "known": optarg(opt["exp_known"], objs, "known"), "tlf": tl_exp,
          "force": variant["force"]}),
        ("expand_component_references",
         {"op": "expand1", "v": v, "ctx": ctx, "known": optarg(opt["all_known"], objs, "known"),
          "deps": optarg(opt["all_deps"], objs, "deps"), "tlf": optarg(opt["all_tlf"], objs, "tlf")}),
        ("DataReference", {"op": "dref", "v": v, "i": idx}),
    ]
    if variant.get("entry_points"):
        calls.append(("conf.ParseDataReference", {"op": "cpdr", "v": v}))
        calls.append(("data.DataReferenceInfo", {"op": "dri", "v": v, "stage": ctx,
                                                 "deps": optarg(opt["dri_deps"], objs, "deps")}))
        if "#" not in "".join(n for ns in world["known"].values() for n in ns):
            calls.append(("validate_references", {"op": "vrefs", "v": v, "known": optarg(opt["vrefs_known"], objs, "known"),
                                                  "implied": idx, "tlf": optarg(opt["vrefs_tlf"], objs, "tlf")}))
    return calls


def resolve_json(desc, objs):
    """the descriptor with every {"$obj": name} replaced by the JSON value of the object"""
    out = {}
    for k, val in desc.items():
        out[k] = to_json_obj(objs[val["$obj"]]) if is_ref(val) else val
    return out


MODEL_OP = {"cpdr": "pdr", "cppr": "ppr"}


def model_request(desc, objs):
    r = resolve_json(desc, objs)
    r["op"] = MODEL_OP.get(r["op"], r["op"])
    if "known" in r and type(r["known"]) is dict:
        r["known"] = known_json(r["known"])
    return r


def spelling(val):
    return "none" if val is None else ("empty" if val in ([], {}) else ("object" if is_ref(val) else "list"))


def rekind(world, special, kind, v, parts):
    """what a string generated in ANOTHER world means in `world` (same string, other name sets)"""
    if parts is None or kind in ("abspath", "variable") or ":" not in v:
        return kind, parts
    st = parts["stage"]
    body = v[len("stage%d." % st):] if st is not None else v
    pre, m = body.rsplit(":", 1)
    prod, sep, rest = pre.partition("/")
    new = dict(stage=st, prod=prod, file=rest if sep else None, m=m)
    tl, dn, _allf = world_folders(world, special)
    if st is not None:
        return "comp-abs", new
    if prod in special:
        return "folder-special", new
    if prod in tl:
        return "folder-manifest", new
    if prod in dn:
        return "folder-appdep", new
    return "comp-rel", new


def dep_ok(n):
    return bool(n) and n == n.lower() and "/" not in n and not n.startswith(".")


def gen_family(rng, special):
    """worlds that use the SAME names in different roles: the components of the context stage of the base world are
    application dependencies in the second, manifest folders in the third; in the fourth every name is a component and
    there are no folders at all; in the fifth no name is known"""
    import copy
    base = gen_world(rng, special)
    c = str(base["ctx"])
    here = list(base["known"].get(c, []))
    tl, dn, _ = world_folders(base, special)
    tl = [x for x in tl if x not in special]

    def dep_path(n):
        ext = rng.choice([".application", ".git", ".package"])
        head = n[:1].upper() + n[1:] if rng.random() < 0.5 else n
        return rng.choice(["/opt/apps/", "/opt/my.apps/", ""]) + head + ext
    w_dep = copy.deepcopy(base)
    w_dep["deps"] = [dep_path(n) for n in here if dep_ok(n)]
    w_dep["known"][c] = sorted(set(dn) | {n for n in here if not dep_ok(n)}) or ["c0"]
    w_man = copy.deepcopy(base)
    w_man["keys"] = sorted({n if rng.random() < 0.6 else n + "/sub" for n in here})
    w_man["known"][c] = sorted(set(tl) - set(here)) or ["c0"]
    w_all = copy.deepcopy(base)
    w_all["keys"], w_all["deps"] = [], []
    w_all["known"][c] = sorted(set(here) | set(tl) | set(dn))
    w_none = copy.deepcopy(base)
    w_none["keys"], w_none["deps"] = [], []
    w_none["known"] = {c: ["c0"]}
    return [base, w_dep, w_man, w_all, w_none]


def is_err(x):
    return isinstance(x, dict) and ("err" in x or "other" in x)


def table_probes(names, changed):
    """calls whose answer would differ if `names` had (wrongly) become / stopped being reserved folders or methods"""
    out = []
    for n in names[:4]:
        if not isinstance(n, str) or not n:
            continue
        for v in (n + "/out.dat:copy", n + ":ref"):
            out.append({"op": "full", "v": v, "i": 0, "deps": None, "extra": None})
            out.append({"op": "pdr", "v": v})
            out.append({"op": "isc", "v": v, "tlf": None})
            out.append({"op": "expand", "v": v, "ctx": 0, "known": {"0": [n]}, "tlf": ["some-folder"], "force": False})
            out.append({"op": "dri", "v": v, "stage": 0, "deps": None})
        out.append({"op": "dref", "v": "producer/out.dat:" + n, "i": 0})
    out.append({"op": "dref", "v": "producer/out.dat:ref", "i": 0})
    out.append({"op": "full", "v": "%(a)s/x:ref", "i": 0, "deps": None, "extra": None})
    out.append({"op": "full", "v": "data/x:ref", "i": 0, "deps": None, "extra": None})
    return out


def arg_probes(obj, param, names, before):
    """later calls of the same caller, handing over the same (changed) object"""
    ref = {"$obj": obj}
    out = []
    if param == "deps":
        names = [oracle_dep_name(n) or n for n in names]
    for n in names[:4]:
        if not isinstance(n, str) or not n:
            continue
        for v in (n + "/out.dat:copy", n + ":ref"):
            if param in ("extra", "tlf"):
                out.append({"op": "full", "v": v, "i": 0, "deps": None, "extra": ref})
                out.append({"op": "isc", "v": v, "tlf": ref})
                out.append({"op": "expand", "v": v, "ctx": 0, "known": None, "tlf": ref, "force": False})
                out.append({"op": "expand1", "v": v, "ctx": 0, "known": None, "deps": None, "tlf": ref})
            elif param == "deps":
                out.append({"op": "full", "v": v, "i": 0, "deps": ref, "extra": None})
                out.append({"op": "expand1", "v": v, "ctx": 0, "known": None, "deps": ref, "tlf": None})
                out.append({"op": "dri", "v": v, "stage": 0, "deps": ref})
            elif param == "known":
                stages = sorted(before) if isinstance(before, dict) else [0]
                for st in stages[:3] or [0]:
                    out.append({"op": "expand", "v": v, "ctx": int(st), "known": ref, "tlf": None, "force": False})
    return out


RING = 50000      # calls of the session kept (descriptor, objects, answer) to rebuild the history of a failure


class Run:
    def __init__(self, ctx):
        import collections
        self.ctx = ctx
        self.src = source_tables()
        self.impl = Impl(self.src)           # imports the code under test, calls nothing
        self._zy = None
        self.fresh_checks = 0
        self.audits = 0
        self.impl.trace = collections.deque(maxlen=RING)
        self.live_at_import = self.impl.tables()
        self.special = list(self.src["special"]) or self.impl.special()
        self.methods = list(self.src["methods"]) or METHODS_FALLBACK
        self.pending = []    # (relation, case, request, impl_out)
        self.hist = []       # sampled (descriptor, objects, first answer)
        self.nworld = 0
        self.event_counts = {}
        self.batch_start_tables = self.impl.tables()

    @property
    def zy(self):
        if self._zy is None:
            self._zy = get_zygote(self.src)
        return self._zy

    # -- model batches: one batch = one session of the model driver ----------------------------------
    def flush(self):
        if not self.pending:
            return
        reqs = [{"op": "tables"}] + [p[2] for p in self.pending] + [{"op": "tables"}]
        live = self.impl.tables()
        outs = self.ctx.model(reqs)
        if outs is not None:
            def canon_tables(t, n):
                return {"special": t["special"], "methods": t["methods"], "dr_methods": t["dr_methods"], "calls": n}
            self.ctx.compare("class-level tables at the start of the session", {"session": "batch"}, outs[0],
                             canon_tables(self.batch_start_tables, 0))
            self.ctx.compare("class-level tables after the session", {"session": "batch", "calls": len(self.pending)},
                             outs[-1], canon_tables(live, len(self.pending)))
            for (rel, case, req, io), mo in zip(self.pending, outs[1:-1]):
                if req.get("sorted") and isinstance(mo, list):
                    mo = sorted(set(mo))
                self.ctx.compare(rel, case, mo, io)
        self.batch_start_tables = live
        self.pending = []

    def queue(self, rel, case, req, impl_out):
        self.pending.append((rel, case, req, impl_out))
        if len(self.pending) >= 40000:
            self.flush()

    def do(self, rel, case, desc, objs, log=0.12):
        """one call of a session: real code (watched), model request queued, sampled into the history"""
        req = model_request(desc, objs) if objs is not None else model_request(desc, {})
        out = self.impl.call(desc, objs)
        if self.impl.events:
            self.process_events()
        if not (isinstance(out, dict) and "skip" in out):
            self.queue(rel, case, req, out)
        if log and self.ctx.rng.random() < log:
            self.hist.append((desc, objs, out, self.impl.ncalls))
        return out

    # -- in-place changes of class-level tables / of the caller's arguments --------------------------
    def process_events(self):
        evs, self.impl.events = self.impl.events, []
        for e in evs:
            key = (e["kind"], e["call"]["op"], e.get("param"))
            n = self.event_counts[key] = self.event_counts.get(key, 0) + 1
            self.ctx.tag("in-place-change:%s:%s" % (e["kind"], e["call"]["op"]))
            objs = e["objs"] or {}
            if e["kind"] == "table":
                before = dict(e.get("watched") or {})
                sess = {"objects": session_objects([e["call"]], objs, before), "calls": [e["call"]]}
                changed = [t for t in TABLES if e["after"][t] != e["before"][t]]
                self.ctx.fail("class-level-table-changed", {"session": sess},
                              {"tables": changed, "source": {t: e["before"][t] for t in changed},
                               "after_the_call": {t: e["after"][t] for t in changed}})
                if n > 2:
                    continue
                names = []
                for t in changed:
                    if isinstance(e["after"][t], list):
                        names += [x for x in e["after"][t] if x not in e["before"][t]]
                        names += [x for x in e["before"][t] if x not in e["after"][t]]
                probes = table_probes(names, changed)
                self.consequence(e["call"], sess["objects"], probes)
            else:
                if n > 2 or e["obj"] is None:
                    continue
                before, after = e["before"], e["after"]
                if isinstance(before, dict):
                    names = sorted({x for k in after for x in after[k] if x not in before.get(k, [])} |
                                   {x for k in before for x in before[k] if x not in after.get(k, [])})
                else:
                    names = [x for x in after if x not in before] + [x for x in before if x not in after]
                objects = session_objects([e["call"]], objs, {e["obj"]: from_json_obj(before)})
                found = self.consequence(e["call"], objects, arg_probes(e["obj"], e["param"], names, before))
                if not found:
                    self.ctx.tag("caller-argument-changed-without-consequence")

    def consequence(self, culprit, objects, probes):
        """is there a later call whose answer differs because `culprit` ran first?  (fresh interpreters)"""
        for p in probes[:24]:
            sess = {"objects": dict(objects), "calls": [culprit, p], "probes": [1]}
            for what, detail in check_session(self.zy, sess, self.src):
                if what == "result-depends-on-earlier-calls":
                    self.ctx.fail(what, {"session": sess}, detail)
                    return True
        return False

    # -- the same call again, later, after unrelated calls ---------------------------------------------
    def reevaluate(self, k):
        """a sample of earlier calls is made again (other order, other calls in between, ambient logging level changed):
        the answer of a call is a function of its own arguments only"""
        import logging
        rng = self.ctx.rng
        if not self.hist:
            return
        # mostly calls whose first evaluation is still inside the retained trace (so that a failure can be rebuilt)
        lo = 0
        floor = self.impl.ncalls - RING // 2
        while lo < len(self.hist) and self.hist[lo][3] < floor:
            lo += max(1, (len(self.hist) - lo) // 16)
        lo = min(lo, len(self.hist) - 1)
        sample = [self.hist[rng.randrange(lo, len(self.hist)) if rng.random() < 0.8 else rng.randrange(len(self.hist))]
                  for _ in range(k)]
        rng.shuffle(sample)
        lg = logging.getLogger()
        old = lg.level
        flip = rng.random() < 0.5
        if flip:
            lg.setLevel(1 if old != 1 else logging.WARNING)
        try:
            for desc, objs, first, _n in sample:
                again = self.impl.call(desc, objs)
                if self.impl.events:
                    self.process_events()
                self.ctx.tag("session:re-evaluated")
                if again != first:
                    self.history_failure(desc, objs, first, again)
        finally:
            if flip:
                lg.setLevel(old)

    def history_failure(self, desc, objs, first, again):
        trace = list(self.impl.trace)
        calls = [d for d, _o, _a in trace]
        objects = {}
        for d, o, _a in trace:
            if o:
                for k2, v2 in session_objects([d], o).items():
                    objects.setdefault(k2, v2)
        for k2, v2 in session_objects([desc], objs or {}).items():
            objects.setdefault(k2, v2)
        sess = {"objects": objects, "calls": calls + [desc], "probes": [len(calls)]}
        detail = {"call": desc, "first_answer": first, "answer_later_in_the_same_interpreter": again}
        small = shrink_session(self.zy, sess, self.src, "result-depends-on-earlier-calls")
        if small is sess:
            small = {"objects": session_objects([desc], objs or {}), "calls": [desc],
                     "note": "not reproduced from the retained trace of the last %d calls" % len(calls)}
        self.ctx.fail("result-depends-on-earlier-calls", {"session": small}, detail)

    def cross_order(self, k, recent=None):
        """a sample of the history (or of its most recent part) is run again in fresh interpreters, once in the original
        order and once shuffled; every answer must be the one the main interpreter gave"""
        rng = self.ctx.rng
        if not self.hist:
            return
        lo = max(0, len(self.hist) - recent) if recent else 0
        idx = sorted(rng.sample(range(lo, len(self.hist)), min(k, len(self.hist) - lo)))
        entries = [self.hist[i] for i in idx]
        objects = {}
        for d, o, _a, _n in entries:
            if o:
                for k2, v2 in session_objects([d], o).items():
                    objects.setdefault(k2, v2)
        order2 = list(range(len(entries)))
        rng.shuffle(order2)
        for name, order in (("original", list(range(len(entries)))), ("shuffled", order2)):
            sess = {"objects": objects, "calls": [entries[i][0] for i in order]}
            res = self.zy.run(sess)
            self.ctx.tag("session:fresh-interpreter-" + name)
            if "crash" in res:
                self.ctx.fail("session-crashed", {"session": {"calls": sess["calls"][:5]}}, res)
                continue
            if res["tables_after"] != self.src:
                # the root cause is a call that changes a table (reported with the call when it happens in the main
                # interpreter, where the table is put back): answers of this un-repaired session are not compared
                ev = (res.get("events") or [{}])[0]
                culprit = ev.get("call")
                small = {"objects": session_objects([culprit], objects), "calls": [culprit]} if culprit else \
                    {"objects": objects, "calls": sess["calls"][:50], "note": "first 50 calls of the session"}
                self.ctx.fail("class-level-table-changed", {"session": small},
                              {"order": name, "after_session": {t: res["tables_after"][t] for t in TABLES
                                                                 if res["tables_after"][t] != self.src[t]}})
                continue
            bad = 0
            for pos, i in enumerate(order):
                if res["answers"][pos] != entries[i][2]:
                    bad += 1
                    if bad > 2:
                        break
                    d = entries[i][0]
                    alone = self.zy.run({"objects": objects, "calls": [d]})
                    detail = {"call": d, "answer_in_main_interpreter": entries[i][2],
                              "answer_in_%s_order_session" % name: res["answers"][pos],
                              "answer_alone_in_fresh_interpreter": (alone.get("answers") or [None])[0]}
                    if "answers" in alone and alone["answers"][0] != res["answers"][pos]:
                        s2 = {"objects": objects, "calls": sess["calls"][:pos + 1], "probes": [pos]}
                        small = shrink_session(self.zy, s2, self.src, "result-depends-on-earlier-calls")
                        self.ctx.fail("result-depends-on-earlier-calls", {"session": small}, detail)
                    else:
                        self.history_failure(d, entries[i][1], alone["answers"][0] if "answers" in alone else None,
                                             entries[i][2])

    def fresh_singles(self, k):
        """a sample of the history, each call ALONE in its own fresh interpreter: same answer as in the main session"""
        rng = self.ctx.rng
        bad = 0
        for _ in range(min(k, len(self.hist))):
            desc, objs, out, _n = self.hist[rng.randrange(len(self.hist))]
            alone = self.zy.run({"objects": session_objects([desc], objs or {}), "calls": [desc]})
            self.ctx.tag("session:alone-in-fresh-interpreter")
            if "answers" in alone and alone["answers"][0] != out:
                bad += 1
                if bad <= 2:
                    self.history_failure(desc, objs, alone["answers"][0], out)

    def tables_check(self, where):
        """between batches and after the run: the live class-level tables are those written in the sources"""
        live = self.impl.tables()
        self.ctx.tag("tables-checked:" + where)
        if live != self.src:
            changed = [t for t in TABLES if live[t] != self.src[t]]
            self.ctx.fail("class-level-table-changed", {"session": {"calls": [], "where": where}},
                          {"tables": changed, "source": {t: self.src[t] for t in changed},
                           "live": {t: live[t] for t in changed}})
            self.impl._restore_tables()

    # -- world level ----------------------------------------------------------------------
    def world_checks(self, world):
        case = {"world": world}
        self.nworld += 1
        tl = self.do("Manifest.top_level_folders", case, {"op": "tlf", "keys": world["keys"]}, None, log=0.05)
        if isinstance(tl, list):
            want = [first_segment(k) for k in world["keys"]]
            if tl != want:
                self.ctx.fail("manifest-top-level-folders-not-leftmost-segment", case, {"impl": tl, "expected": want})
        for d in world["deps"]:
            out = self.do("application_dependency_to_name", {"dep": d}, {"op": "appdep", "v": d}, None, log=0.05)
            if oracle_dep_name(d) is not None and out != oracle_dep_name(d):
                self.ctx.fail("application-dependency-name", {"dep": d}, {"impl": out, "expected": oracle_dep_name(d)})
        return tl

    def list_checks(self, world, objs, refs, opt):
        """expand_component_references on a whole list (0..n references; the first one that does not parse aborts)"""
        case = {"world": world, "refs": refs, "opt": opt}
        desc = {"op": "expandall", "refs": list(refs), "ctx": world["ctx"], "known": optarg(opt["all_known"], objs, "known"),
                "deps": optarg(opt["all_deps"], objs, "deps"), "tlf": optarg(opt["all_tlf"], objs, "tlf")}
        out = self.do("expand_component_references(list)", case, desc, objs)
        self.ctx.tag("expandall:%d" % min(len(refs), 3))
        if not is_err(out):
            singles = [self.impl.call(dict(desc, op="expand1", v=r), objs) for r in refs]
            if out != singles:
                self.ctx.fail("expand-references-list-differs-from-elementwise", case, {"list": out, "one_by_one": singles})

    # -- reference level ------------------------------------------------------------------
    def ref_checks(self, world, kind, v, parts, tl_impl, variant, objs=None, fresh_check=True):
        """one case.  An oracle failure that does not show when the same case is evaluated alone in a fresh interpreter
        is, by definition, a dependence on earlier calls: it is reported as such, with the session that produces it."""
        ctx = self.ctx
        if not fresh_check:
            return self._ref_checks(world, kind, v, parts, tl_impl, variant, objs)
        buf = []
        orig = ctx.fail
        ctx.fail = lambda what, case, detail=None: buf.append((what, case, detail))
        try:
            self._ref_checks(world, kind, v, parts, tl_impl, variant, objs)
        finally:
            ctx.fail = orig
        if not buf:
            return
        slugs = None
        own = [b for b in buf if "world" in b[1] and "v" in b[1]]
        if own and self.fresh_checks < 40:
            self.fresh_checks += 1
            res = self.zy.run({"case": own[0][1]})
            slugs = res.get("slugs")
        for what, case, detail in buf:
            if slugs is None or what in slugs or not ("world" in case and "v" in case):
                ctx.fail(what, case, detail)
            else:
                ctx.tag("oracle-failure-only-after-earlier-calls")
                found = self.audit_recent(400) if self.audits < 3 else False
                if not found:
                    ctx.fail("result-depends-on-earlier-calls",
                             {"session": {"calls": [], "note": "the culprit is older than the retained trace"},
                              "consequence": {"what": what, "case": case}},
                             {"oracle_failure_in_this_interpreter": detail, "in_a_fresh_interpreter": "no failure"})

    def audit_recent(self, n):
        """which of the last n calls got an answer that it does not get alone in a fresh interpreter?"""
        self.audits += 1
        trace = list(self.impl.trace)
        for back in range(1, min(n, len(trace)) + 1):
            desc, objs, out = trace[-back]
            if isinstance(out, dict) and "skip" in out:
                continue
            alone = self.zy.run({"objects": session_objects([desc], objs or {}), "calls": [desc]})
            if "answers" in alone and alone["answers"][0] != out:
                upto = trace[:len(trace) - back]
                objects = {}
                for d, o, _a in upto + [trace[-back]]:
                    if o:
                        for k2, v2 in session_objects([d], o).items():
                            objects.setdefault(k2, v2)
                sess = {"objects": objects, "calls": [d for d, _o, _a in upto] + [desc], "probes": [len(upto)]}
                small = shrink_session(self.zy, sess, self.src, "result-depends-on-earlier-calls")
                if small is sess:
                    small = {"objects": session_objects([desc], objs or {}), "calls": [desc],
                             "note": "not reproduced from the retained trace of the last %d calls" % len(upto)}
                self.ctx.fail("result-depends-on-earlier-calls", {"session": small},
                              {"call": desc, "answer_in_this_interpreter": out,
                               "answer_alone_in_fresh_interpreter": alone["answers"][0]})
                return True
        return False

    def _ref_checks(self, world, kind, v, parts, tl_impl, variant, objs=None):
        ctx = self.ctx
        variant = norm_variant(variant)
        if objs is None:
            objs = world_objects("w%d" % self.nworld, world, tl_impl)
        case = {"world": world, "kind": kind, "v": v, "parts": parts, "variant": variant}
        outs, descs = {}, {}
        for rel, desc in plan(world, v, objs, variant):
            out = self.do(rel, case, desc, objs)
            outs[desc["op"]] = out
            descs[desc["op"]] = desc
            for p in OPS[desc["op"]]:
                if p in FOLDER_PARAMS or p == "known":
                    ctx.tag("arg:%s.%s=%s" % (desc["op"], p, spelling(desc[p])))
            if desc["op"] == "full":
                ctx.tag("args:full(deps=%s,folders=%s)" % (spelling(desc["deps"]), spelling(desc["extra"])))
            # None and [] spell the same (empty) name set
            for p in NONE_IS_EMPTY.get(desc["op"], ()):
                val = desc[p]
                if is_ref(val):
                    val = objs[val["$obj"]]
                if val in (None, []) and variant.get("none_vs_empty", True):
                    other = self.impl.call(dict(desc, **{p: ([] if val is None else None)}), objs)
                    ctx.tag("oracle:none-vs-empty")
                    if other != out:
                        ctx.fail("optional-none-vs-empty-disagree", case,
                                 {"call": resolve_json(desc, objs), "argument": p, "given": out, "other_spelling": other})
        tags = ["kind:" + kind.split(":")[0]]
        if kind.startswith("malformed"):
            tags.append(kind)
        full = outs["full"]
        tags.append("parse:error" if is_err(full) else ("class:component" if full[0] is not None else "class:direct"))
        if not is_err(outs["expand"]):
            tags.append("expand:" + ("rewritten" if outs["expand"] != v else "kept"))
        nontrivial = not is_err(full)
        ctx.case({"kind": kind, "v": v, "world": world, "variant": variant}, nontrivial=nontrivial, tags=tags)
        self.oracle(case, outs, tl_impl, descs, objs)
        if self.impl.events:
            self.process_events()

    def oracle(self, case, outs, tl_impl, descs, objs):
        ctx, I = self.ctx, self.impl
        world, kind, v, parts, variant = case["world"], case["kind"], case["v"], case["parts"], case["variant"]
        known, cstage, deps = world["known"], world["ctx"], world["deps"]
        tlf = tl_impl if isinstance(tl_impl, list) else []
        tl_h, dn_h, allf = world_folders(world, self.special)
        idx = cstage if variant["with_index"] else None

        # (2) expansion is idempotent — every string that parses, every name set, every spelling of the optional arguments
        e1 = outs["expand"]
        if not is_err(e1):
            e2 = I.call(dict(descs["expand"], v=e1), objs)
            ctx.tag("oracle:idempotent")
            if e2 != e1:
                ctx.fail("expand-not-idempotent", case, {"once": e1, "twice": e2})
        x1 = outs["expand1"]
        if not is_err(x1):
            x2 = I.call(dict(descs["expand1"], v=x1), objs)
            if x2 != x1:
                ctx.fail("expand-references-not-idempotent", case, {"once": x1, "twice": x2})
        # other entry points reach the same parser: conf.ParseDataReference is FlowIR.ParseDataReference
        if "cpdr" in outs and outs["cpdr"] != outs["pdr"]:
            ctx.fail("conf-ParseDataReference-differs", case, {"conf": outs["cpdr"], "FlowIR": outs["pdr"]})
        if parts is None:
            return
        prod, f, m, st = parts["prod"], parts["file"], parts["m"], parts["stage"]

        # (1) parse → print gives the reference back (canonical grammar; absolute paths are not printed by the code)
        if kind in ("comp-rel", "comp-abs", "folder-special", "folder-manifest", "folder-appdep", "variable"):
            p0 = I.full(v, None, [], [])
            ctx.tag("oracle:roundtrip")
            if is_err(p0):
                ctx.fail("canonical-reference-rejected", case, p0)
            else:
                back = I.compile(p0[1], p0[2], p0[3], p0[0])
                if back != v:
                    ctx.fail("parse-print-roundtrip", case, {"parsed": p0, "printed": back})
            d0 = I.dref(v, None)
            if is_err(d0):
                ctx.fail("canonical-reference-rejected-by-DataReference", case, d0)
            elif d0["abs"] != v or d0["rel"] != (v if st is None else v[len("stage%d." % st):]):
                if not (kind == "comp-abs" and prod in self.special and f is not None):
                    ctx.fail("DataReference-print-roundtrip", case, d0)
        if kind in ("comp-rel", "comp-abs"):
            # print → parse gives the parts back
            s2 = I.compile(prod, f, m, st)
            if s2 != v:
                ctx.fail("compile-reference-spelling", case, {"printed": s2})
            exp_stage = st if st is not None else idx
            direct = st is None and prod in allf
            got = I.full(s2, idx, deps, tlf)
            want = [None if direct else exp_stage, prod, f, m]
            if direct and prod in self.special and f is not None:
                want = [None, prod + "/" + f, None, m]
            if got != want:
                ctx.fail("print-parse-roundtrip" + (":manifest-folder" if direct and prod in tl_h else ""), case,
                         {"parsed": got, "expected": want, "top_level_folders": tlf})

        # (3) relative and absolute spellings agree
        if kind == "comp-rel" and prod not in allf:
            i = cstage
            a = "stage%d.%s" % (i, v)
            dr, da = I.dref(v, i), I.dref(a, None)
            ctx.tag("oracle:rel-abs")
            if is_err(dr) or is_err(da):
                ctx.fail("relative-or-absolute-spelling-rejected", case, {"rel": dr, "abs": da})
            else:
                for k in ("stage", "name", "file", "method", "id", "abs", "rel"):
                    if dr[k] != da[k]:
                        ctx.fail("relative-absolute-disagree", case, {"field": k, "rel": dr, "abs": da})
                        break
                if da["abs"] != a or da["rel"] != v or (dr["stage"], dr["name"], dr["file"], dr["method"]) != (i, prod, f, m):
                    ctx.fail("relative-absolute-spelling", case, {"rel": dr, "abs": da})
            fr, fa = I.full(v, i, deps, tlf), I.full(a, None, deps, tlf)
            if fr != fa or fr != [i, prod, f, m]:
                ctx.fail("relative-absolute-parse-disagree", case, {"rel": fr, "abs": fa})

        # (4) classification
        known_here = known.get(str(cstage), [])
        direct_kinds = ("folder-special", "folder-manifest", "folder-appdep", "abspath", "variable")
        if kind in direct_kinds and not (prod in known_here):
            ctx.tag("oracle:class-direct")
            fr = I.full(v, cstage, deps, tlf)
            ic = I.isc(v, tlf + dn_h)
            ex = I.expand1(v, cstage, known, deps, tlf)
            bad = None
            if is_err(fr) or fr[0] is not None:
                bad = "ParseDataReferenceFull"
            elif ic is not False:
                bad = "is_datareference_to_component"
            elif ex != v:
                bad = "expand_component_references"
            if bad:
                ctx.fail("direct-reference-treated-as-component" + (":manifest" if kind == "folder-manifest" else ""),
                         case, {"by": bad, "full": fr, "is_component": ic, "expanded": ex, "top_level_folders": tlf})
            if variant.get("entry_points") and kind in ("folder-special", "folder-appdep", "variable"):
                di = I.dri(v, cstage, deps)
                if not (isinstance(di, dict) and "skip" in di):
                    ctx.tag("oracle:DataReferenceInfo-direct")
                    if is_err(di) or di["pid"] is not None:
                        ctx.fail("DataReferenceInfo-direct-reference-has-producer", case, {"info": di})
            if kind in ("folder-special", "folder-manifest", "folder-appdep") and not stage_prefixed(prod) \
                    and (variant["validate"] or (kind == "folder-manifest" and variant["validate2"])):
                vr = I.validate(v, cstage, known, tlf, deps)
                if not is_err(vr) and vr["others"]:
                    ctx.tag("validate:not-applicable(other errors)")   # e.g. unresolved %(var)s in the file part
                else:
                    ctx.tag("oracle:validate-direct")
                    self.queue("FlowIRConcrete.validate unknown-component verdict", case,
                               {"op": "validate", "v": v, "stage": cstage, "known": known_json(known),
                                "tlf": tlf + [I.appdep(d) for d in deps]}, self._validate_canon(vr, known))
                    if is_err(vr) or vr["n_unknown"]:
                        ctx.fail("validate-reports-folder-reference-as-unknown-component" +
                                 (":manifest" if kind == "folder-manifest" else ""), case, vr)
        if kind in ("comp-rel", "comp-abs") and not (st is None and prod in allf):
            target = st if st is not None else cstage
            is_known = prod in known.get(str(target), [])
            ctx.tag("oracle:class-component-" + ("known" if is_known else "unknown"))
            fr = I.full(v, cstage, deps, tlf)
            if is_err(fr) or fr[0] != target or fr[1] != prod:
                ctx.fail("component-reference-not-classified-as-component", case, {"full": fr})
            if is_known:
                a = "stage%d.%s" % (target, v if st is None else v[len("stage%d." % st):])
                for name, got in (("expand_component_references", I.expand1(v, cstage, known, deps, tlf)),
                                  ("expand_potential_component_reference(known only)", I.expand(v, cstage, known, None, False))):
                    if got != a:
                        ctx.fail("known-component-reference-not-expanded", case, {"by": name, "got": got, "expected": a})
                if I.isc(v, tlf + dn_h) is not True:
                    ctx.fail("known-component-reference-not-a-component-reference", case, {})
                if variant.get("entry_points") and prod not in tl_h:
                    # the in-project caller without a top-level-folder list (document descriptions)
                    di = I.dri(v, cstage, deps)
                    if not (isinstance(di, dict) and "skip" in di):
                        ctx.tag("oracle:DataReferenceInfo-component")
                        if is_err(di) or di["pid"] != "stage%d.%s" % (target, prod) or di["method"] != m:
                            ctx.fail("DataReferenceInfo-known-component-not-the-producer", case, {"info": di})
            if "#" not in "".join(n for ns in known.values() for n in ns) and "#" not in prod and variant["validate"]:
                vr = I.validate(v, cstage, known, tlf, deps)
                if not is_err(vr) and vr["others"]:
                    ctx.tag("validate:not-applicable(other errors)")
                else:
                    ctx.tag("oracle:validate-component")
                    self.queue("FlowIRConcrete.validate unknown-component verdict", case,
                               {"op": "validate", "v": v, "stage": cstage, "known": known_json(known),
                                "tlf": tlf + [I.appdep(d) for d in deps]}, self._validate_canon(vr, known))
                    if is_err(vr) or (vr["n_unknown"] == 0) != is_known:
                        ctx.fail("validate-verdict-on-component-reference", case, {"validate": vr, "known": is_known})

    # -- directory worlds --------------------------------------------------------------------
    def dir_checks(self, world, root=None, extra_probe=None, only_extra=False, label="dir"):
        """one package directory on disk: every route by which the code derives the folder set from it, the model of the
        derivation, and the classification of references under each derived set.  Returns a path-free summary."""
        import os
        import shutil
        import tempfile
        ctx, rng = self.ctx, self.ctx.rng
        world = {k: v for k, v in world.items() if k != "route"}
        world["keys"] = expected_folder_keys(world)
        tree = world["tree"]
        own = root is None
        if own:
            root = tempfile.mkdtemp(prefix="c09-dir-")
        summary = {}
        try:
            pkg, kinds, manifest = materialise(world, root)
            listing = [[n, kinds[n]] for n in os.listdir(pkg)]
            path = path_spelling(pkg, tree.get("path", "plain"), root)
            explicit = list(tree.get("explicit") or {})
            consumer = [int(world["ctx"]), CONSUMER]
            _doc, decl = package_document(world)
            dirish = sorted(n for n, k in kinds.items() if k in DIRISH)
            fileish = sorted(n for n, k in kinds.items() if k in FILEISH)
            base_case = {"world": world}
            derived = []          # (route, folder list handed on by the code, folder keys the oracle expects)
            tags = ["kind:directory-world", "dir:path-" + tree.get("path", "plain")] + \
                   sorted({"dir:entry-" + e["kind"] for e in tree["entries"]} | {"dir:conf-" + tree["conf"]})
            if explicit:
                tags.append("dir:explicit-manifest-" + str(tree.get("manifest_form")))

            # route 1: Manifest.fromDirectory
            variants = [(True, False)] + ([(True, True)] if rng.random() < 0.35 else []) + \
                       ([(False, True)] if rng.random() < 0.1 else [])
            for dirs, files in variants:
                resolve, method = rng.random() < 0.7, rng.choice(["copy", "link"])
                route = "Manifest.fromDirectory" + ("" if (dirs, files) == (True, False) else
                                                    "(include_dirs=%s,include_files=%s)" % (dirs, files))
                out = self.impl.call({"op": "fromdir", "path": path, "dirs": dirs, "files": files, "resolve": resolve,
                                      "method": method})
                if self.impl.events:
                    self.process_events()
                self.queue(route + " keys", dict(base_case, route=route),
                           {"op": "fromdir", "listing": listing, "dirs": dirs, "files": files, "sorted": True},
                           sorted(out["keys"]) if isinstance(out, dict) and "keys" in out else out)
                summary[route] = sorted(out["keys"]) if isinstance(out, dict) and "keys" in out else out
                if isinstance(out, dict) and "keys" in out:
                    if sorted(out["tlf"]) != sorted(out["keys"]):
                        ctx.fail("implied-manifest-inconsistent", dict(base_case, route=route), out)
                    want = (dirish if dirs else []) + (fileish if files else [])
                    derived.append((route, out["tlf"], sorted(want)))
            not_dir = self.impl.call({"op": "fromdir", "path": os.path.join(pkg, "conf", "flowir_package.yaml"),
                                      "dirs": True, "files": True, "resolve": True, "method": "copy"})
            self.queue("Manifest.fromDirectory(not a directory) keys", base_case,
                       {"op": "fromdir", "listing": None, "dirs": True, "files": True},
                       not_dir["keys"] if isinstance(not_dir, dict) and "keys" in not_dir else not_dir)

            # route 2: loading the package (implied manifest merged into the explicit one)
            folder_keys = sorted(set(dirish) | set(explicit))
            out = self.impl.call({"op": "pkgload", "path": path, "manifest": manifest, "consumer": consumer})
            route = "configurationForExperiment(package)"
            self.queue(route + " top_level_folders", dict(base_case, route=route),
                       {"op": "pkgtlf", "listing": listing, "explicit": explicit, "sorted": True},
                       sorted(set(out["tlf"])) if isinstance(out, dict) and "tlf" in out else out)
            if isinstance(out, dict) and "tlf" in out:
                summary[route] = {"tlf": sorted(out["tlf"]), "refs": out["refs"], "unknown": out["unknown"]}
                self.load_oracle(dict(world, keys=folder_keys, route=route), route, out, decl)
                derived.append((route, out["tlf"], folder_keys))
            else:
                summary[route] = out
                ctx.tag("dir:package-load-failed")

            # route 3: the instance directory created from the package, and loaded again (restart)
            if not explicit and not world["deps"] and "other" not in kinds.values() and \
                    (rng.random() < 0.6 or extra_probe is not None):
                route = "experimentFromPackage"
                out = self.impl.call({"op": "instance", "path": path, "manifest": None, "consumer": consumer,
                                      "location": root})
                if isinstance(out, dict) and "created" in out:
                    inst = os.path.join(root, out["instance"])
                    ilisting = out["listing"]
                    for phase, rt in (("created", route), ("reloaded", "experimentFromInstance(reload)")):
                        if phase not in out:
                            self.load_rejected(dict(world, keys=sorted(set(dirish) & {n for n, k in ilisting if k in DIRISH}),
                                                    route=rt), rt, out, decl)
                            continue
                        view = out[phase]
                        if phase == "reloaded":
                            # as the user sees the INSTANCE directory (lstat + stat by the harness)
                            inst_dirs = sorted(n for n, k in ilisting if k in DIRISH)
                            dirish_now = sorted(set(dirish) & set(inst_dirs))
                        else:
                            dirish_now = dirish
                        self.queue(rt + " top_level_folders ⊇ package folders + input/stages/output",
                                   dict(base_case, route=rt), {"op": "insttlf", "listing": listing, "sorted": True},
                                   sorted(set(view["tlf"]) - {"python"}))
                        if phase == "reloaded":
                            self.queue(rt + " top_level_folders = implied manifest of the instance directory",
                                       dict(base_case, route=rt),
                                       {"op": "fromdir", "listing": ilisting, "dirs": True, "files": False, "sorted": True},
                                       sorted(set(view["tlf"])))
                        self.load_oracle(dict(world, keys=dirish_now, route=rt), rt, view, decl)
                        derived.append((rt, view["tlf"], dirish_now))
                        summary[rt] = {"tlf": sorted(set(view["tlf"]) - {"python"}), "refs": view["refs"],
                                       "unknown": view["unknown"]}
                    shutil.rmtree(inst, ignore_errors=True)
                else:
                    summary[route] = out
                    ctx.tag("dir:instance-not-created")
                    self.load_rejected(dict(world, keys=dirish, route=route), route, out, decl)

            # route 4: a single-file package whose manifest deploys the folders (:copy / :link), instance loaded again
            if not explicit and not world["deps"] and (rng.random() < 0.3 or extra_probe is not None):
                self.deployed_manifest_route(world, root, pkg, kinds, consumer, decl, derived, summary)

            ctx.case({"kind": "directory-world", "world": world}, nontrivial=bool(set(kinds.values()) & {"linkdir", "dir"}) and
                     len(kinds) > 1, tags=tags + ["dir:routes-%d" % len(derived)])

            # classification of references under every derived folder set
            probes = [] if only_extra else dir_probes(rng, world, self.methods)
            if extra_probe is not None:
                probes.append(tuple(extra_probe))
            seen = set()
            for n, (route, tl, keys) in enumerate(derived):
                if not isinstance(tl, list):
                    continue
                sig = (tuple(sorted(tl)), tuple(keys))
                sub = probes if sig not in seen else rng.sample(probes, min(len(probes), 3))
                seen.add(sig)
                w = dict(world, keys=keys, route=route)
                self.nworld += 1
                objs = world_objects("w%d" % self.nworld, w, tl)
                for v, parts in sub:
                    kind, parts2 = dir_rekind(w, self.special, v, parts)
                    if kind is None:
                        continue
                    variant = gen_variant(rng, w)
                    variant["opt"].update({"full_extra": "list", "isc_tlf": "list", "all_tlf": "list"})
                    # FlowIRConcrete.validate costs ~45 ms a call: the load routes above already ran it on the package
                    variant["validate"], variant["validate2"] = rng.random() < 0.02, rng.random() < 0.04
                    self.ref_checks(w, kind, v, parts2, tl, variant, objs, fresh_check=False)
                    ctx.tag("dir:probe-" + route.split("(")[0])
        finally:
            if own:
                shutil.rmtree(root, ignore_errors=True)
        return summary

    def deployed_manifest_route(self, world, root, pkg, kinds, consumer, decl, derived, summary):
        """package = one FlowIR file + a manifest that copies / links the folders into the instance directory"""
        import os
        import shutil
        src = os.path.join(root, "deploy-src")
        os.makedirs(src, exist_ok=True)
        single = os.path.join(root, "single-file.yaml")
        shutil.copyfile(os.path.join(pkg, "conf", "flowir_package.yaml"), single)
        manifest = {}
        deploy = []
        for e in world["tree"]["entries"]:
            k = kinds[e["name"]]
            if k not in DIRISH:
                continue
            d = os.path.join(src, e["name"])
            if not os.path.isdir(d):
                os.makedirs(os.path.join(d, "nested", "dir"))
                for f in ("params.txt", os.path.join("nested", "dir", "f")):
                    with open(os.path.join(d, f), "w") as fh:
                        fh.write("x\n")
            method = "link" if k == "linkdir" else "copy"
            manifest[e["name"]] = "%s:%s" % (d, method)
            deploy.append((e["name"], method))
        keys = sorted(manifest)
        route = "experimentFromPackage(single file + manifest)"
        out = self.impl.call({"op": "instance", "path": single, "manifest": manifest, "consumer": consumer,
                              "location": root})
        case = {"world": dict(world, route=route)}
        if not (isinstance(out, dict) and "created" in out):
            summary[route] = out
            self.ctx.tag("dir:deployed-instance-not-created")
            self.load_rejected(dict(world, keys=keys, route=route), route, out, decl)
            return
        inst = os.path.join(root, out["instance"])
        ilisting = out["listing"]
        for name, method in deploy:
            self.queue("deployed manifest entry", case, {"op": "deploy", "key": name, "method": method},
                       [name, dict(ilisting).get(name) in DIRISH])
        for phase, rt in (("created", route), ("reloaded", "experimentFromInstance(reload, deployed manifest)")):
            if phase not in out:
                self.load_rejected(dict(world, keys=keys, route=rt), rt, out, decl)
                continue
            view = out[phase]
            if phase == "reloaded":
                self.queue(rt + " top_level_folders = implied manifest of the instance directory", case,
                           {"op": "fromdir", "listing": ilisting, "dirs": True, "files": False, "sorted": True},
                           sorted(set(view["tlf"])))
            self.load_oracle(dict(world, keys=keys, route=rt), rt, view,
                             [r for r in decl if first_segment(r.rsplit(":", 1)[0]) in keys or r == decl[-1]])
            derived.append((rt, view["tlf"], keys))
            summary[rt] = {"tlf": sorted(set(view["tlf"]) - {"python"}), "refs": view["refs"], "unknown": view["unknown"]}
        shutil.rmtree(inst, ignore_errors=True)

    def load_rejected(self, world, route, out, declared):
        """ORACLE when a loader refuses the package / instance: none of the references it reports as pointing to unknown
        components is a declared reference into a folder the oracle expects"""
        if not isinstance(out, dict):
            return
        here = world["known"].get(str(world["ctx"]), [])
        folders = set(world_folders(world, self.special)[2]) | {self.impl.appdep(d) for d in world["deps"]}
        self.ctx.tag("oracle:package-load-rejected")
        for r in declared:
            seg = first_segment(r.rsplit(":", 1)[0])
            if seg in folders and seg not in here and \
                    any(unknown_names(u, r, seg) for u in out.get("unknown") or []):
                self.ctx.fail("package-load-treats-folder-reference-as-component", {"world": world, "v": r},
                              {"route": route, "how": "rejected: reference to unknown component", "loader": out})
                return

    def load_oracle(self, world, route, view, declared):
        """ORACLE on a loaded package / instance: a declared reference whose first segment is a folder the oracle expects
        (world["keys"]) is kept as it is and not reported as a reference to an unknown component; the reference to the
        known producer of the consumer's stage is rewritten to its absolute spelling"""
        ctx = self.ctx
        here = world["known"].get(str(world["ctx"]), [])
        folders = set(world_folders(world, self.special)[2]) | {self.impl.appdep(d) for d in world["deps"]}
        ctx.tag("oracle:package-load")
        for r in declared:
            seg = first_segment(r.rsplit(":", 1)[0])
            if seg in folders and seg not in here:
                bad = None
                if r not in view["refs"]:
                    bad = "rewritten"
                elif any(unknown_names(u, r, seg) for u in view["unknown"]):
                    bad = "reported-unknown"
                if bad:
                    ctx.fail("package-load-treats-folder-reference-as-component", {"world": world, "v": r},
                             {"route": route, "how": bad, "references_after_load": view["refs"],
                              "unknown_component_references": view["unknown"], "top_level_folders": view["tlf"]})
            elif seg in here and seg not in folders and seg not in ("python", "input", "stages", "output"):
                want = "stage%d.%s" % (world["ctx"], r)
                if want not in view["refs"]:
                    ctx.fail("package-load-does-not-expand-known-component-reference", {"world": world, "v": r},
                             {"route": route, "references_after_load": view["refs"], "top_level_folders": view["tlf"]})

    def dir_family_checks(self, worlds):
        """the same package PATH is rebuilt with other contents (same names, other kinds) and then rebuilt as it was: every
        answer is a function of what is on disk now, not of what was there before"""
        import os
        import shutil
        import tempfile
        root = tempfile.mkdtemp(prefix="c09-dirfam-")
        cur = os.path.join(root, "current")       # the package lives at <root>/current/wf.package every time
        first = {}
        try:
            order = list(range(len(worlds))) + [0]
            for pos, wi in enumerate(order):
                shutil.rmtree(cur, ignore_errors=True)
                os.makedirs(cur)
                summ = self.dir_checks(worlds[wi], root=cur)
                if wi not in first:
                    first[wi] = summ
                elif pos == len(order) - 1:
                    self.ctx.tag("dir:same-path-rebuilt")
                    a, b = first[wi], summ
                    for k in ("Manifest.fromDirectory", "configurationForExperiment(package)"):
                        if k in a and k in b and a[k] != b[k]:
                            self.ctx.fail("result-depends-on-earlier-calls",
                                          {"dirfamily": worlds, "session": {"calls": [], "note": "same package path rebuilt"}},
                                          {"route": k, "first": a[k], "after_other_contents_at_the_same_path": b[k]})
                            break
        finally:
            shutil.rmtree(root, ignore_errors=True)

    def _validate_canon(self, vr, known):
        """what the model answers: null, or the identifier of the missing component"""
        if is_err(vr):
            return vr
        if vr["n_unknown"] == 0:
            return None
        return vr["unknown"][0]


# ----------------------------------------------------------------------------------------
# directory worlds: the top-level folder set is DERIVED FROM DISK by the real code
# (Manifest.fromDirectory / configurationForExperiment / instance directory created and loaded again),
# then handed to the classification functions.  Model: lean/St4sd/Model/RefDir.lean.
# ----------------------------------------------------------------------------------------

# how an entry of the package directory is built -> what it is for the model (Kind of Model/RefDir.lean)
DIR_KINDS = {"dir": "dir", "emptydir": "dir", "file": "file", "link-dir-out": "linkdir", "link-dir-rel-out": "linkdir",
             "link-dir-in": "linkdir", "link-dir-nested": "linkdir", "link-link-dir": "linkdir",
             "link-file": "linkfile", "link-link-file": "linkfile", "broken": "broken", "loop": "broken", "fifo": "other"}
KIND_WEIGHTS = [("dir", 6), ("emptydir", 2), ("file", 4), ("link-dir-out", 6), ("link-dir-rel-out", 2), ("link-dir-in", 3),
                ("link-dir-nested", 2), ("link-link-dir", 2), ("link-file", 2), ("link-link-file", 1), ("broken", 2),
                ("loop", 1), ("fifo", 1)]
DIRISH = ("dir", "linkdir")
FILEISH = ("file", "linkfile")
# names that the instance machinery creates itself / handles specially
DIR_NAME_EXCLUDE = {"input", "stages", "output", "hooks", "python", "conf", "", ".", ".."}
DIR_FIXED_NAMES = ["forcefield", "dataset", "README.md", "my.data", "Data", "lib64", ".git", ".cache", ".store", "x_1",
                   "manifest.yaml", "Bin"]
CONSUMER = "zz-consumer"


def gen_dirworld(rng, special, base=None):
    """a world whose folder set lives on disk: world["tree"] describes the package directory, world["keys"] is what the
    ORACLE expects the folder keys to be (entries built as directories or links to directories + explicit manifest keys)"""
    import copy
    base = copy.deepcopy(base) if base else gen_world(rng, special)
    # a package that is loaded completely needs stages numbered 0..n-1 and components without loop prefixes
    order = sorted(base["known"], key=int)
    renum = {s: str(n) for n, s in enumerate(order)}
    known = {renum[s]: ([n for n in ns if "#" not in n] or ["c%s" % renum[s]]) for s, ns in base["known"].items()}
    ctx = int(renum[str(base["ctx"])]) if str(base["ctx"]) in renum else 0
    here = known[str(ctx)]
    others = [n for s, ns in known.items() if s != str(ctx) for n in ns]
    dn = [x for x in (oracle_dep_name(d) for d in base["deps"]) if x]
    pools = [(here, 2), (others, 2), ([x for x in special if x not in DIR_NAME_EXCLUDE], 3), (dn, 2),
             (DIR_FIXED_NAMES, 6), (None, 4)]
    pools = [(p, w) for p, w in pools if p is None or p]
    names = []
    for _ in range(rng.randint(2, 7)):
        p = rng.choices([p for p, _w in pools], weights=[w for _p, w in pools])[0]
        n = gen_plain_name(rng) if p is None else rng.choice(p)
        # instance creation deliberately leaves the CONTENTS of directories called *deploy* behind (copytree ignore): a
        # relative link into such a directory is a folder of the package and a broken link of the instance
        if n in DIR_NAME_EXCLUDE or n in names or stage_prefixed(n) or "/" in n or ":" in n or "deploy" in n:
            continue
        names.append(n)
    entries = []
    for n in names:
        k = rng.choices([k for k, _w in KIND_WEIGHTS], weights=[w for _k, w in KIND_WEIGHTS])[0]
        entries.append({"name": n, "kind": k})
    real = [e["name"] for e in entries if e["kind"] == "dir"]
    for e in entries:
        if e["kind"] in ("link-dir-in", "link-dir-nested"):
            cands = [x for x in real if x != e["name"]]
            if cands:
                e["target"] = rng.choice(cands)
            else:
                e["kind"] = "link-dir-out"
    explicit = None
    form = None
    r = rng.random()
    if r < 0.4:
        explicit = {}
        cand = list(base["keys"]) + [gen_plain_name(rng) + "/sub"] + [e["name"] for e in entries]
        for k in rng.sample(cand, min(len(cand), rng.randint(1, 3))):
            k = k.strip("/")
            if not k or stage_prefixed(k) or ".." in k.split("/") or first_segment(k) in DIR_NAME_EXCLUDE:
                continue
            explicit[k] = rng.choice([":copy", ":link", ""])
        form = rng.choice(["dict", "file"])
    tree = {"entries": entries, "conf": "link-dir-out" if rng.random() < 0.12 else "dir", "explicit": explicit,
            "manifest_form": form, "path": rng.choice(["plain", "plain", "slash", "via-link", "relative"])}
    world = {"known": known, "ctx": ctx, "deps": base["deps"], "tree": tree}
    world["keys"] = expected_folder_keys(world)
    return world


def expected_folder_keys(world):
    """ORACLE (by construction, not by asking the code): the folder keys of the package = entries of the package
    directory that were built as a directory or as a (chain of) link(s) to a directory, `conf`, + explicit manifest keys"""
    tree = world["tree"]
    keys = [e["name"] for e in tree["entries"] if DIR_KINDS[e["kind"]] in DIRISH] + ["conf"]
    for k in (tree.get("explicit") or {}):
        if k not in keys:
            keys.append(k)
    return sorted(keys)


def package_document(world):
    """the FlowIR of the package: the known components + a consumer of the context stage that declares references into
    the folders the oracle expects (those that do not clash with a component of its stage) and to a known producer"""
    known, ctx = world["known"], world["ctx"]
    comps = []
    for s, ns in sorted(known.items(), key=lambda kv: int(kv[0])):
        for n in ns:
            comps.append({"name": n, "stage": int(s), "command": {"executable": "ls"}})
    here = known.get(str(ctx), [])
    refs = []
    for n, k in enumerate(world["keys"]):
        if first_segment(k) in here or stage_prefixed(k) or k == "conf":
            continue
        refs.append("%s%s:%s" % (k, ["", "/params.txt", "/nested/dir/f"][n % 3], ["ref", "copy", "link"][n % 3]))
    prod = [n for n in here if n not in [first_segment(k) for k in world["keys"]] and n != CONSUMER and
            n not in [oracle_dep_name(d) for d in world["deps"]]]
    if prod:
        refs.append("%s/out.txt:ref" % prod[0])
    comps.append({"name": CONSUMER, "stage": int(ctx), "command": {"executable": "ls"}, "references": refs})
    doc = {"components": comps}
    if world["deps"]:
        doc["application-dependencies"] = {"default": list(world["deps"])}
    return doc, refs


def materialise(world, root, name="wf.package"):
    """build the package directory of world["tree"] under root; returns (package path, {entry name: model kind})"""
    import os
    import yaml
    tree = world["tree"]
    pkg = os.path.join(root, name)
    out = os.path.join(root, "outside-" + name)
    os.makedirs(pkg)
    os.makedirs(out)

    def fill(d):
        os.makedirs(os.path.join(d, "nested", "dir"))
        for f in ("params.txt", os.path.join("nested", "dir", "f")):
            with open(os.path.join(d, f), "w") as fh:
                fh.write("x\n")
    doc, _refs = package_document(world)
    entries = [{"name": "conf", "kind": tree["conf"]}] + list(tree["entries"])
    kinds = {}
    later = []
    for e in entries:
        n, k = e["name"], e["kind"]
        p = os.path.join(pkg, n)
        o = os.path.join(out, n)
        kinds[n] = DIR_KINDS[k]
        if k == "dir":
            fill(p)
        elif k == "emptydir":
            os.mkdir(p)
        elif k == "file":
            with open(p, "w") as fh:
                fh.write("not a folder\n")
        elif k == "fifo":
            os.mkfifo(p)
        elif k == "link-dir-out":
            fill(o + ".d")
            os.symlink(o + ".d", p)
        elif k == "link-dir-rel-out":
            fill(o + ".d")
            os.symlink(os.path.join("..", os.path.basename(out), n + ".d"), p)
        elif k == "link-link-dir":
            fill(o + ".d")
            os.symlink(o + ".d", o + ".lnk")
            os.symlink(o + ".lnk", p)
        elif k == "link-file":
            with open(o + ".f", "w") as fh:
                fh.write("x\n")
            os.symlink(o + ".f", p)
        elif k == "link-link-file":
            with open(o + ".f", "w") as fh:
                fh.write("x\n")
            os.symlink(o + ".f", o + ".flnk")
            os.symlink(o + ".flnk", p)
        elif k == "broken":
            os.symlink(o + ".gone", p)
        elif k == "loop":
            os.symlink(n, p)
        else:
            later.append(e)
    for e in later:
        p = os.path.join(pkg, e["name"])
        if e["kind"] == "link-dir-in":
            os.symlink(e["target"], p)                              # relative link to a sibling directory
        else:
            os.symlink(os.path.join(e["target"], "nested"), p)      # relative link to a directory inside a sibling
    confdir = os.path.join(pkg, "conf")
    with open(os.path.join(confdir, "flowir_package.yaml"), "w") as fh:
        yaml.safe_dump(doc, fh)
    # sources of the explicit manifest
    manifest = None
    if tree.get("explicit") is not None:
        manifest = {}
        for n, (k, suffix) in enumerate(tree["explicit"].items()):
            src = os.path.join(out, "manifest-src-%d" % n)
            fill(src)
            manifest[k] = src + suffix
        if tree.get("manifest_form") == "file":
            mp = os.path.join(out, "manifest.yaml")
            with open(mp, "w") as fh:
                yaml.safe_dump(manifest, fh, sort_keys=False)
            manifest = mp
    # self-check of the harness: what was built is what the model is told
    for n, k in kinds.items():
        assert disk_kind(os.path.join(pkg, n)) == k, (n, k, disk_kind(os.path.join(pkg, n)))
    return pkg, kinds, manifest


def disk_kind(p):
    """Kind of Model/RefDir.lean of a path, by lstat + stat (independent of the code under test)"""
    import os
    import stat
    st = os.lstat(p)
    if stat.S_ISLNK(st.st_mode):
        try:
            t = os.stat(p)
        except OSError:
            return "broken"
        return "linkdir" if stat.S_ISDIR(t.st_mode) else ("linkfile" if stat.S_ISREG(t.st_mode) else "other")
    return "dir" if stat.S_ISDIR(st.st_mode) else ("file" if stat.S_ISREG(st.st_mode) else "other")


def path_spelling(pkg, how, root):
    import os
    if how == "slash":
        return pkg + "/"
    if how == "via-link":
        lnk = os.path.join(root, "link-to-" + os.path.basename(pkg))
        if not os.path.lexists(lnk):
            os.symlink(pkg, lnk)
        return lnk
    if how == "relative":
        return os.path.relpath(pkg)
    return pkg


def unknown_names(u, r, seg):
    """does the entry `u` of FlowIRReferenceToUnknownComponent.references (a reference string or the identifier
    `stage<N>.<name>` of the missing producer) stand for the declared reference `r`, whose first path segment is `seg`?"""
    import re
    if u == r or u.endswith("." + r):
        return True
    m = re.match(r"stage[0-9]+\.(.*)$", u)
    body = m.group(1) if m else u
    body = body.rsplit(":", 1)[0] if ":" in body else body
    return body == seg or body.split("/", 1)[0] == seg


def dir_probes(rng, world, methods, per=2):
    """reference strings into every entry of the package directory (whatever it is) and every explicit key"""
    names = [e["name"] for e in world["tree"]["entries"]] + list(world["tree"].get("explicit") or {})
    out = []
    for n in names:
        for _ in range(per):
            f = rng.choice([None, "params.txt", "nested/dir/f", "nested"])
            m = rng.choice(methods)
            out.append(("%s%s:%s" % (n, "" if f is None else "/" + f, m),
                        dict(stage=None, prod=first_segment(n), file=f if "/" not in n else None, m=m)))
    return out


def dir_rekind(world, special, v, parts):
    """kind of the probe for the oracle: by the folder keys the ORACLE expects (world["keys"])"""
    prod = v.rsplit(":", 1)[0].split("/", 1)[0]
    if stage_prefixed(prod):
        return None, None
    if prod in world["known"].get(str(world["ctx"]), []):
        return "clash", None
    pre = v.rsplit(":", 1)[0]
    rest = pre.split("/", 1)[1] if "/" in pre else None
    return rekind(world, special, "comp-rel", v, dict(stage=None, prod=prod, file=rest, m=parts["m"]))


def gen_dir_family(rng, special):
    """three package directories with the SAME entry names in different roles (directory / link to a directory / file /
    broken link ...), to be built one after the other at the same path"""
    import copy
    w1 = gen_dirworld(rng, special)
    out = [w1]
    swap = {'dir': 'file', 'emptydir': 'broken', 'file': 'link-dir-out', 'link-dir-out': 'link-file', 'link-dir-rel-out': 'file',
            'link-dir-in': 'broken', 'link-dir-nested': 'file', 'link-link-dir': 'loop', 'link-file': 'dir',
            'link-link-file': 'link-link-dir', 'broken': 'dir', 'loop': 'link-dir-out', 'fifo': 'emptydir'}
    for _ in range(2):
        w = copy.deepcopy(out[-1])
        for e in w['tree']['entries']:
            e['kind'] = swap[e['kind']]
            e.pop('target', None)
        w['keys'] = expected_folder_keys(w)
        out.append(w)
    return out


def gen_variant(rng, world):
    return {"with_index": rng.random() < 0.75, "force": rng.random() < 0.15, "validate": rng.random() < 0.12,
            "validate2": rng.random() < 0.4, "entry_points": rng.random() < 0.5, "none_vs_empty": rng.random() < 0.6,
            "extra_folders": [] if rng.random() < 0.5 else ["input", "data", "bin", "conf"],
            "opt": {k: rng.choice(MODES) for k in OPT_KEYS}}


CORPUS = [
    # nested manifest key: the defect of DESIGN section 8 #3
    {"world": {"known": {"0": ["c0"]}, "ctx": 0, "keys": ["foo/bar"], "deps": []},
     "kind": "folder-manifest", "v": "foo/bar/f:ref", "parts": {"stage": None, "prod": "foo", "file": "f", "m": "ref"}},
    {"world": {"known": {"0": ["c0"], "1": ["c1"]}, "ctx": 1, "keys": ["foo"], "deps": ["/opt/Apps/MyDep.git/"]},
     "kind": "folder-appdep", "v": "mydep/x/y:copy", "parts": {"stage": None, "prod": "mydep", "file": "x/y", "m": "copy"}},
    {"world": {"known": {"3": ["0#loop", "gen.x-1"]}, "ctx": 3, "keys": [], "deps": []},
     "kind": "comp-rel", "v": "0#loop/out.txt:loopref", "parts": {"stage": None, "prod": "0#loop", "file": "out.txt", "m": "loopref"}},
    {"world": {"known": {"3": ["gen.x-1"]}, "ctx": 3, "keys": [], "deps": []},
     "kind": "comp-abs", "v": "stage3.gen.x-1/a/b:output", "parts": {"stage": 3, "prod": "gen.x-1", "file": "a/b", "m": "output"}},
    {"world": {"known": {"1": ["foo"]}, "ctx": 0, "keys": [], "deps": []},
     "kind": "malformed:stagenx", "v": "stage01x.foo:ref", "parts": None},
]
DEFAULT_VARIANT = {"with_index": True, "with_known": True, "with_tlf": True, "force": False, "validate": True, "validate2": True,
                   "entry_points": True, "none_vs_empty": True, "extra_folders": ["input", "data", "bin", "conf"]}

# a history in one interpreter: a document description is generated for a workflow that declares an application dependency
# (DataReferenceInfo: application dependencies given, no top-level-folder list), then an unrelated workflow with a COMPONENT
# of the same name is parsed
CORPUS_SESSIONS = [
    {"objects": {"a.deps": ["/opt/apps/Solver.application"], "b.known": {"0": ["solver", "consume"]}, "b.tlf": []},
     "calls": [
         {"op": "full", "v": "solver/out.dat:copy", "i": 0, "deps": None, "extra": None},
         {"op": "dri", "v": "solver/bin/run.sh:ref", "stage": 0, "deps": {"$obj": "a.deps"}},
         {"op": "full", "v": "solver/out.dat:copy", "i": 0, "deps": None, "extra": None},
         {"op": "full", "v": "solver:ref", "i": 0, "deps": [], "extra": {"$obj": "b.tlf"}},
         {"op": "expand", "v": "solver/out.dat:copy", "ctx": 0, "known": {"$obj": "b.known"}, "tlf": {"$obj": "b.tlf"}, "force": False},
         {"op": "dri", "v": "solver/out.dat:copy", "stage": 0, "deps": None},
         {"op": "dref", "v": "solver/out.dat:copy", "i": 0},
         {"op": "full", "v": "solver/bin/run.sh:ref", "i": 0, "deps": {"$obj": "a.deps"}, "extra": None},
         {"op": "full", "v": "solver/bin/run.sh:ref", "i": 0, "deps": {"$obj": "a.deps"}, "extra": []},
         {"op": "expand1", "v": "solver/bin/run.sh:ref", "ctx": 0, "known": None, "deps": {"$obj": "a.deps"}, "tlf": None},
         {"op": "full", "v": "solver/out.dat:copy", "i": 0, "deps": None, "extra": None},
     ]},
]


# package directories: a shared dataset linked into the package, a linked `conf`, hidden and dotted names, a name that is
# a component of another stage, every kind of non-folder
CORPUS_DIRS = [
    {"known": {"0": ["producer", "dataset2"], "1": ["forcefield"]}, "ctx": 0, "deps": [],
     "tree": {"entries": [{"name": "forcefield", "kind": "link-dir-out"}, {"name": "dataset", "kind": "dir"},
                          {"name": "README.md", "kind": "file"}, {"name": "latest", "kind": "link-file"},
                          {"name": "gone", "kind": "broken"}, {"name": ".store", "kind": "link-dir-nested", "target": "dataset"},
                          {"name": "my.data", "kind": "link-link-dir"}],
              "conf": "dir", "explicit": None, "manifest_form": None, "path": "plain"}},
    {"known": {"0": ["producer"]}, "ctx": 0, "deps": ["/opt/apps/Solver.application"],
     "tree": {"entries": [{"name": "data", "kind": "link-dir-rel-out"}, {"name": "bin", "kind": "dir"},
                          {"name": "solver", "kind": "file"}, {"name": "pipe", "kind": "fifo"},
                          {"name": "self", "kind": "loop"}, {"name": "mirror", "kind": "link-dir-in", "target": "bin"}],
              "conf": "link-dir-out", "explicit": {"extra/sub": ":link", "mirror": ""}, "manifest_form": "file",
              "path": "via-link"}},
]


def classify_none(what, case, detail):
    return False


CLASSIFIERS = {}


def shrinker_for(run):
    def shrink(what, case):
        """drop world entries that are not needed for the same failure slug; sessions: drop calls (fresh interpreters)"""
        if "session" in case:
            return None         # sessions are shrunk (in fresh interpreters) where they are reported
        if "world" not in case or "v" not in case:
            return None
        import copy

        def fails(c):
            return what in (run.zy.run({"case": c}).get("slugs") or [])
        best = copy.deepcopy(case)
        if "tree" in case["world"]:
            seg = first_segment(case["v"].rsplit(":", 1)[0])
            if not fails(best):
                return None
            for e in list(best["world"]["tree"]["entries"]):
                if e["name"] == seg:
                    continue
                cand = copy.deepcopy(best)
                ents = [x for x in cand["world"]["tree"]["entries"] if x["name"] != e["name"]]
                if any(x.get("target") == e["name"] for x in ents):
                    continue
                cand["world"]["tree"]["entries"] = ents
                if fails(cand):
                    best = cand
            best["world"]["keys"] = expected_folder_keys(best["world"])
            return best
        keep = (case.get("parts") or {}).get("prod")
        for field in ("deps", "keys"):
            items = best["world"][field]
            for it in list(items):
                if keep is not None and (first_segment(it) == keep or oracle_dep_name(it) == keep):
                    continue
                cand = copy.deepcopy(best)
                cand["world"][field] = [x for x in cand["world"][field] if x != it]
                if fails(cand):
                    best = cand
        for s in list(best["world"]["known"].keys()):
            cand = copy.deepcopy(best)
            if len(cand["world"]["known"]) > 1 and int(s) != cand["world"]["ctx"]:
                del cand["world"]["known"][s]
                if fails(cand):
                    best = cand
        return best
    return shrink


def run_session_case(r, sess, label):
    """a whole session as one case: fresh-interpreter oracle + model correspondence of the sequence"""
    ctx = r.ctx
    ctx.case({"session": label, "calls": len(sess["calls"])}, nontrivial=len(sess["calls"]) > 1, tags=["kind:session"])
    for what, detail in check_session(r.zy, sess, r.src, max_singles=12):
        small = sess
        if what == "result-depends-on-earlier-calls":
            small = shrink_session(r.zy, dict(sess, calls=sess["calls"][:detail["position"] + 1], probes=[detail["position"]]),
                                   r.src, what)
        elif what == "class-level-table-changed":
            small = shrink_session(r.zy, {k: v for k, v in sess.items() if k != "probes"}, r.src, what)
        ctx.fail(what, {"session": small}, detail)
    objs = {k: from_json_obj(v) for k, v in (sess.get("objects") or {}).items()}
    for d in sess["calls"]:
        r.do("session:" + d["op"], {"session": label, "call": d}, d, objs, log=1.0)


def run(ctx):
    ctx.rule = ("case = (reference string, world, variant); world = known components per stage (names with dots, dashes, "
                "digits, loop prefixes), manifest keys (flat and nested), application dependencies (plain / extension / "
                "absolute / relative / trailing slash), context stage; strings from the grammar [stageN.]producer[/nested/file]:method "
                "over all reference methods, drawn mostly from the world's own vocabulary (9 well-formed kinds incl. reserved "
                "folder, manifest folder, app-dep, absolute path, variable, folder/component name clash) plus a malformed "
                "stream of 22 forms; variant = context index given or not, force, and for EVERY optional folder / dependency / "
                "known-components argument of every driven function how the caller spells it (the caller's persistent list "
                "object, a fresh copy, None, an empty container); 40% of the cases come from families of five worlds that use "
                "the same names in different roles (component / application dependency / manifest folder / nothing), every "
                "string of the family being evaluated under every world of the family in shuffled order; the whole run is ONE "
                "interpreter session (see extra.session); directory worlds: world + a package directory tree (2-7 entries of 13 "
                "construction kinds: directories, files, absolute/relative/chained links to directories and files, broken "
                "links, loops, fifos; names from the components of the same / other stages, reserved folders, app-dep names, "
                "hidden/dotted names; optional explicit manifest as dictionary or yaml file; package path plain / trailing "
                "slash / through a link / relative) whose folder set is derived by the real code (Manifest.fromDirectory, "
                "configurationForExperiment, experimentFromPackage, experimentFromInstance, deployed manifest) and then used to "
                "classify references into every entry; families of three trees with the same names in other roles are built "
                "one after the other at the same path; non-trivial = the string parses (ParseDataReferenceFull does not "
                "raise) resp. the tree has >= 2 entries one of which is a directory or a link to one; distinct by canonical "
                "JSON of (kind, string, world, variant)")
    ctx.assumptions = ["generated strings are ASCII (Python's \\d and str.lower() are only modelled on ASCII)",
                       "component names never contain '/' or ':'; for the classification oracle folder names and the "
                       "names of the components of the context stage are disjoint (the clash stream is compared with the "
                       "model only)",
                       "FlowIRConcrete.validate is exercised on a two-level workflow (producers + one consumer declaring the "
                       "reference, no arguments, no '#' names)",
                       "history independence is checked against interpreters forked before the first call to the code under "
                       "test (same imports, nothing parsed yet)",
                       "directory worlds: POSIX file system with symbolic links and fifos; os.listdir / os.path.isdir / "
                       "shutil.copytree behave as documented; instance routes only for packages without application "
                       "dependencies and without explicit manifest; the `python` link that instance creation adds depending on "
                       "the environment is ignored; no top-level entry of a generated package is called *deploy* (instance "
                       "creation leaves the contents of such directories behind on purpose)"]
    ctx.trusted.append("C09: os.path.split/join/splitext re-modelled structurally in Model/Ref.lean (posixSplit, pathJoin, "
                       "splitextRoot), regex prefix/search semantics of stage([0-9]+), VariablePattern and \\[(\\d+)\\] re-modelled "
                       "as list functions; pinned by the regenerated sources in Gen/C09.lean and compared on every run")
    ctx.trusted.append("C09: directory worlds — os.listdir / os.path.isdir / os.path.isfile (links followed) are modelled by the "
                       "entry kinds of Model/RefDir.lean; the kind of every generated entry is fixed by construction and "
                       "cross-checked with lstat + stat before the code under test sees the directory")
    r = Run(ctx)
    ctx.classifiers = CLASSIFIERS
    ctx.shrinker = shrinker_for(r)
    rng = ctx.rng
    quick = ctx.tier == "quick"
    ctx.extra["special_folders"] = r.special
    ctx.extra["methods"] = r.methods
    if r.live_at_import != r.src:
        ctx.fail("class-level-table-differs-from-source-at-import", {"session": {"calls": []}},
                 {"live": r.live_at_import, "source": r.src})
    # pure-function odds and ends compared once
    for v in ["%(a)s", "x[3]", "x[]", "[12", "a%(b)", "%()s", "%(a b)s", "plain", "%(a.b-c_d)s/x", "[0]"]:
        r.do("is_var_reference", {"v": v}, {"op": "isvar", "v": v}, None)
    for n, sess in enumerate(CORPUS_SESSIONS):
        run_session_case(r, sess, "corpus-%d" % n)
    for w in CORPUS_DIRS:
        r.dir_checks(dict(w))
    for c in CORPUS:
        c = dict(c)
        c.setdefault("variant", DEFAULT_VARIANT)
        tl = r.world_checks(c["world"])
        r.ref_checks(c["world"], c["kind"], c["v"], c["parts"], tl, c["variant"])
    nworlds = 520 if quick else 4200
    nfamilies = 80 if quick else 640
    per = 26
    per_family_world = 5
    block = 15
    ndirs = 64 if quick else 560
    ndirfams = 5 if quick else 40
    units = ["w"] * nworlds + ["f"] * nfamilies + ["d"] * ndirs + ["df"] * ndirfams
    rng.shuffle(units)
    for un, unit in enumerate(units):
        if unit == "w":
            world = gen_world(rng, r.special)
            tl = r.world_checks(world)
            objs = world_objects("w%d" % r.nworld, world, tl)
            refs = []
            for _ in range(per):
                kind, v, parts = gen_reference(rng, world, r.special, r.methods)
                refs.append(v)
                r.ref_checks(world, kind, v, parts, tl, gen_variant(rng, world), objs)
            if rng.random() < 0.5:
                k = rng.choice([0, 1, 2, 3, 5])
                r.list_checks(world, objs, rng.sample(refs, k), {k2: rng.choice(MODES) for k2 in OPT_KEYS})
        elif unit == "d":
            r.dir_checks(gen_dirworld(rng, r.special))
        elif unit == "df":
            r.dir_family_checks(gen_dir_family(rng, r.special))
        else:
            worlds = gen_family(rng, r.special)
            prepared = []
            pool = []
            for w in worlds:
                tl = r.world_checks(w)
                prepared.append((w, tl, world_objects("w%d" % r.nworld, w, tl)))
                for _ in range(per_family_world):
                    pool.append(gen_reference(rng, w, r.special, r.methods))
            tasks = [(wi, ri) for wi in range(len(prepared)) for ri in range(len(pool))]
            rng.shuffle(tasks)
            ctx.tag("family")
            for wi, ri in tasks:
                w, tl, objs = prepared[wi]
                kind, v, parts = pool[ri]
                kind2, parts2 = rekind(w, r.special, kind, v, parts)
                r.ref_checks(w, kind2, v, parts2, tl, gen_variant(rng, w), objs)
        if (un + 1) % block == 0:
            r.reevaluate(120)
            r.cross_order(300, recent=4000)
            r.tables_check("between-batches")
    r.reevaluate(600 if quick else 3000)
    r.cross_order(4000 if quick else 20000)
    r.fresh_singles(250 if quick else 1500)
    r.tables_check("after-the-run")
    r.flush()
    ctx.extra["strings"] = ctx.evaluations
    ctx.extra["session"] = {"calls_to_the_code": r.impl.ncalls, "history_sampled": len(r.hist), "fresh_interpreters": r.zy.forks,
                            "source_tables": r.src}


def replay(ctx, doc):
    case = doc.get("input") or doc["no_longer_checks"][-1]["input"]
    r = Run(ctx)
    ctx.classifiers = CLASSIFIERS
    if "session" in case and isinstance(case["session"], dict) and "dirfamily" not in case:
        sess = case["session"]
        if sess.get("calls"):
            run_session_case(r, sess, "replay")
        r.tables_check("replay")
    elif "dep" in case:
        out = r.do("application_dependency_to_name", case, {"op": "appdep", "v": case["dep"]}, None)
        if oracle_dep_name(case["dep"]) is not None and out != oracle_dep_name(case["dep"]):
            ctx.fail("application-dependency-name", case, {"impl": out})
    elif "dirfamily" in case:
        r.dir_family_checks(case["dirfamily"])
    elif "world" in case and "tree" in case["world"]:
        probe = None
        if "v" in case:
            probe = (case["v"], case.get("parts") or {"m": case["v"].rsplit(":", 1)[-1]})
        r.dir_checks(case["world"], extra_probe=probe)
    elif "v" in case and "world" in case:
        tl = r.world_checks(case["world"])
        r.ref_checks(case["world"], case.get("kind", "malformed:replay"), case["v"], case.get("parts"), tl,
                     case.get("variant", DEFAULT_VARIANT))
    elif "world" in case:
        r.world_checks(case["world"])
    r.tables_check("after-replay")
    r.flush()
