"""C09 — Data references parse, print and classify consistently.

Implementation under test (real code, in-process, pure functions):
  FlowIR.ParseDataReference / ParseProducerReference / ParseDataReferenceFull / compile_reference /
  is_datareference_to_component / expand_potential_component_reference / expand_component_references /
  application_dependency_to_name / is_var_reference, Manifest.top_level_folders (flowir.py),
  graph.DataReference / ComponentIdentifier (absolute / relative forms, to_uid), and the verdict of
  FlowIRConcrete.validate(top_level_folders=Manifest(...).top_level_folders) on a two-stage workflow
  whose consumer declares the reference.
Model: lean/St4sd/Model/Ref.lean via drv-c09.  Theorems: lean/St4sd/Props/C09.lean.

A *world* = (known components per stage, manifest keys, application dependencies, context stage);
reference strings are built from a grammar (stage prefix x producer x nested file path x method), mostly out of
the world's own vocabulary so that every classification branch is hit, plus a malformed stream.
"""
from __future__ import annotations

import json

METHODS_FALLBACK = ['copy', 'link', 'ref', 'copyout', 'extract', 'output', 'loopref', 'loopoutput']


class Impl:
    def __init__(self):
        import experiment.model.frontends.flowir as M
        import experiment.model.graph as G
        import experiment.model.errors as E
        self.M, self.G, self.E = M, G, E
        self.F = M.FlowIR

    def special(self):
        return list(self.F.SpecialFolders)

    def methods(self):
        return list(self.F.data_reference_methods)

    @staticmethod
    def _guard(fn):
        try:
            return fn()
        except ValueError:
            return {"err": True}
        except Exception as exc:  # noqa
            return {"other": type(exc).__name__}

    def pdr(self, v):
        return self._guard(lambda: list(self.F.ParseDataReference(v)))

    def ppr(self, r, i):
        return self._guard(lambda: list(self.F.ParseProducerReference(r, i)))

    def full(self, v, i, deps, extra):
        return self._guard(lambda: list(self.F.ParseDataReferenceFull(v, i, list(deps), list(extra))))

    def isc(self, v, tlf):
        return self._guard(lambda: self.F.is_datareference_to_component(v, list(tlf)))

    def compile(self, p, f, m, s, r=None):
        return self._guard(lambda: self.F.compile_reference(p, f, m, s, r))

    def expand(self, v, ctx, known, tlf, force):
        k = None if known is None else {int(s): list(n) for s, n in known.items()}
        return self._guard(lambda: self.F.expand_potential_component_reference(
            v, ctx, k, None if tlf is None else list(tlf), force))

    def expand1(self, v, ctx, known, deps, tlf):
        k = None if known is None else {int(s): list(n) for s, n in known.items()}
        return self._guard(lambda: self.F.expand_component_references([v], ctx, k, list(deps), list(tlf))[0])

    def dref(self, v, i):
        def go():
            d = self.G.DataReference(v, i)
            pid = d.producerIdentifier
            uid = pid.to_uid("I")
            assert uid.startswith("I&")
            return {"stage": pid.stageIndex, "name": pid.componentName, "has": pid.hasIndex, "file": d.fileRef,
                    "method": d.method, "id": pid.identifier, "abs": d.absoluteReference,
                    "rel": d.relativeReference, "uid": uid[2:]}
        return self._guard(go)

    def tlf(self, keys):
        def go():
            try:
                man = self.M.Manifest({k: "/nowhere/%d:copy" % n for n, k in enumerate(keys)})
            except self.E.FlowIRManifestKeyIsAbsolutePath:
                return {"rejected": "absolute-key"}
            return list(man.top_level_folders)
        return self._guard(go)

    def appdep(self, v):
        return self._guard(lambda: self.F.application_dependency_to_name(v))

    def isvar(self, v):
        return self._guard(lambda: bool(self.F.is_var_reference(v)))

    def validate(self, v, stage, known, tlf, deps=()):
        """names of the components reported unknown by FlowIRConcrete.validate for a consumer `zz-consumer` of stage
        `stage` declaring reference v; known = {stage: [names]}; tlf as given to validate(); deps = the
        application-dependencies of the default platform."""
        comps = []
        for s, names in known.items():
            for n in names:
                comps.append({'name': n, 'stage': int(s), 'command': {'executable': 'ls'}})
        comps.append({'name': 'zz-consumer', 'stage': stage, 'command': {'executable': 'ls'}, 'references': [v]})

        def go():
            doc = {'components': comps}
            if deps:
                doc['application-dependencies'] = {'default': list(deps)}
            c = self.M.FlowIRConcrete(doc, 'default', {})
            errs = c.validate(top_level_folders=list(tlf))
            unknown = []
            others = []
            for e in errs:
                if isinstance(e, self.E.FlowIRReferenceToUnknownComponent):
                    unknown.append(e)
                else:
                    others.append(type(e).__name__)
            return {"unknown": sorted(r for e in unknown for r in e.references),
                    "n_unknown": len(unknown), "others": sorted(others)}
        return self._guard(go)


# ----------------------------------------------------------------------------------------
# vocabulary / grammar
# ----------------------------------------------------------------------------------------

LETTERS = "abcdefgxyzABQ"
NAME_TAIL = LETTERS + "0123456789" + "--__.."
STEMS = ["foo", "bar", "baz", "gen", "Gen-Input", "cluster.analysis", "a", "b2", "x-1", "sim_0", "Agg", "stager",
         "stag", "stage", "stagex1", "mystage1", "in", "inputs", "data2", "binary", "confs", "copy", "ref"]


def gen_plain_name(rng):
    """component-like name: letters digits - _ . ; never starts with `stage<digit>`; no / : % [ #"""
    r = rng.random()
    if r < 0.45:
        n = rng.choice(STEMS)
    else:
        n = rng.choice(LETTERS) + "".join(rng.choice(NAME_TAIL) for _ in range(rng.randint(0, 8)))
    if rng.random() < 0.25:
        n += str(rng.randint(0, 120))       # replica-like suffix
    if rng.random() < 0.15:
        n += "." + rng.choice(STEMS)
    if stage_prefixed(n):
        n = "x" + n
    return n


def gen_comp_name(rng):
    n = gen_plain_name(rng)
    if rng.random() < 0.2:
        n = "%d#%s" % (rng.randint(0, 12), n)   # loop iteration prefix
    return n


def gen_file(rng):
    segs = []
    for _ in range(rng.randint(1, 4)):
        r = rng.random()
        if r < 0.5:
            segs.append(rng.choice(["out.txt", "results", "file-1.csv", "sub.dir", "a", "*.xyz", "data", "input",
                                    "stage1.x", "f", "bar", "..", "."]))
        elif r < 0.6:
            segs.append("%(" + rng.choice(["var", "a.b", "x-1"]) + ")s")
        else:
            segs.append(gen_plain_name(rng))
    return "/".join(segs)


def gen_world(rng, special):
    nstages = rng.randint(1, 4)
    known = {}
    for s in rng.sample(range(0, 12), nstages):
        known[str(s)] = sorted({gen_comp_name(rng) for _ in range(rng.randint(1, 4))})
    ctx = int(rng.choice(list(known.keys()))) if rng.random() < 0.8 else rng.randint(0, 12)
    keys = []
    for _ in range(rng.choice([0, 1, 1, 2, 3])):
        depth = rng.choice([1, 1, 2, 2, 3])
        k = "/".join(gen_plain_name(rng) for _ in range(depth))
        if rng.random() < 0.1:
            k += "/"
        keys.append(k)
    keys = sorted(set(keys))
    deps = []
    for _ in range(rng.choice([0, 0, 1, 2])):
        base = gen_plain_name(rng).split(".")[0] or "dep"
        if rng.random() < 0.5:
            base = base.capitalize()
        form = rng.choice(["plain", "ext", "abs", "absext", "rel", "trail"])
        if form == "ext":
            base += rng.choice([".git", ".application", ".package"])
        elif form == "abs":
            base = "/opt/apps/" + base
        elif form == "absext":
            base = "/opt/my.apps/" + base + ".git"
        elif form == "rel":
            base = "apps/" + base + ".git"
        elif form == "trail":
            base = "/opt/" + base + ".d/"
        deps.append(base)
    return {"known": known, "ctx": ctx, "keys": keys, "deps": deps}


def first_segment(k):
    return k.split("/", 1)[0]


def oracle_dep_name(d):
    """independent restatement of the documented behaviour of application_dependency_to_name for the documented forms
    "<name>", "<name>.<extension>", "/some/name", "/some/path/<NAME>.<extension>" (optionally with a trailing slash);
    None for other forms (relative paths with a directory part: compared with the model only)"""
    d = d.rstrip("/")
    base = d.rsplit("/", 1)[1] if d.startswith("/") else d
    if "/" in base or not base:
        return None
    stem = base.rsplit(".", 1)[0] if "." in base.lstrip(".") else base
    return stem.lower()


def world_folders(world, special):
    tl = [first_segment(k) for k in world["keys"]]
    dn = [x for x in (oracle_dep_name(d) for d in world["deps"]) if x is not None]
    return tl, dn, set(tl) | set(dn) | set(special)


def stage_prefixed(name):
    return len(name) > 5 and name.startswith("stage") and name[5].isdigit()


def gen_reference(rng, world, special, methods):
    """returns (kind, string, parts|None); parts = dict(stage, prod, file, m) is the intended meaning"""
    tl, dn, allf = world_folders(world, special)
    m = rng.choice(methods)
    f = gen_file(rng) if rng.random() < 0.6 else None
    known_here = world["known"].get(str(world["ctx"]), [])
    all_known = [(int(s), n) for s, ns in world["known"].items() for n in ns]
    r = rng.random()

    def body(p):
        return "%s%s:%s" % (p, "" if f is None else "/" + f, m)
    if r < 0.22:
        p = rng.choice(known_here) if known_here and rng.random() < 0.7 else gen_comp_name(rng)
        return "comp-rel", body(p), dict(stage=None, prod=p, file=f, m=m)
    if r < 0.40:
        if all_known and rng.random() < 0.7:
            s, p = rng.choice(all_known)
        else:
            s, p = rng.randint(0, 130), gen_comp_name(rng)
        return "comp-abs", "stage%d.%s" % (s, body(p)), dict(stage=s, prod=p, file=f, m=m)
    if r < 0.50:
        p = rng.choice(special)
        return "folder-special", body(p), dict(stage=None, prod=p, file=f, m=m)
    if r < 0.62 and world["keys"]:
        k = rng.choice(world["keys"]).rstrip("/")
        return "folder-manifest", body(k), dict(stage=None, prod=first_segment(k), file=f, m=m)
    if r < 0.70 and dn:
        p = rng.choice(dn)
        return "folder-appdep", body(p), dict(stage=None, prod=first_segment(p), file=f, m=m)
    if r < 0.76:
        p = "/" + "/".join(gen_plain_name(rng) for _ in range(rng.randint(1, 3)))
        return "abspath", body(p), dict(stage=None, prod=p, file=f, m=m)
    if r < 0.82:
        p = rng.choice(["%(input)s", "%(a.b)s", "%(x-1)s", "pre%(v)ssuf", "%(v)s.d"])
        return "variable", body(p), dict(stage=None, prod=p, file=f, m=m)
    if r < 0.86:
        # a folder name that is also a known component of the context stage, or a component called like a folder
        pool = sorted(allf)
        p = rng.choice(pool)
        return "clash", body(p), None
    # malformed stream
    p = rng.choice(known_here) if known_here and rng.random() < 0.5 else gen_comp_name(rng)
    s = rng.randint(0, 20)
    form = rng.choice(["stage0n", "stagenx", "Stage", "stage.", "stage-", "nocolon", "twocolon", "emptym", "badm",
                       "empty", "emptyprod", "dblslash", "trailslash", "idx", "colonfile", "stagedotonly", "absfile",
                       "stagefolder", "stagespecial", "spaces", "stagevar", "junk"])
    if form == "stage0n":
        v = "stage0%d.%s" % (s, body(p))
    elif form == "stagenx":
        v = "stage%d%s.%s" % (s, rng.choice(["x", "-a", "_", "#"]), body(p))
    elif form == "Stage":
        v = "Stage%d.%s" % (s, body(p))
    elif form == "stage.":
        v = "stage.%s" % body(p)
    elif form == "stage-":
        v = "stage-%d.%s" % (s, body(p))
    elif form == "nocolon":
        v = body(p).replace(":", "")
    elif form == "twocolon":
        v = body(p) + ":" + rng.choice(methods)
    elif form == "emptym":
        v = body(p)[:-len(m)]
    elif form == "badm":
        v = body(p)[:-len(m)] + rng.choice(["REF", "reference", "cp", "ref ", "output2"])
    elif form == "empty":
        v = rng.choice(["", ":", ":ref", "/:ref", ".:ref", "..:ref", "./x:ref", "//:ref", "/:", "stage1.:ref"])
    elif form == "emptyprod":
        v = "/%s:%s" % (f or "x", m)
    elif form == "dblslash":
        v = "%s//%s:%s" % (p, f or "x", m)
    elif form == "trailslash":
        v = "%s/:%s" % (p, m)
    elif form == "idx":
        v = "%s[%d]%s:%s" % (p, s, "" if f is None else "/" + f, m)
    elif form == "colonfile":
        v = "%s/a:b:%s" % (p, m)
    elif form == "stagedotonly":
        v = "stage%d.:%s" % (s, m)
    elif form == "absfile":
        v = "stage%d.%s//abs/%s:%s" % (s, p, f or "x", m)
    elif form == "stagefolder":
        v = "stage%d.%s" % (s, body(rng.choice(sorted(allf))))
    elif form == "stagespecial":
        v = "stage%d.%s/%s:%s" % (s, rng.choice(special), f or "x", m)
    elif form == "spaces":
        v = " %s :%s" % (p, m)
    elif form == "stagevar":
        v = "stage%d.%s" % (s, body("%(v)s" + rng.choice(["", "x"])))
    else:
        alphabet = "stage01.:/%()[]#-_ax"
        v = "".join(rng.choice(alphabet) for _ in range(rng.randint(0, 14)))
    return "malformed:" + form, v, None


# ----------------------------------------------------------------------------------------
# evaluation of one reference in one world: implementation outputs, model requests, oracle
# ----------------------------------------------------------------------------------------

def known_json(known):
    return None if known is None else [{"s": int(s), "n": list(n)} for s, n in sorted(known.items(), key=lambda kv: int(kv[0]))]


def plan(world, v, tlf_impl, variant):
    """list of (relation name, model request, impl thunk name + args)"""
    ctx, known, deps = world["ctx"], world["known"], world["deps"]
    tlf = tlf_impl if isinstance(tlf_impl, list) else []
    idx = ctx if variant["with_index"] else None
    kn = known if variant["with_known"] else None
    tl_opt = (tlf + variant["extra_folders"]) if variant["with_tlf"] else None
    return [
        ("ParseDataReference", {"op": "pdr", "v": v}, ("pdr", (v,))),
        ("ParseDataReferenceFull", {"op": "full", "v": v, "i": idx, "deps": deps, "extra": tlf}, ("full", (v, idx, deps, tlf))),
        ("is_datareference_to_component", {"op": "isc", "v": v, "tlf": tlf}, ("isc", (v, tlf))),
        ("expand_potential_component_reference",
         {"op": "expand", "v": v, "ctx": ctx, "known": known_json(kn), "tlf": tl_opt, "force": variant["force"]},
         ("expand", (v, ctx, kn, tl_opt, variant["force"]))),
        ("expand_component_references", {"op": "expand1", "v": v, "ctx": ctx, "known": known_json(kn), "deps": deps, "tlf": tlf},
         ("expand1", (v, ctx, kn, deps, tlf))),
        ("DataReference", {"op": "dref", "v": v, "i": idx}, ("dref", (v, idx))),
    ]


def is_err(x):
    return isinstance(x, dict) and ("err" in x or "other" in x)


class Run:
    def __init__(self, ctx):
        self.ctx = ctx
        self.impl = Impl()
        self.special = self.impl.special()
        self.methods = self.impl.methods() or METHODS_FALLBACK
        self.pending = []    # (relation, case, request, impl_out)

    def flush(self):
        if not self.pending:
            return
        outs = self.ctx.model([p[2] for p in self.pending])
        if outs is not None:
            for (rel, case, _req, io), mo in zip(self.pending, outs):
                self.ctx.compare(rel, case, mo, io)
        self.pending = []

    def queue(self, rel, case, req, impl_out):
        self.pending.append((rel, case, req, impl_out))
        if len(self.pending) >= 40000:
            self.flush()

    # -- world level ----------------------------------------------------------------------
    def world_checks(self, world):
        case = {"world": world}
        tl = self.impl.tlf(world["keys"])
        self.queue("Manifest.top_level_folders", case, {"op": "tlf", "keys": world["keys"]}, tl)
        if isinstance(tl, list):
            want = [first_segment(k) for k in world["keys"]]
            if tl != want:
                self.ctx.fail("manifest-top-level-folders-not-leftmost-segment", case, {"impl": tl, "expected": want})
        for d in world["deps"]:
            out = self.impl.appdep(d)
            self.queue("application_dependency_to_name", {"dep": d}, {"op": "appdep", "v": d}, out)
            if oracle_dep_name(d) is not None and out != oracle_dep_name(d):
                self.ctx.fail("application-dependency-name", {"dep": d}, {"impl": out, "expected": oracle_dep_name(d)})
        return tl

    # -- reference level ------------------------------------------------------------------
    def ref_checks(self, world, kind, v, parts, tl_impl, variant):
        ctx, I = self.ctx, self.impl
        case = {"world": world, "kind": kind, "v": v, "parts": parts, "variant": variant}
        outs = {}
        for rel, req, (fn, args) in plan(world, v, tl_impl, variant):
            out = getattr(I, fn)(*args)
            outs[fn] = out
            self.queue(rel, case, req, out)
        tags = ["kind:" + kind.split(":")[0]]
        if kind.startswith("malformed"):
            tags.append(kind)
        full = outs["full"]
        tags.append("parse:error" if is_err(full) else ("class:component" if full[0] is not None else "class:direct"))
        if not is_err(outs["expand"]):
            tags.append("expand:" + ("rewritten" if outs["expand"] != v else "kept"))
        nontrivial = not is_err(full)
        ctx.case({"kind": kind, "v": v, "world": world, "variant": variant}, nontrivial=nontrivial, tags=tags)
        self.oracle(case, outs, tl_impl)

    def oracle(self, case, outs, tl_impl):
        ctx, I = self.ctx, self.impl
        world, kind, v, parts, variant = case["world"], case["kind"], case["v"], case["parts"], case["variant"]
        known, cstage, deps = world["known"], world["ctx"], world["deps"]
        tlf = tl_impl if isinstance(tl_impl, list) else []
        tl_h, dn_h, allf = world_folders(world, self.special)
        idx = cstage if variant["with_index"] else None
        kn = known if variant["with_known"] else None
        tl_opt = (tlf + variant["extra_folders"]) if variant["with_tlf"] else None

        # (2) expansion is idempotent — every string that parses, every name set
        e1 = outs["expand"]
        if not is_err(e1):
            e2 = I.expand(e1, cstage, kn, tl_opt, variant["force"])
            ctx.tag("oracle:idempotent")
            if e2 != e1:
                ctx.fail("expand-not-idempotent", case, {"once": e1, "twice": e2})
        x1 = outs["expand1"]
        if not is_err(x1):
            x2 = I.expand1(x1, cstage, kn, deps, tlf)
            if x2 != x1:
                ctx.fail("expand-references-not-idempotent", case, {"once": x1, "twice": x2})
        if parts is None:
            return
        prod, f, m, st = parts["prod"], parts["file"], parts["m"], parts["stage"]

        # (1) parse → print gives the reference back (canonical grammar; absolute paths are not printed by the code)
        if kind in ("comp-rel", "comp-abs", "folder-special", "folder-manifest", "folder-appdep", "variable"):
            p0 = I.full(v, None, [], [])
            ctx.tag("oracle:roundtrip")
            if is_err(p0):
                ctx.fail("canonical-reference-rejected", case, p0)
            else:
                back = I.compile(p0[1], p0[2], p0[3], p0[0])
                if back != v:
                    ctx.fail("parse-print-roundtrip", case, {"parsed": p0, "printed": back})
            d0 = I.dref(v, None)
            if is_err(d0):
                ctx.fail("canonical-reference-rejected-by-DataReference", case, d0)
            elif d0["abs"] != v or d0["rel"] != (v if st is None else v[len("stage%d." % st):]):
                if not (kind == "comp-abs" and prod in self.special and f is not None):
                    ctx.fail("DataReference-print-roundtrip", case, d0)
        if kind in ("comp-rel", "comp-abs"):
            # print → parse gives the parts back
            s2 = I.compile(prod, f, m, st)
            if s2 != v:
                ctx.fail("compile-reference-spelling", case, {"printed": s2})
            exp_stage = st if st is not None else idx
            direct = st is None and prod in allf
            got = I.full(s2, idx, deps, tlf)
            want = [None if direct else exp_stage, prod, f, m]
            if direct and prod in self.special and f is not None:
                want = [None, prod + "/" + f, None, m]
            if got != want:
                ctx.fail("print-parse-roundtrip" + (":manifest-folder" if direct and prod in tl_h else ""), case,
                         {"parsed": got, "expected": want, "top_level_folders": tlf})

        # (3) relative and absolute spellings agree
        if kind == "comp-rel" and prod not in allf:
            i = cstage
            a = "stage%d.%s" % (i, v)
            dr, da = I.dref(v, i), I.dref(a, None)
            ctx.tag("oracle:rel-abs")
            if is_err(dr) or is_err(da):
                ctx.fail("relative-or-absolute-spelling-rejected", case, {"rel": dr, "abs": da})
            else:
                for k in ("stage", "name", "file", "method", "id", "abs", "rel"):
                    if dr[k] != da[k]:
                        ctx.fail("relative-absolute-disagree", case, {"field": k, "rel": dr, "abs": da})
                        break
                if da["abs"] != a or da["rel"] != v or (dr["stage"], dr["name"], dr["file"], dr["method"]) != (i, prod, f, m):
                    ctx.fail("relative-absolute-spelling", case, {"rel": dr, "abs": da})
            fr, fa = I.full(v, i, deps, tlf), I.full(a, None, deps, tlf)
            if fr != fa or fr != [i, prod, f, m]:
                ctx.fail("relative-absolute-parse-disagree", case, {"rel": fr, "abs": fa})

        # (4) classification
        known_here = known.get(str(cstage), [])
        direct_kinds = ("folder-special", "folder-manifest", "folder-appdep", "abspath", "variable")
        if kind in direct_kinds and not (prod in known_here):
            ctx.tag("oracle:class-direct")
            fr = I.full(v, cstage, deps, tlf)
            ic = I.isc(v, tlf + dn_h)
            ex = I.expand1(v, cstage, known, deps, tlf)
            bad = None
            if is_err(fr) or fr[0] is not None:
                bad = "ParseDataReferenceFull"
            elif ic is not False:
                bad = "is_datareference_to_component"
            elif ex != v:
                bad = "expand_component_references"
            if bad:
                ctx.fail("direct-reference-treated-as-component" + (":manifest" if kind == "folder-manifest" else ""),
                         case, {"by": bad, "full": fr, "is_component": ic, "expanded": ex, "top_level_folders": tlf})
            if kind in ("folder-special", "folder-manifest", "folder-appdep") and not stage_prefixed(prod) \
                    and (variant["validate"] or (kind == "folder-manifest" and variant["validate2"])):
                vr = I.validate(v, cstage, known, tlf, deps)
                if not is_err(vr) and vr["others"]:
                    ctx.tag("validate:not-applicable(other errors)")   # e.g. unresolved %(var)s in the file part
                else:
                    ctx.tag("oracle:validate-direct")
                    self.queue("FlowIRConcrete.validate unknown-component verdict", case,
                               {"op": "validate", "v": v, "stage": cstage, "known": known_json(known),
                                "tlf": tlf + [I.appdep(d) for d in deps]}, self._validate_canon(vr, known))
                    if is_err(vr) or vr["n_unknown"]:
                        ctx.fail("validate-reports-folder-reference-as-unknown-component" +
                                 (":manifest" if kind == "folder-manifest" else ""), case, vr)
        if kind in ("comp-rel", "comp-abs") and not (st is None and prod in allf):
            target = st if st is not None else cstage
            is_known = prod in known.get(str(target), [])
            ctx.tag("oracle:class-component-" + ("known" if is_known else "unknown"))
            fr = I.full(v, cstage, deps, tlf)
            if is_err(fr) or fr[0] != target or fr[1] != prod:
                ctx.fail("component-reference-not-classified-as-component", case, {"full": fr})
            if is_known:
                a = "stage%d.%s" % (target, v if st is None else v[len("stage%d." % st):])
                for name, got in (("expand_component_references", I.expand1(v, cstage, known, deps, tlf)),
                                  ("expand_potential_component_reference(known only)", I.expand(v, cstage, known, None, False))):
                    if got != a:
                        ctx.fail("known-component-reference-not-expanded", case, {"by": name, "got": got, "expected": a})
                if I.isc(v, tlf + dn_h) is not True:
                    ctx.fail("known-component-reference-not-a-component-reference", case, {})
            if "#" not in "".join(n for ns in known.values() for n in ns) and "#" not in prod and variant["validate"]:
                vr = I.validate(v, cstage, known, tlf, deps)
                if not is_err(vr) and vr["others"]:
                    ctx.tag("validate:not-applicable(other errors)")
                else:
                    ctx.tag("oracle:validate-component")
                    self.queue("FlowIRConcrete.validate unknown-component verdict", case,
                               {"op": "validate", "v": v, "stage": cstage, "known": known_json(known),
                                "tlf": tlf + [I.appdep(d) for d in deps]}, self._validate_canon(vr, known))
                    if is_err(vr) or (vr["n_unknown"] == 0) != is_known:
                        ctx.fail("validate-verdict-on-component-reference", case, {"validate": vr, "known": is_known})

    def _validate_canon(self, vr, known):
        """what the model answers: null, or the identifier of the missing component"""
        if is_err(vr):
            return vr
        if vr["n_unknown"] == 0:
            return None
        return vr["unknown"][0]


def gen_variant(rng, world):
    return {"with_index": rng.random() < 0.75, "with_known": rng.random() < 0.8, "with_tlf": rng.random() < 0.8,
            "force": rng.random() < 0.15, "validate": rng.random() < 0.12, "validate2": rng.random() < 0.4,
            "extra_folders": [] if rng.random() < 0.5 else ["input", "data", "bin", "conf"]}


CORPUS = [
    # nested manifest key: the defect of DESIGN section 8 #3
    {"world": {"known": {"0": ["c0"]}, "ctx": 0, "keys": ["foo/bar"], "deps": []},
     "kind": "folder-manifest", "v": "foo/bar/f:ref", "parts": {"stage": None, "prod": "foo", "file": "f", "m": "ref"}},
    {"world": {"known": {"0": ["c0"], "1": ["c1"]}, "ctx": 1, "keys": ["foo"], "deps": ["/opt/Apps/MyDep.git/"]},
     "kind": "folder-appdep", "v": "mydep/x/y:copy", "parts": {"stage": None, "prod": "mydep", "file": "x/y", "m": "copy"}},
    {"world": {"known": {"3": ["0#loop", "gen.x-1"]}, "ctx": 3, "keys": [], "deps": []},
     "kind": "comp-rel", "v": "0#loop/out.txt:loopref", "parts": {"stage": None, "prod": "0#loop", "file": "out.txt", "m": "loopref"}},
    {"world": {"known": {"3": ["gen.x-1"]}, "ctx": 3, "keys": [], "deps": []},
     "kind": "comp-abs", "v": "stage3.gen.x-1/a/b:output", "parts": {"stage": 3, "prod": "gen.x-1", "file": "a/b", "m": "output"}},
    {"world": {"known": {"1": ["foo"]}, "ctx": 0, "keys": [], "deps": []},
     "kind": "malformed:stagenx", "v": "stage01x.foo:ref", "parts": None},
]
DEFAULT_VARIANT = {"with_index": True, "with_known": True, "with_tlf": True, "force": False, "validate": True, "validate2": True,
                   "extra_folders": ["input", "data", "bin", "conf"]}


def classify_none(what, case, detail):
    return False


CLASSIFIERS = {}


def shrinker_for(run):
    def shrink(what, case):
        """drop world entries that are not needed for the same failure slug"""
        if "world" not in case or "v" not in case:
            return None
        import copy
        from harness import common

        def fails(c):
            sub = common.Ctx("C09", "quick", 0)
            sub.driver = None
            r2 = Run(sub)
            tl = r2.impl.tlf(c["world"]["keys"])
            r2.pending = []
            r2.oracle(c, {fn: getattr(r2.impl, fn)(*args) for _rel, _rq, (fn, args) in plan(c["world"], c["v"], tl, c["variant"])}, tl)
            return any(w == what for w, _c, _d in sub.failures)
        best = copy.deepcopy(case)
        keep = (case.get("parts") or {}).get("prod")
        for field in ("deps", "keys"):
            items = best["world"][field]
            for it in list(items):
                if keep is not None and (first_segment(it) == keep or oracle_dep_name(it) == keep):
                    continue
                cand = copy.deepcopy(best)
                cand["world"][field] = [x for x in cand["world"][field] if x != it]
                if fails(cand):
                    best = cand
        for s in list(best["world"]["known"].keys()):
            cand = copy.deepcopy(best)
            if len(cand["world"]["known"]) > 1 and int(s) != cand["world"]["ctx"]:
                del cand["world"]["known"][s]
                if fails(cand):
                    best = cand
        return best
    return shrink


def run(ctx):
    ctx.rule = ("case = (reference string, world, variant); world = known components per stage (names with dots, dashes, "
                "digits, loop prefixes), manifest keys (flat and nested), application dependencies (plain / extension / "
                "absolute / relative / trailing slash), context stage; strings from the grammar [stageN.]producer[/nested/file]:method "
                "over all reference methods, drawn mostly from the world's own vocabulary (9 well-formed kinds incl. reserved "
                "folder, manifest folder, app-dep, absolute path, variable, folder/component name clash) plus a malformed "
                "stream of 22 forms; non-trivial = the string parses (ParseDataReferenceFull does not raise); distinct by "
                "canonical JSON of (kind, string, world, variant)")
    ctx.assumptions = ["generated strings are ASCII (Python's \\d and str.lower() are only modelled on ASCII)",
                       "component names never contain '/' or ':'; for the classification oracle folder names and the "
                       "names of the components of the context stage are disjoint (the clash stream is compared with the "
                       "model only)",
                       "FlowIRConcrete.validate is exercised on a two-level workflow (producers + one consumer declaring the "
                       "reference, no arguments, no '#' names)"]
    ctx.trusted.append("C09: os.path.split/join/splitext re-modelled structurally in Model/Ref.lean (posixSplit, pathJoin, "
                       "splitextRoot), regex prefix/search semantics of stage([0-9]+), VariablePattern and \\[(\\d+)\\] re-modelled "
                       "as list functions; pinned by the regenerated sources in Gen/C09.lean and compared on every run")
    r = Run(ctx)
    ctx.classifiers = CLASSIFIERS
    ctx.shrinker = shrinker_for(r)
    rng = ctx.rng
    quick = ctx.tier == "quick"
    ctx.extra["special_folders"] = r.special
    ctx.extra["methods"] = r.methods
    # pure-function odds and ends compared once
    for v in ["%(a)s", "x[3]", "x[]", "[12", "a%(b)", "%()s", "%(a b)s", "plain", "%(a.b-c_d)s/x", "[0]"]:
        r.queue("is_var_reference", {"v": v}, {"op": "isvar", "v": v}, r.impl.isvar(v))
    for c in CORPUS:
        c = dict(c)
        c.setdefault("variant", DEFAULT_VARIANT)
        tl = r.world_checks(c["world"])
        r.ref_checks(c["world"], c["kind"], c["v"], c["parts"], tl, c["variant"])
    nworlds = 900 if quick else 9000
    per = 26
    for _ in range(nworlds):
        world = gen_world(rng, r.special)
        tl = r.world_checks(world)
        for _ in range(per):
            kind, v, parts = gen_reference(rng, world, r.special, r.methods)
            r.ref_checks(world, kind, v, parts, tl, gen_variant(rng, world))
    r.flush()
    ctx.extra["strings"] = ctx.evaluations


def replay(ctx, doc):
    case = doc.get("input") or doc["no_longer_checks"][-1]["input"]
    r = Run(ctx)
    ctx.classifiers = CLASSIFIERS
    if "dep" in case:
        out = r.impl.appdep(case["dep"])
        r.queue("application_dependency_to_name", case, {"op": "appdep", "v": case["dep"]}, out)
        if oracle_dep_name(case["dep"]) is not None and out != oracle_dep_name(case["dep"]):
            ctx.fail("application-dependency-name", case, {"impl": out})
    elif "v" in case and "world" in case:
        tl = r.world_checks(case["world"])
        r.ref_checks(case["world"], case.get("kind", "malformed:replay"), case["v"], case.get("parts"), tl,
                     case.get("variant", DEFAULT_VARIANT))
    elif "world" in case:
        r.world_checks(case["world"])
    r.flush()
