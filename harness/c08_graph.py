"""C08, second layer - the views of a component on a real experiment graph.

One FlowIRConcrete sits behind a WorkflowGraph (graph.py), its FlowIRExperimentConfiguration (conf.py), the
ComponentSpecification of every node (also the one of the same node in the sibling graph that
WorkflowGraph.replicate() / .primitive() builds on the SAME configuration), the accessors stored in the
networkx nodes, and the Jobs of an Experiment (data.py).  Histories mix

  reads   through every one of those objects (ComponentSpecification.configuration / commandDetails /
          resourceRequest / resourceManager / executors / workflowAttributes / customAttributes / rawDataReferences,
          node['getConfiguration'], WorkflowGraph.configurationForNode / dataReferencesForNode,
          FlowIRExperimentConfiguration.configurationForNode / dataReferencesForNode,
          FlowIRConcrete.get_component_configuration, Job.flowir_description / workflowAttributes / resourceRequest /
          resourceManager / executors / customAttributes / type / isRepeat; not modelled but compared with a world
          rebuilt from scratch: environment, command line, isReplicating, isAggregating)
  updates through every one of them (ComponentSpecification.setOption / removeOption, node['setOption'],
          WorkflowGraph.setOptionForNode / removeOptionForNode, FlowIRExperimentConfiguration.setOptionForNode /
          removeOptionForNode, Job.setOption / removeOption / options_modify / options_remove, and every mutator
          of FlowIRConcrete).

Oracle (model independent), after EVERY read: the answer equals the corresponding part of what a from-scratch
FlowIRConcrete(raw(), platform, {}) resolves for the component with the keyword arguments that view uses; every
returned object is scribbled on afterwards (private copy).  After every operation the description equals the one
of a twin FlowIRConcrete that received only the updates, each through the plain FlowIRConcrete mutator (an update
through any object is the same update of the one description).
Model: lean/St4sd/Model/CacheViews.lean (`grun`), theorems all_views_agree / entry_point_irrelevant / ... in
Props/C08.lean.
"""
from __future__ import annotations

import copy
import os
import shutil
import tempfile

from harness import c04 as K
from harness.common import canon

NODES = [(0, "c0"), (1, "c1"), (0, "d")]
GVARS = ["x", "y", "g", "s"]
GROUTES = ["#command.arguments", "#command.executable", "#command.environment", "#resourceRequest.numberProcesses",
           "#workflowAttributes.maxRestarts", "#resourceManager.config.walltime", "#resourceRequest.memory",
           "#workflowAttributes.isMigratable", "#workflowAttributes.repeatRetries", "x", "y", "g", "#variables.x",
           "#variables.y"]
# (#command.interpreter is not driven either: the interpreter digest is outside the Lean resolver)
# not driven: #workflowAttributes.repeatInterval / isRepeat - `isRepeat` is a derived field that loading a description
# recomputes from `repeatInterval` (FlowIR.inject_default_values_to_component), so a description in which the two
# disagree is not a fixed point of raw() -> FlowIRConcrete(...) and "from scratch" is ambiguous for it
GROUTE_VALUES = ["-a %(x)s", "%(g)s %(y)s", "plain", 3, "4", "%(y)s", None, "env1", "env0", "echo", "ls"]
TYPED_VALUES = [3, "4", "%(y)s", None, 1, 1.0, True, "1", 0, "0", 2.5, "2", False, 60]


def route_pool(route, var_pool):
    if "#" not in route or route.startswith("#variables."):
        return var_pool
    if route.startswith("#command."):
        return GROUTE_VALUES
    return TYPED_VALUES

# view name -> route inside the configuration (None = the whole configuration)
SECTIONS = {"configuration": None, "command": ["command"], "resourceRequest": ["resourceRequest"],
            "resourceManager": ["resourceManager"], "executors": ["executors"],
            "workflowAttributes": ["workflowAttributes"], "variables": ["variables"], "references": ["references"],
            "type": ["resourceManager", "config", "backend"], "isRepeat": ["workflowAttributes", "isRepeat"]}
SPEC_VIEWS = ["configuration", "command", "resourceRequest", "resourceManager", "executors", "workflowAttributes",
              "variables", "references"]
JOB_VIEWS = ["configuration", "workflowAttributes", "resourceRequest", "resourceManager", "executors", "variables",
             "type", "isRepeat"]
FREE_FLAG_ENTRIES = ("graph", "conf", "concrete")
# views that are not modelled; only those that are functions of the RESOLVED configuration (+ the environments
# section, which no operation touches) - loading a description for a replicated graph resolves the variables, so
# views of the raw text (variable references, raw options) legitimately differ on a rebuilt graph
OPAQUE = ["environment", "commandLine", "getEnvironment", "isReplicating", "isAggregating"]


def gbody(name, stage, flavour=0):
    refs = ["stage0.c0:ref"] if (stage, name) == (1, "c1") else []
    tail = " stage0.c0:ref" if refs else ""
    b = {"stage": stage, "name": name,
         "command": {"executable": "echo",
                     "arguments": ["%(x)s %(g)s", "%(x)s", "%(s)s/%(g)s", "lit %(y)s"][flavour % 4] + tail},
         "variables": {"x": "X%d" % flavour, "y": [1, 0, 1.0, True, False, 0.0, "1", 2][flavour % 8]},
         "references": refs}
    if flavour % 4 == 2:
        b["resourceManager"] = {"config": {"walltime": 5 + flavour}}
        b["workflowAttributes"] = {"maxRestarts": flavour}
    if flavour % 3 == 1:
        b["resourceRequest"] = {"numberProcesses": "%(x)s" if flavour % 2 else 2}
        b["variables"]["x"] = "3" if flavour % 4 else 1
    if flavour % 5 == 2:
        b["override"] = {"p": {"command": {"arguments": "on-p %(g)s" + tail}, "variables": {"x": "XP"}}}
    if flavour % 5 == 3:
        b["command"]["environment"] = "env1"
    return b


def gdoc():
    return {
        "platforms": ["default", "p"],
        "environments": {"default": {"env0": {"A": "a0"}, "env1": {"A": "a1", "B": "%(g)s"}},
                         "p": {"env0": {"A": "pa0"}}},
        "blueprint": {"default": {"global": {"command": {"environment": "env0"}},
                                  "stages": {0: {"resourceManager": {"config": {"walltime": 30}},
                                                 "resourceRequest": {"numberThreads": 2}},
                                             1: {"workflowAttributes": {"maxRestarts": 3, "shutdownOn": ["KnownIssue"]}}}},
                      "p": {"global": {"resourceManager": {"config": {"backend": "%(s)s"}}},
                            "stages": {0: {"workflowAttributes": {"maxRestarts": 4}},
                                       1: {"resourceRequest": {"numberProcesses": 3}}}}},
        "variables": {"default": {"global": {"g": "G", "s": "local"}, "stages": {0: {"s": "local"}, 1: {}}},
                      "p": {"global": {"g": "GP"}, "stages": {0: {}, 1: {"s": "local"}}}},
        "components": [gbody(n, i, flavour=k) for k, (i, n) in enumerate(NODES)],
    }


WORLDS = [{"mode": "graph", "platform": None, "primitive": True, "substitute": True},
          {"mode": "graph", "platform": "p", "primitive": True, "substitute": True},
          {"mode": "graph", "platform": "p", "primitive": False, "substitute": True},
          {"mode": "graph", "platform": None, "primitive": False, "substitute": True},
          {"mode": "graph", "platform": None, "primitive": True, "substitute": False},
          {"mode": "experiment", "platform": None, "primitive": False, "substitute": True},
          {"mode": "experiment", "platform": "p", "primitive": False, "substitute": True}]


def node_name(i, n):
    return "stage%d.%s" % (i, n)


class World(object):
    """the real objects of one history"""

    def __init__(self, params, doc, scratch):
        import experiment.model.graph as G
        self.params = params
        self.exp = None
        if params["mode"] == "experiment":
            import yaml
            import tests.utils as TU
            cwd = os.getcwd()
            try:
                self.exp = TU.experiment_from_flowir(yaml.safe_dump(copy.deepcopy(doc)), scratch, checkExecutables=False,
                                                     platform=params["platform"])
            finally:
                os.chdir(cwd)
            self.wg = self.exp.experimentGraph
        else:
            self.wg = G.WorkflowGraph.graphFromFlowIR(copy.deepcopy(doc), manifest={}, platform=params["platform"],
                                                      primitive=params["primitive"],
                                                      variable_substitute=params["substitute"])
        self.sib = self.wg.replicate() if self.wg.isPrimitive else self.wg.primitive()
        self.conf = self.wg.configuration
        self.conc = self.conf.get_flowir_concrete(return_copy=False)
        self.platform = self.conc.active_platform

    def entries(self):
        return ["spec", "specSibling", "node", "graph", "conf", "concrete"] + (["job"] if self.exp is not None else [])

    def spec(self, i, n, sibling=False):
        g = self.sib if sibling else self.wg
        return g.graph.nodes[node_name(i, n)]["componentSpecification"]

    def job(self, i, n):
        return self.exp.findJob(i, n)

    def fixed_flags(self, entry, what, raw=None):
        """the keyword arguments the view uses when the caller cannot choose them"""
        prim = {"spec": self.wg.isPrimitive, "job": self.wg.isPrimitive, "node": self.wg.isPrimitive,
                "specSibling": self.sib.isPrimitive}.get(entry, self.wg.isPrimitive)
        if what == "references":
            prim = self.conf._is_primitive
        return {"raw": self.conf.is_raw if raw is None else raw, "incl": True, "prim": prim, "inject": True}


def rebuild(world):
    """a world built from scratch from the current description (reference for the views that are not modelled)"""
    import experiment.model.graph as G
    p = world.params
    return G.WorkflowGraph.graphFromFlowIR(world.conc.raw(), manifest={}, platform=p["platform"],
                                           primitive=world.wg.isPrimitive, variable_substitute=p["substitute"])


def _lookup(tree, route):
    for k in route or []:
        tree = tree[k]
    return tree


def wrap(fn, keep=None):
    try:
        res = fn()
        if keep is not None:
            keep.append(res)
        return {"ok": K.to_json(res)}
    except BaseException as exc:
        if isinstance(exc, (KeyboardInterrupt, SystemExit)):
            raise
        return K.err_kind(exc)


def effective_flags(world, op):
    if op["entry"] in FREE_FLAG_ENTRIES and op["what"] == "configuration":
        return op["flags"]
    if op["entry"] == "node":
        return world.fixed_flags("node", op["what"], raw=op["flags"]["raw"])
    if op["entry"] == "conf" and op["what"] == "references":
        return world.fixed_flags("conf", "references", raw=op["flags"]["raw"])
    return world.fixed_flags(op["entry"], op["what"])


def do_view(world, op, keep):
    """one read of a modelled view on the real objects"""
    e, what, i, n = op["entry"], op["what"], op["stage"], op["name"]
    name = node_name(i, n)
    f = op.get("flags") or {}
    if e in ("spec", "specSibling"):
        spec = world.spec(i, n, sibling=(e == "specSibling"))
        attr = {"configuration": "configuration", "command": "commandDetails", "resourceRequest": "resourceRequest",
                "resourceManager": "resourceManager", "executors": "executors",
                "workflowAttributes": "workflowAttributes", "variables": "customAttributes",
                "references": "rawDataReferences"}[what]
        return wrap(lambda: getattr(spec, attr), keep)
    if e == "job":
        job = world.job(i, n)
        attr = {"configuration": "flowir_description", "workflowAttributes": "workflowAttributes",
                "resourceRequest": "resourceRequest", "resourceManager": "resourceManager", "executors": "executors",
                "variables": "customAttributes", "type": "type", "isRepeat": "isRepeat"}[what]
        return wrap(lambda: getattr(job, attr), keep)
    if e == "node":
        node = world.wg.graph.nodes[name]
        return wrap(lambda: node["getConfiguration"](f["raw"]), keep)
    if e == "graph":
        if what == "references":
            return wrap(lambda: world.wg.dataReferencesForNode(name), keep)
        return wrap(lambda: world.wg.configurationForNode(name, raw=f["raw"], omitDefault=not f["incl"],
                                                          is_primitive=f["prim"], inject_missing_fields=f["inject"]), keep)
    if e == "conf":
        if what == "references":
            return wrap(lambda: world.conf.dataReferencesForNode(name, raw=f["raw"]), keep)
        return wrap(lambda: world.conf.configurationForNode(name, raw=f["raw"], omitDefault=not f["incl"],
                                                            is_primitive=f["prim"], inject_missing_fields=f["inject"]), keep)
    if e == "concrete":
        return wrap(lambda: world.conc.get_component_configuration((i, n), **K.flag_kwargs(f)), keep)
    raise ValueError(e)


def do_opaque(wg, op, keep):
    """a read whose answer is not modelled, on the graph `wg` (the live one, or one rebuilt from scratch)"""
    what, i, n = op["what"], op["stage"], op["name"]
    name = node_name(i, n)
    node = wg.graph.nodes[name]
    spec = node["componentSpecification"]
    if what == "environment":
        return wrap(lambda: spec.environment, keep)
    if what == "commandLine":
        return wrap(lambda: spec.command.commandLine, keep)
    if what == "getEnvironment":
        return wrap(lambda: node["getEnvironment"](), keep)
    if what == "isReplicating":
        return wrap(lambda: spec.isReplicating, keep)
    if what == "isAggregating":
        return wrap(lambda: spec.isAggregating, keep)
    raise ValueError(what)


def do_update(world, op, apply_concrete):
    """one update through the object `entry`"""
    e, u = op["entry"], op["u"]
    if e == "concrete":
        return apply_concrete(world.conc, u)
    i, n = u["stage"], u["name"]
    name = node_name(i, n)
    value = copy.deepcopy(u.get("value"))
    setting = u["op"] == "setOption"
    try:
        if e in ("spec", "specSibling"):
            spec = world.spec(i, n, sibling=(e == "specSibling"))
            spec.setOption(u["route"], value) if setting else spec.removeOption(u["route"])
        elif e == "node":
            world.wg.graph.nodes[name]["setOption"](u["route"], value)
        elif e == "graph":
            world.wg.setOptionForNode(name, u["route"], value) if setting else world.wg.removeOptionForNode(name, u["route"])
        elif e == "conf":
            (world.conf.setOptionForNode(name, u["route"], value) if setting
             else world.conf.removeOptionForNode(name, u["route"]))
        elif e == "job":
            job = world.job(i, n)
            if op.get("alt"):
                job.options_modify(u["route"], value) if setting else job.options_remove(u["route"])
            else:
                job.setOption(u["route"], value) if setting else job.removeOption(u["route"])
        else:
            raise ValueError(e)
        return {"ok": None}
    except BaseException as exc:
        if isinstance(exc, (KeyboardInterrupt, SystemExit)):
            raise
        return K.err_kind(exc)


def sweep_ops(world, opaque):
    """every object asked about every node: all section views of the ComponentSpecifications / Jobs, the whole
    configuration through everything else"""
    out = []
    std = None
    for (i, n) in NODES:
        for e in world.entries():
            if e == "spec":
                whats = SPEC_VIEWS
            elif e == "specSibling":
                whats = ["configuration", "command", "variables", "workflowAttributes"]
            elif e == "job":
                whats = ["configuration", "resourceManager", "variables", "type", "isRepeat"]
            elif e in ("graph", "conf"):
                whats = ["configuration", "references"]
            else:
                whats = ["configuration"]
            for w in whats:
                flags = world.fixed_flags("spec", w) if e in FREE_FLAG_ENTRIES or e == "node" else None
                out.append({"op": "view", "entry": e, "what": w, "stage": i, "name": n, "flags": flags})
        if opaque:
            for w in ("environment", "isReplicating"):
                out.append({"op": "opaque", "what": w, "stage": i, "name": n})
    return out
