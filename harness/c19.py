"""C19 — The legacy configuration format round-trips an instance.

Implementation under test (real code, in-process), exactly the path of DOSINIExperimentConfiguration / tests:
    FlowIRConcrete(doc, platform, {}).instance(...)                    the instance description that is written
    Dosini.dump(inst, dir, update_existing=True, is_instance=True)     (+ _dump_status/_dump_output, as conf dirs carry them)
    Dosini.load_from_directory(dir, [], {}, is_instance=True)          loaded again
    FlowIRConcrete(loaded, 'default', {})                              versus FlowIRConcrete(inst, 'default', {})
and, for descriptions of the default platform, the package file set as well:
    Dosini.dump(inst, dir, update_existing=True, is_instance=False)    (writes status.conf / output.conf itself)
    Dosini.load_from_directory(dir, [], {}, is_instance=False)
Histories on ONE configuration directory: 2-3 descriptions (a workflow, then the same workflow without its last stages /
another shorter or longer workflow) are written one after the other with dump(update_existing=True) - what
DOSINIExperimentConfiguration does on every load that may update the files - as instance files, as package files or
alternating; then the flavour written last is loaded and must be the description written last.
One process: the first cases of a run (among them components that carry VARIABLES named like options of a backend -
Dosini.options_for_backend names that are not legacy keys, e.g. the simulator's sim_* - on components of that backend and of
another one) are read again at the very end, in reverse order, after all other cases: identical answers
(`result-depends-on-earlier-cases`).
Executors: workflows whose components carry EVERY subset of the executor fields the format has a key for (stage-in
without stage-out, stage-out without stage-in, both, none, with and without the docker executor and each of its options),
written as instance files, as package files and through experiment.model.conf (configurationForExperiment(...,
createInstanceFiles=True) writes the instance files, configurationForExperiment(..., is_instance=True) loads them).
If the tables cannot be extracted from the source (gen_c19.tables_safe().errors) or the Lean build fails, the model is
absent (ctx.model -> None): implementation + oracle still run, the verdict names what no longer checks.
Oracle (straight from the property text): for every component the resolved configuration
(get_component_configuration(raw=False, include_default=True): all options, references, variables) is equal,
and environments, status and output sections are equal.
Model: lean/St4sd/Model/Ini.lean + generated tables (harness/gen_c19.py) via drv-c19: for every component of
the instance `Dosini._flowir_component_to_dict` and `Dosini.parse_component` are compared with the model's
dumpSection / parseSection; the parse side is also probed key by key.  lean/St4sd/Model/IniNames.lean: names packed
into the syntax of the files.  lean/St4sd/Model/IniFloat.lean: numbers written as text (stage weights and the other
fields of a status section): the text `_dump_status` puts on disk and the float `parse_status` returns are compared
with printWeight / parseWeight on the number's literal (repr), exactly.  lean/St4sd/Model/IniProc.lean: the reader as a
process (the sections of a case parsed in turn by the real parse_component == parseSeq; the answer of
known_flowir_options() afterwards == the model state).  lean/St4sd/Model/IniDir.lean: the stage files of both flavours in
stages.d after every write of a history and the stages a load discovers.
"""
from __future__ import annotations

import copy
import json
import logging
import os
import shutil
import tempfile

from harness import gen_c19
from harness.common import shrink_list

PLAT = "p1"
EXIT_REASONS = ["Success", "KnownIssue", "SystemIssue", "SubmissionFailed", "UnknownIssue", "Killed", "Cancelled",
                "ResourceExhausted"]
HOOK_REASONS = [r for r in EXIT_REASONS if r not in ("Killed", "Cancelled")]
# global variables every generated workflow defines (typed options may refer to them)
BASE_GVARS = {"gInt": "4", "GBool": "false", "gFlt": "2.5", "gStr": "text", "Gq-1": "batch", "gMem": "64Mi",
              "g_U-2-x": "dashed"}
# Names: the legacy format encodes names into section names (ENV-<NAME>, STAGE<i>, [component], [output]), file names
# (stage<i>.instance.conf), comma lists (stages = stage0,stage1) and option keys (variables).  Every pool stresses the
# characters that this syntax itself uses: '-' '_' '.' digits, mixed case, repeated / leading / trailing delimiters,
# names that contain a reserved word of the format (ENV-, stage<i>, DEFAULT, environment).
VAR_POOL = ["foo", "Bar", "zeta9", "OMEGA", "my_var", "T-1", "x_y", "Kappa", "lam", "PhiPsi", "uu7", "W",
            "a.b", "V-a-b", "dotted.name-1", "UPPER_CASE", "camelCase9", "9start", "-lead", "x--y", "_u", "tail-", "stage0"]
ENV_NAMES = ["myenv", "Gnu", "e2"]          # names of earlier versions (corpus / replay files refer to them)
ENV_NAME_POOL = ENV_NAMES + ["hpc-python", "my-venv-gpu", "py_3.9", "A.b-c_d", "env-x", "x--y", "ENV-inner", "env", "9",
                             "e.n.v", "UPPER-CASE", "a-1-b_2.c", "-lead", "tail-", "environment", "stage0", "E", "env_",
                             "-", "a-", "Default-env"]
ENV_VARS = ["PATH", "LD_LIBRARY_PATH", "OMP_NUM_THREADS", "myLower", "Mixed_Case", "DEFAULTS", "MY-VAR", "A.B",
            "lower_case9", "ENV-X"]
COMP_NAME_POOL = ["Comp", "run", "Gen_x", "a-b", "c.d", "A-b-c", "x_1-y.z", "UPPER", "9lives", "-lead", ".dot", "tail-",
                  "n--m", "stage1", "a.b.c", "ENV-c", "Default-c", "c_", "stage0.x", "metadata"]
OUTPUT_NAME_POOL = ["Result", "energies", "Out_2", "out-put-1", "a.b", "UPPER-x", "9", "stage0", "ENV-o", "o--p_.q"]
PLATFORM_POOL = ["p1", "hpc-lsf", "my_plat.2", "P-3"]
APPDEP_POOL = ["my-app_1.application", "A.b-c.application", "x.application"]
VENV_POOL = ["venv-3.9", "my_venv", "V.e-n_v"]


def _imports():
    import experiment.model.frontends.flowir as F
    import experiment.model.frontends.dosini as D
    return F, D


# ----------------------------------------------------------------------------------------
# type-directed option catalogue (hand written from FlowIR.type_flowir_component; independent of the model)
# ----------------------------------------------------------------------------------------

def g_word(rng):
    alpha = "abcdefghijklmnopqrstuvwxyzABCDEFGHIJKLMNOPQRSTUVWXYZ0123456789"
    return "".join(rng.choice(alpha) for _ in range(rng.randint(1, 7)))


def g_text(rng, refs=True):
    """safe-string class: printable ASCII, no '%' other than %(name)s, no leading/trailing blank, no newline"""
    parts = []
    for _ in range(rng.randint(1, 4)):
        k = rng.random()
        if k < 0.5:
            parts.append(g_word(rng))
        elif k < 0.65 and refs:
            parts.append("%%(%s)s" % rng.choice(list(BASE_GVARS)))
        elif k < 0.8:
            parts.append(rng.choice(["-x", "--opt=1", "a:b", "/usr/bin", "$HOME", "${X}", "\"q r\"", "'s'", "#c", ";d",
                                     "[x]", "k=v", "a,b", "*.txt", "~", "\\n", "(p)", "<in", "|", "&&", "!"]))
        else:
            parts.append(g_word(rng))
    return rng.choice([" ", " ", "", "  ", "\t"]).join(parts).strip() or "w"


def g_int(rng):
    return rng.choice([1, 2, 3, 4, 7, 16, 128, rng.randint(0, 100000), rng.choice(BIG_INTS)])


# numbers whose text needs more than the two decimals of ordinary packages: 3-17 fraction digits, exponent
# notation (repr switches at 1e-4 and 1e16), integers stored as floats, the ends of the float range, sums that are
# not representable (0.1 + 0.2), integers beyond 2**53 (exact only as int)
SPECIAL_FLOATS = [0.005, 0.075, 0.125, 0.001, 0.333, 0.334, 1 / 3.0, 2 / 3.0, 0.1 + 0.2, 0.1, 0.7, 0.01, 0.04, 0.95, 0.25,
                  1e-05, 1.5e-07, 0.0001, 9.999e-05, 1e+16, 9999999999999998.0, 1.7976931348623157e+308, 5e-324,
                  2.2250738585072014e-308, 1.0, 100.0, 0.0, 123456789.125, 0.1234567890123456, 1e+22, 1e+23,
                  9007199254740994.0, 0.9999999999999999, 1.0000000000000002, 12345.678, 60.0, 2.25]
BIG_INTS = [2 ** 31, 2 ** 53 + 1, 10 ** 18, 12345678901234567890]


def g_decimals(rng, k=None):
    """a float with exactly k (1-17) significant fraction digits"""
    k = k or rng.randint(1, 17)
    n = rng.randint(1, 10 ** k - 1)
    if n % 10 == 0:
        n += 1
    return float("0.%0*d" % (k, n))


def g_float(rng):
    return rng.choice([0.5, 1.0, 2.25, 60.0, 1e-05, 12345.678, 1e+16, 0.1, rng.randint(1, 999) / 8.0, rng.random(),
                       rng.randint(1, 500), rng.choice(SPECIAL_FLOATS), g_decimals(rng), g_decimals(rng, rng.randint(3, 9)),
                       rng.random() * 10.0 ** rng.randint(-12, 20)])


def g_number_text(rng):
    """texts that look like numbers (kept as text by every section of the format)"""
    return rng.choice(["1e-05", "0.30000000000000004", "007", "1.0", "100.0", "0.005", "1E5", "+3", ".5", "5.", "0x10",
                       repr(g_decimals(rng)), str(rng.choice(BIG_INTS))])


def g_bool(rng):
    return rng.random() < 0.5


def or_ref(gen, var, p=0.12):
    def f(rng):
        return "%%(%s)s" % var if rng.random() < p else gen(rng)
    return f


def g_reasons(pool, allow_empty):
    def f(rng):
        n = rng.randint(0 if allow_empty and rng.random() < 0.15 else 1, 3)
        return rng.sample(pool, n)
    return f


def g_mem(rng):
    return rng.choice([rng.randint(1, 10 ** 10), "%dMi" % rng.randint(1, 4096), "%dGi" % rng.randint(1, 64), "%(gMem)s"])


def choice(*xs):
    return lambda rng: rng.choice(xs)


CATALOGUE = [
    (("command", "executable"), lambda rng: rng.choice(["ls", "bin/run.sh", "/usr/bin/env", "%(gStr)s/exe", g_word(rng)])),
    (("command", "arguments"), g_text),
    (("command", "environment"), lambda rng: rng.choice(ENV_NAMES)),
    (("command", "resolvePath"), or_ref(g_bool, "GBool")),
    (("command", "expandArguments"), choice("double-quote", "none")),
    (("workflowAttributes", "restartHookFile"), choice("hook.py", "my_restart.py", "r-2.py")),
    (("workflowAttributes", "aggregate"), g_bool),
    (("workflowAttributes", "replicate"), or_ref(lambda rng: rng.randint(1, 5), "gInt")),
    (("workflowAttributes", "isMigratable"), g_bool),
    (("workflowAttributes", "repeatInterval"), g_float),
    (("workflowAttributes", "repeatRetries"), or_ref(g_int, "gInt")),
    (("workflowAttributes", "maxRestarts"), lambda rng: rng.choice([-1, 0, 1, 2, 5, 10])),
    (("workflowAttributes", "shutdownOn"), g_reasons(EXIT_REASONS, True)),
    (("workflowAttributes", "restartHookOn"), g_reasons(HOOK_REASONS, True)),
    (("workflowAttributes", "memoization", "disable", "strong"), or_ref(g_bool, "GBool")),
    (("workflowAttributes", "memoization", "disable", "fuzzy"), or_ref(g_bool, "GBool")),
    (("workflowAttributes", "memoization", "embeddingFunction"), lambda rng: g_text(rng, refs=False)),
    (("workflowAttributes", "optimizer", "disable"), g_bool),
    (("workflowAttributes", "optimizer", "exploitChance"), lambda rng: rng.random()),
    (("workflowAttributes", "optimizer", "exploitTarget"), lambda rng: rng.random()),
    (("workflowAttributes", "optimizer", "exploitTargetLow"), lambda rng: rng.random()),
    (("workflowAttributes", "optimizer", "exploitTargetHigh"), lambda rng: rng.random()),
    (("resourceManager", "config", "backend"), choice("local", "lsf", "kubernetes", "docker", "simulator", "%(gStr)s")),
    (("resourceManager", "config", "walltime"), or_ref(g_float, "gFlt")),
    (("resourceManager", "lsf", "statusRequestInterval"), or_ref(g_float, "gFlt")),
    (("resourceManager", "lsf", "queue"), lambda rng: rng.choice(["normal", "%(Gq-1)s", g_word(rng)])),
    (("resourceManager", "lsf", "reservation"), lambda rng: rng.choice(["", g_word(rng)])),
    (("resourceManager", "lsf", "resourceString"), lambda rng: rng.choice(["select[hname!=a]", "rusage[ngpus_physical=4.00]", g_text(rng)])),
    (("resourceManager", "lsf", "dockerImage"), lambda rng: "reg.io/%s:%s" % (g_word(rng), g_word(rng))),
    (("resourceManager", "lsf", "dockerProfileApp"), g_word),
    (("resourceManager", "lsf", "dockerOptions"), g_text),
    (("resourceManager", "kubernetes", "image"), lambda rng: "quay.io/%s/%s@sha256:%s" % (g_word(rng), g_word(rng), g_word(rng))),
    (("resourceManager", "kubernetes", "image-pull-secret"), g_word),
    (("resourceManager", "kubernetes", "namespace"), g_word),
    (("resourceManager", "kubernetes", "api-key-var"), g_word),
    (("resourceManager", "kubernetes", "host"), lambda rng: "https://%s:%d" % (g_word(rng), rng.randint(1, 65535))),
    (("resourceManager", "kubernetes", "cpuUnitsPerCore"), or_ref(g_float, "gFlt")),
    (("resourceManager", "kubernetes", "gracePeriod"), or_ref(g_int, "gInt")),
    (("resourceRequest", "numberProcesses"), or_ref(g_int, "gInt")),
    (("resourceRequest", "numberThreads"), or_ref(g_int, "gInt")),
    (("resourceRequest", "ranksPerNode"), or_ref(g_int, "gInt")),
    (("resourceRequest", "threadsPerCore"), or_ref(g_int, "gInt")),
    (("resourceRequest", "memory"), g_mem),
    (("executors", "pre", "lsf-dm-in", "payload"), lambda rng: rng.choice(["all", g_text(rng)])),
    (("executors", "post", "lsf-dm-out", "payload"), lambda rng: rng.choice(["all", g_text(rng)])),
    (("executors", "main", "docker", "docker-image"), g_word),
    (("executors", "main", "docker", "docker-args"), g_text),
]
CAT_PATHS = [p for p, _ in CATALOGUE]
# FlowIR options that have no key in the legacy format (pinned by theorem `options_without_legacy_key`): never generated
BLUEPRINTABLE = [p for p in CAT_PATHS if p[0] != "executors"]


def set_path(comp, path, value):
    if path[0] == "executors":
        _, stage, name, field = path
        lst = comp.setdefault("executors", {}).setdefault(stage, [])
        for e in lst:
            if e.get("name") == name:
                e[field] = value
                return
        lst.append({"name": name, field: value})
        return
    d = comp
    for seg in path[:-1]:
        d = d.setdefault(seg, {})
    d[path[-1]] = value


def build_doc(spec):
    comps = []
    for c in spec["comps"]:
        comp = {"name": c["name"], "stage": c["stage"]}
        for path, value in c["opts"]:
            set_path(comp, tuple(path), copy.deepcopy(value))
        if c.get("interpreter"):
            comp.setdefault("command", {})["interpreter"] = c["interpreter"]
            comp["command"].pop("executable", None)
            comp["command"]["arguments"] = c.get("iargs", "echo hi")
        elif "executable" not in comp.get("command", {}) and not spec.get("bp_has_exe"):
            comp.setdefault("command", {})["executable"] = "ls"
        if c.get("refs") is not None:
            comp["references"] = list(c["refs"])
        if c.get("vars"):
            comp["variables"] = dict(c["vars"])
        comps.append(comp)

    def bp(pairs):
        d = {}
        for path, value in pairs:
            set_path(d, tuple(path), copy.deepcopy(value))
        return d

    doc = {"components": comps}
    variables = {"default": {"global": dict(BASE_GVARS, **spec.get("gvars", {})),
                             "stages": {int(k): dict(v) for k, v in spec.get("svars", {}).items()}}}
    blueprint = {"default": {"global": bp(spec.get("bp_global", [])),
                             "stages": {int(k): bp(v) for k, v in spec.get("bp_stage", {}).items()}}}
    envs = {"default": {k: dict(v) for k, v in spec.get("envs", {}).items()}}
    plat = spec.get("platform", "default")
    if plat != "default":
        variables[plat] = {"global": dict(spec.get("pgvars", {})),
                           "stages": {int(k): dict(v) for k, v in spec.get("psvars", {}).items()}}
        blueprint[plat] = {"global": bp(spec.get("pbp_global", []))}
        envs[plat] = {k: dict(v) for k, v in spec.get("penvs", {}).items()}
        doc["platforms"] = ["default", plat]
    doc["variables"] = variables
    doc["blueprint"] = blueprint
    doc["environments"] = envs
    if spec.get("status"):
        doc["status-report"] = {int(k): dict(v) for k, v in spec["status"].items()}
    if spec.get("output"):
        doc["output"] = copy.deepcopy(spec["output"])
    if spec.get("appdeps"):
        doc["application-dependencies"] = {"default": list(spec["appdeps"])}
    if spec.get("venvs"):
        doc["virtual-environments"] = {"default": list(spec["venvs"])}
    return doc


# ----------------------------------------------------------------------------------------
# canonical forms
# ----------------------------------------------------------------------------------------

def canon_scalar(v):
    if isinstance(v, bool) or v is None or isinstance(v, str):
        return v
    if isinstance(v, int):
        return "num:%d" % v                 # exact, also beyond 2**53
    if isinstance(v, float):
        if v == v and abs(v) < 2.0 ** 63 and v.is_integer():
            return "num:%d" % int(v)        # 33 == 33.0 in the resolved configuration
        return "num:" + repr(v)             # float repr round trip: equal text <=> equal float
    return repr(v)


def flat_config(conf):
    """resolved configuration -> {dotted path: canonical value}; variables compared as text (the legacy
    format stores text; variables are only ever interpolated into text)"""
    out = {}

    def walk(prefix, v):
        if isinstance(v, dict):
            for k in v:
                walk(prefix + [str(k)], v[k])
        elif isinstance(v, (list, tuple)):
            if prefix and prefix[0] == "executors":
                for e in v:
                    name = e.get("name", "?")
                    for k in e:
                        if k != "name":
                            out[".".join(prefix + [name, k])] = canon_scalar(e[k])
            else:
                out[".".join(prefix)] = [canon_scalar(e) for e in v]
        else:
            if prefix and prefix[0] == "variables":
                out[".".join(prefix)] = None if v is None else str(v)
            else:
                out[".".join(prefix)] = canon_scalar(v)
    walk([], conf)
    return out


def canon_section(d):
    """status / output / environment sections: {name: {key: value}}; an absent key and None/[] are the same"""
    out = {}
    for name in d or {}:
        sec = {}
        for k, v in (d[name] or {}).items():
            if v is None or v == []:
                continue
            sec[str(k)] = [canon_scalar(e) for e in v] if isinstance(v, list) else canon_scalar(v)
        out[str(name).lower()] = sec
    return out


def canon_envs(d):
    return {str(n).lower(): {str(k): (None if v is None else str(v)) for k, v in (e or {}).items()} for n, e in (d or {}).items()}


# ----------------------------------------------------------------------------------------
# real code driver
# ----------------------------------------------------------------------------------------

def make_instance(spec):
    F, D = _imports()
    c = F.FlowIRConcrete(build_doc(spec), spec.get("platform", "default"), {})
    if spec.get("mode", "conf") == "conf":      # arguments of DOSINIExperimentConfiguration.__init__
        inst = c.instance(ignore_errors=True, inject_missing_fields=False, fill_in_all=False, is_primitive=True)
    else:                                       # arguments of tests/test_dosini.py::test_dump_instance
        inst = c.instance(ignore_errors=True, fill_in_all=False)
    return inst


def _write(dos, inst, d, is_instance):
    """one write of the description `inst` into the configuration directory d (which may hold earlier writes)"""
    dos.dump(copy.deepcopy(inst), d, update_existing=True, is_instance=is_instance)
    if is_instance:
        # status.conf / output.conf are package files that an instance directory carries along (the instance writer
        # does not touch them): they are those of the package of the description being written
        for fn in ("status.conf", "output.conf"):
            if os.path.exists(os.path.join(d, fn)):
                os.remove(os.path.join(d, fn))
        dos._dump_status(copy.deepcopy(inst), d)
        dos._dump_output(copy.deepcopy(inst), d)


def _load(dos, d, spec, is_instance, prefix):
    """load_from_directory + the canonical observations of the loaded description"""
    F, D = _imports()
    try:
        errs = []
        new = dos.load_from_directory(d, [], {}, is_instance=is_instance, out_errors=errs)
        c2 = F.FlowIRConcrete(new, "default", {})
    except Exception as exc:
        return {"error": prefix + "reload-raises:" + type(exc).__name__, "message": str(exc)[:300]}
    loaded = {"comps": {}, "load_errors": sorted("%s: %s" % (type(e).__name__, str(e)[:120]) for e in errs)}
    ids2 = sorted(c2.get_component_identifiers(True))
    for cid in ids2:
        try:
            loaded["comps"]["stage%d.%s" % cid] = flat_config(c2.get_component_configuration(
                cid, raw=False, include_default=True, is_primitive=True))
        except Exception as exc:
            loaded["comps"]["stage%d.%s" % cid] = {"<raises>": "%s: %s" % (type(exc).__name__, str(exc)[:200])}
    loaded["envs"] = canon_envs(c2.get_environments())
    loaded["status"] = canon_section(c2.get_status())
    loaded["output"] = canon_section(c2.get_output())
    if spec.get("replicate"):
        try:
            r2 = F.FlowIRConcrete(c2.replicate(), "default", {})
            loaded["replicated"] = {"stage%d.%s" % cid: flat_config(r2.get_component_configuration(
                cid, raw=False, include_default=True)) for cid in sorted(r2.get_component_identifiers(True))}
        except Exception as exc:
            loaded["replicated"] = {"<raises>": "%s: %s" % (type(exc).__name__, str(exc)[:200])}
    return {"loaded": loaded}


def _dump_and_load(inst, spec, workdir, files):
    """one write -> load of the instance description `inst`; files = 'instance' (conf/ of an instance directory:
    dump(is_instance=True) + status.conf/output.conf, load_from_directory(is_instance=True)) or 'package'
    (dump(is_instance=False), which writes status.conf/output.conf itself, load_from_directory(is_instance=False)).
    -> dict(loaded=...) | dict(error=..., message=...)"""
    F, D = _imports()
    is_instance = files == "instance"
    prefix = "" if is_instance else "package-files:"
    d = tempfile.mkdtemp(prefix="case-", dir=workdir)
    try:
        dos = D.Dosini()
        try:
            _write(dos, inst, d, is_instance)
        except Exception as exc:
            return {"error": prefix + "dump-raises:" + type(exc).__name__, "message": str(exc)[:300]}
        return _load(dos, d, spec, is_instance, prefix)
    finally:
        shutil.rmtree(d, ignore_errors=True)


def observe_written(inst, spec):
    """the canonical observations of the description that is written"""
    F, D = _imports()
    c1 = F.FlowIRConcrete(copy.deepcopy(inst), "default", {})
    ids = sorted(c1.get_component_identifiers(True))
    written = {"comps": {}, "inst": inst}
    for cid in ids:
        written["comps"]["stage%d.%s" % cid] = flat_config(c1.get_component_configuration(
            cid, raw=False, include_default=True, is_primitive=True))
    written["envs"] = canon_envs(c1.get_environments())
    written["status"] = canon_section(c1.get_status())
    written["output"] = canon_section(c1.get_output())
    if spec.get("replicate"):
        r1 = F.FlowIRConcrete(c1.replicate(), "default", {})
        written["replicated"] = {"stage%d.%s" % cid: flat_config(r1.get_component_configuration(
            cid, raw=False, include_default=True)) for cid in sorted(r1.get_component_identifiers(True))}
    return written


def stage_files(d):
    """stage indices of the stage files of both flavours in d/stages.d"""
    out = {"inst": [], "pkg": []}
    sd = os.path.join(d, "stages.d")
    for fn in sorted(os.listdir(sd)) if os.path.isdir(sd) else []:
        if fn.startswith("stage") and fn.endswith(".instance.conf"):
            out["inst"].append(int(fn[5:-len(".instance.conf")]))
        elif fn.startswith("stage") and fn.endswith(".conf"):
            out["pkg"].append(int(fn[5:-len(".conf")]))
    return {k: sorted(v) for k, v in out.items()}


def history_roundtrip(hist, workdir):
    """hist = {"files": "instance" | "package" | "both", "specs": [spec, ...]}: every description is written into ONE
    configuration directory, one after the other, the way DOSINIExperimentConfiguration does on every load that may update
    the files (dump(update_existing=True): clean up, then regenerate); for "both" the flavours alternate.  Then the
    flavour written last is loaded.  -> dict(written=<last description>, loaded=... | error=..., listings=[...])"""
    F, D = _imports()
    specs = hist["specs"]
    insts = []
    try:
        for sp in specs:
            insts.append(make_instance(sp))
        written = observe_written(insts[-1], specs[-1])
    except Exception as exc:
        return {"invalid": "%s: %s" % (type(exc).__name__, str(exc)[:300])}
    flavours = []
    for i in range(len(specs)):
        back = len(specs) - 1 - i
        flavours.append({"instance": True, "package": False}.get(hist["files"], back % 2 == 0))
    for inst, fl in zip(insts, flavours):
        if not fl and list(inst.get("platforms") or ["default"]) != ["default"]:
            return {"invalid": "package files of a description of another platform"}
    d = tempfile.mkdtemp(prefix="hist-", dir=workdir)
    res = {"written": written, "listings": [], "flavours": flavours}
    try:
        dos = D.Dosini()
        for inst, fl in zip(insts, flavours):
            try:
                _write(dos, inst, d, fl)
            except Exception as exc:
                res.update({"error": "dump-raises:" + type(exc).__name__, "message": str(exc)[:300]})
                return res
            res["listings"].append(stage_files(d))
        res.update(_load(dos, d, specs[-1], flavours[-1], ""))
        return res
    finally:
        shutil.rmtree(d, ignore_errors=True)


def roundtrip(spec, workdir):
    """-> dict(written=..., loaded=... [, package=dict(loaded=...)|dict(error=...)]) of canonical observations, or
    dict(invalid=...) / dict(written=..., error=...)"""
    F, D = _imports()
    try:
        inst = make_instance(spec)
        written = observe_written(inst, spec)
    except Exception as exc:  # the generated description itself is not a valid experiment: not a test of C19
        return {"invalid": "%s: %s" % (type(exc).__name__, str(exc)[:300])}
    res = {"written": written}
    res.update(_dump_and_load(inst, spec, workdir, "instance"))
    # the package file set (experiment.conf, stages.d/stage<i>.conf; Dosini.dump writes status.conf and output.conf
    # itself there).  Its writer addresses the per-platform sections of every name in `platforms`; an instance
    # description has folded them into 'default', so only descriptions of the default platform are written this way
    if "error" not in res and list(inst.get("platforms") or ["default"]) == ["default"]:
        res["package"] = _dump_and_load(inst, spec, workdir, "package")
    return res


# ----------------------------------------------------------------------------------------
# oracle
# ----------------------------------------------------------------------------------------

def _oracle_one(w, l, files):
    fails = []
    # l["load_errors"] (typo / missing-option diagnostics collected by the reader) are not consumed by
    # DOSINIExperimentConfiguration and are not part of the property: tagged only, see run_case
    for kind in ("comps", "replicated"):
        if kind not in w:
            continue
        lw, ll = w[kind], l.get(kind, {})
        if "<raises>" in ll:
            fails.append(("replication-of-reloaded-instance-raises", dict(ll, files=files)))
            continue
        for name in sorted(set(lw) | set(ll)):
            if name not in ll or name not in lw:
                fails.append(("component-set-differs", {"component": name, "written": name in lw, "loaded": name in ll,
                                                        "files": files}))
                continue
            a, b = lw[name], ll[name]
            if "<raises>" in b:
                fails.append(("resolving-reloaded-component-raises", {"component": name, "error": b["<raises>"], "files": files}))
                continue
            for path in sorted(set(a) | set(b)):
                va, vb = a.get(path), b.get(path)
                if va != vb:
                    slug = "variable-not-restored" if path.startswith("variables.") else "option-not-restored:" + path
                    fails.append((slug, {"component": name, "path": path, "written": va, "loaded": vb, "files": files,
                                         "after": "replication" if kind == "replicated" else "load"}))
    for sec, slug in (("envs", "environments-differ"), ("status", "status-section-differs"), ("output", "output-section-differs")):
        if w[sec] != l[sec]:
            fails.append((slug, {"written": w[sec], "loaded": l[sec], "files": files}))
    return fails


def oracle(res):
    """list of (slug, detail): model independent restatement of the property on the real observations (numbers are
    compared exactly: canon_scalar is the integer or the float repr)"""
    if "error" in res:
        return [(res["error"], {"message": res.get("message")})]
    fails = _oracle_one(res["written"], res["loaded"], "instance")
    pkg = res.get("package")
    if pkg is not None:
        if "error" in pkg:
            fails.append((pkg["error"], {"message": pkg.get("message"), "files": "package"}))
        else:
            seen = {slug for slug, _ in fails}
            fails += [(slug, d) for slug, d in _oracle_one(res["written"], pkg["loaded"], "package") if slug not in seen]
    return fails


def classify_empty_list_option(what, case, detail):
    """an explicitly EMPTY list-valued option (restartHookOn / shutdownOn) is written as `key = `, read as [] and
    removed by FlowIR.compress_flowir: the default (['ResourceExhausted'] for restartHookOn) or a blueprint value
    shows through again.  Only these two paths, only when the written value is the empty list."""
    return (what in ("option-not-restored:workflowAttributes.restartHookOn", "option-not-restored:workflowAttributes.shutdownOn")
            and isinstance(detail, dict) and detail.get("written") == [] and detail.get("loaded") not in ([], None))


CLASSIFIERS = {"c19_explicitly_empty_list_option": classify_empty_list_option}


# ----------------------------------------------------------------------------------------
# model side
# ----------------------------------------------------------------------------------------

def to_val(v):
    if v is None:
        return None
    if isinstance(v, bool):
        return {"b": v}
    if isinstance(v, int):
        return {"i": v}
    if isinstance(v, float):
        return {"f": repr(v)}
    if isinstance(v, str):
        return {"s": v}
    if isinstance(v, (list, tuple)):
        return {"w": [str(e) for e in v]}
    return {"s": repr(v)}


def canon_val(v):
    if isinstance(v, dict) and "f" in v:
        try:
            return {"f": repr(float(v["f"]))}
        except ValueError:
            return v
    return v


def flatten_component(comp):
    """FlowIR component dict -> [(path, python value)] (what the writer looks at)"""
    out = []
    for k in comp.get("variables", {}) or {}:
        out.append((["variables", k], comp["variables"][k]))
    if "references" in comp:
        out.append((["references"], list(comp["references"])))

    def walk(prefix, d):
        for k, v in d.items():
            if isinstance(v, dict):
                walk(prefix + [k], v)
            else:
                out.append((prefix + [k], v))
    for sect in ("command", "resourceManager", "resourceRequest", "workflowAttributes"):
        if isinstance(comp.get(sect), dict):
            walk([sect], comp[sect])
    ex = comp.get("executors") or {}
    for stage in ("pre", "main", "post"):
        seen = set()
        for e in ex.get(stage, []) or []:
            nm = e.get("name")
            if nm in seen:
                continue        # the writer uses the first executor of a name
            seen.add(nm)
            for k, v in e.items():
                if k != "name":
                    out.append((["executors", stage, nm, k], v))
    return out


def pairs_json(pairs):
    return sorted(({"p": list(p), "v": canon_val(to_val(v))} for p, v in pairs), key=lambda e: json.dumps(e["p"]))


def real_component_tables(comp):
    """real writer and reader on one component: (ini pairs, parsed pairs | None)"""
    F, D = _imports()
    import experiment.model.errors as E
    d = D.Dosini._flowir_component_to_dict(copy.deepcopy(comp))
    ini = {k: str(v) for k, v in d.items() if v is not None}
    try:
        back = D.Dosini.parse_component(dict(ini), comp.get("name", "X"), comp.get("stage", 0))
    except E.InvalidValueForConstant:
        return ini, None
    back.pop("name", None)
    back.pop("stage", None)
    return ini, flatten_component(back)


def model_requests_for(inst):
    reqs, comps = [], []
    for comp in inst["components"]:
        pairs = flatten_component(comp)
        # the writer tests `'references' in comp`, None values are filtered: send them as they are
        reqs.append({"op": "component", "opts": [{"p": p, "v": to_val(v)} for p, v in pairs]})
        comps.append(comp)
    return reqs, comps


def compare_tables(ctx, spec, inst):
    reqs, comps = model_requests_for(inst)
    outs = ctx.model(reqs)
    if outs is None:
        return
    inis, backs = [], []
    for comp, m in zip(comps, outs):
        label = {"spec": spec, "component": "stage%s.%s" % (comp.get("stage"), comp.get("name"))}
        try:
            ini, back = real_component_tables(comp)
        except Exception as exc:
            ctx.compare("writer/reader run on the component", label, {"ok": True}, {"raises": type(exc).__name__})
            continue
        ctx.compare("_flowir_component_to_dict == Ini.dumpSection", label,
                    sorted([e["k"], e["t"]] for e in m["ini"]), sorted([k, v] for k, v in ini.items()))
        mp = None if m["parsed"] is None else sorted(
            ({"p": e["p"], "v": canon_val(e["v"])} for e in m["parsed"]), key=lambda e: json.dumps(e["p"]))
        ctx.compare("parse_component == Ini.parseSection", label, mp, None if back is None else pairs_json(back))
        inis.append(ini)
        backs.append(None if back is None else pairs_json(back))
    # the reader as a process (Model/IniProc.lean): the sections of the case in the order they were read, each parsed in
    # the state the earlier ones (of this and of every earlier case of the run) left, and that state afterwards
    F, D = _imports()
    seq = ctx.model([{"op": "parse_seq", "sections": [[{"k": k, "t": v} for k, v in ini.items()] for ini in inis]}])
    if seq is not None and inis:
        label = {"spec": spec, "check": "sections of the case read in one process"}
        mp = [None if l is None else sorted(({"p": e["p"], "v": canon_val(e["v"])} for e in l),
                                            key=lambda e: json.dumps(e["p"])) for l in seq[0]["parsed"]]
        ctx.compare("parse_component on every section of the case in turn == IniProc.parseSeq", label, mp, backs)
        ctx.compare("known_flowir_options() after the sections read so far == IniProc state (the generated knownKeys)",
                    label, sorted(seq[0]["known"]), sorted(D.Dosini.known_flowir_options()))


PROBE_TEXTS = ["true", "No", "TRUE", "yes", "False", "%(Abc)s", "%(abc)s/x", "x%(a)s", "12", "-3", "+4", "007", "1.5",
               "1e3", ".5", "5.", "-2.5E-3", "abc", "", "a b  c", "a\tb", "2Gi", "10Mi", "5Ki", "3.0", "1e", "--1", "Mi",
               "%()s", "%(a", "12abc", "KnownIssue Killed"]


def probe_parse_side(ctx, t):
    F, D = _imports()
    import experiment.model.errors as E
    keys = sorted(set(t["known"]) | {k for k, _ in t["parse"]} | {"someVariable", "max_restarts"})
    reqs, cases = [], []
    for k in keys:
        for text in PROBE_TEXTS:
            reqs.append({"op": "parse", "ini": [{"k": k, "t": text}]})
            cases.append((k, text))
    outs = ctx.model(reqs)
    if outs is None:
        return
    for (k, text), m in zip(cases, outs):
        try:
            back = D.Dosini.parse_component({k: text}, "X", 0)
            back.pop("name")
            back.pop("stage")
            impl = pairs_json(flatten_component(back))
        except E.InvalidValueForConstant:
            impl = None
        mp = None if m["parsed"] is None else sorted(
            ({"p": e["p"], "v": canon_val(e["v"])} for e in m["parsed"]), key=lambda e: json.dumps(e["p"]))
        ctx.compare("parse_component({key: text}) == Ini.parsePair", {"key": k, "text": text}, mp, impl)
    ctx.tag("probe:parse-side", len(cases))


# ----------------------------------------------------------------------------------------
# names packed into the syntax of the files: ENV-<NAME> / STAGE<i> sections, `stages = stage0,stage1`, stage<i>.instance.conf
# ----------------------------------------------------------------------------------------

NAME_DELIMS = ["-", "_", ".", "7", "ENV-", "env-", "stage", "0"]


def probe_env_names(rng, quick):
    names = list(ENV_NAME_POOL)
    for d in NAME_DELIMS:
        names += ["a%sb" % d, "%sa" % d, "a%s" % d, "a%s%sb" % (d, d), "A%sb%sC" % (d, d), d]
    alpha = "abcxyzABCXYZ0189-_.-"
    for _ in range(40 if quick else 400):
        names.append("".join(rng.choice(alpha) for _ in range(rng.randint(1, 12))))
    out, seen = [], set()
    for n in names:
        if n and n.upper() != "SANDBOX" and n not in seen:     # SANDBOX is the reserved section of the format
            seen.add(n)
            out.append(n)
    return out


def real_env_name(name, workdir):
    """real writer and reader on an instance description that has the one environment `name`:
    (section names written, environment names loaded)"""
    F, D = _imports()
    flowir = {F.FlowIR.FieldEnvironments: {"default": {name: {"K": "v"}}},
              F.FlowIR.FieldApplicationDependencies: {}, F.FlowIR.FieldVirtualEnvironments: {}}
    path = os.path.join(workdir, "probe.experiment.conf")
    D.Dosini._dump_experiment_root_conf(flowir, path, update_existing=True)
    sections = D.environment_to_dict(path)
    back = D.Dosini.parse_environment_dicts({}, {"default": sections}, is_instance=True)
    return sorted(sections), sorted(back[F.FlowIR.FieldEnvironments]["default"])


def real_status_stage(i, workdir):
    F, D = _imports()
    D.Dosini._dump_status({F.FlowIR.FieldStatusReport: {i: {"stage-weight": 1.0}}}, workdir)
    d = D.dosini_to_dict(os.path.join(workdir, "status.conf"), [], consider_meta_as_section=True)
    sections = sorted(k for k in d if k not in ("DEFAULT", "META"))
    back = D.Dosini.parse_status({}, d)
    return sections, sorted(back[F.FlowIR.FieldStatusReport])


def real_output_stages(l, workdir):
    F, D = _imports()
    D.Dosini._dump_output({F.FlowIR.FieldOutput: {"o": {"data-in": "stage0.a/x:ref", "stages": list(l)}}}, workdir)
    d = D.dosini_to_dict(os.path.join(workdir, "output.conf"), [], consider_meta_as_section=True)
    back = D.Dosini.parse_output({}, d)
    return d["o"].get("stages"), list(back[F.FlowIR.FieldOutput]["o"]["stages"])


def real_stage_files(n, workdir):
    F, D = _imports()
    d = tempfile.mkdtemp(prefix="files-", dir=workdir)
    os.makedirs(os.path.join(d, "stages.d"))
    comps = [{"name": "c", "stage": i, "command": {"executable": "ls"}} for i in range(n)]
    D.Dosini._dump_components({F.FlowIR.FieldComponents: comps, F.FlowIR.FieldVariables: {}}, d, True, True)
    files = sorted(os.listdir(os.path.join(d, "stages.d")))
    back = D.Dosini._discover_stages(d, True)
    return files, {int(k): os.path.basename(v) for k, v in back.items()}


def _guard(fn, *a):
    try:
        return fn(*a), None
    except Exception as exc:  # noqa
        return None, "%s: %s" % (type(exc).__name__, str(exc)[:200])


def probe_names(ctx, workdir, only=None):
    """every encode/decode pair for names, real writer -> real reader (oracle) and against Model/IniNames (comparison)"""
    rng, quick = ctx.rng, ctx.tier == "quick"
    items = []
    if only is None:
        items += [{"probe": "environment-name", "name": n} for n in probe_env_names(rng, quick)]
        idx = list(range(0, 13)) + [19, 20, 99, 100, 101, 123, 1000, 4096]
        items += [{"probe": "status-stage", "i": i} for i in idx]
        lists = [[], [0], [10], [2, 10], [10, 2], list(range(13)), [101, 7, 1000], [9, 10, 11], [0, 0]]
        lists += [sorted(rng.sample(range(130), rng.randint(1, 6))) for _ in range(6)]
        items += [{"probe": "output-stages", "l": l} for l in lists]
        items += [{"probe": "stage-files", "n": n} for n in ([1, 12] if quick else [1, 10, 11, 12, 101, 112])]
    else:
        items = [only]
    reqs = []
    for it in items:
        if it["probe"] == "environment-name":
            reqs.append({"op": "env_name", "name": it["name"]})
        elif it["probe"] == "status-stage":
            reqs.append({"op": "stage_names", "i": it["i"]})
        elif it["probe"] == "output-stages":
            reqs.append({"op": "output_stages", "l": it["l"]})
        else:
            reqs.append({"op": "stage_names", "i": it["n"] - 1})
    mouts = ctx.model(reqs)
    for k, it in enumerate(items):
        m = None if mouts is None else mouts[k]
        kind = it["probe"]
        ctx.case(it, nontrivial=True, tags=["probe:" + kind])
        if kind == "environment-name":
            n = it["name"]
            for ch in ("-", "_", "."):
                if ch in n:
                    ctx.tag("environment-name-contains:" + ch)
            res, err = _guard(real_env_name, n, workdir)
            if err:
                ctx.fail("environment-name-write-or-load-raises", it, {"error": err})
                continue
            sections, back = res
            if [b.lower() for b in back] != [n.lower()]:
                ctx.fail("environment-name-not-restored", it, {"written": n, "sections": sections, "loaded": back})
            if m is not None:
                ctx.compare("section of an environment / name read back == IniNames.envSection / envName", it,
                            {"sections": [m["section"]], "back": [m["back"]]}, {"sections": sections, "back": back})
        elif kind == "status-stage":
            res, err = _guard(real_status_stage, it["i"], workdir)
            if err:
                ctx.fail("status-stage-write-or-load-raises", it, {"error": err})
                continue
            sections, back = res
            if back != [it["i"]]:
                ctx.fail("status-stage-index-not-restored", it, {"sections": sections, "loaded": back})
            if m is not None:
                ctx.compare("status section of a stage / index read back == IniNames.stageSection / stageIndex", it,
                            {"sections": [m["section"]], "back": [m["section_back"]]}, {"sections": sections, "back": back})
        elif kind == "output-stages":
            res, err = _guard(real_output_stages, it["l"], workdir)
            if err:
                ctx.fail("output-stages-write-or-load-raises", it, {"error": err})
                continue
            text, back = res
            if back != it["l"]:
                ctx.fail("output-stages-not-restored", it, {"text": text, "loaded": back})
            if m is not None:
                ctx.compare("stages text of an output / list read back == IniNames.outputStages / parseOutputStages", it,
                            {"text": m["text"], "back": m["back"]}, {"text": text or "", "back": back})
        else:
            res, err = _guard(real_stage_files, it["n"], workdir)
            if err:
                ctx.fail("stage-files-write-or-discover-raises", it, {"error": err})
                continue
            files, back = res
            if sorted(back) != list(range(it["n"])) or len(set(back.values())) != it["n"]:
                ctx.fail("stage-files-not-rediscovered", it, {"files": files[:20], "discovered": sorted(back)[:20]})
            if m is not None:   # the file of the last stage
                last = it["n"] - 1
                ctx.compare("file of the last stage / index read back == IniNames.stageFile / stageFileIndex", it,
                            {"file": m["file"], "present": True, "back": m["file_back"]},
                            {"file": back.get(last), "present": m["file"] in files, "back": last if last in back else None})
    if only is None:
        # reader alone on section spellings the writer does not produce (letter case, virtual sections, no prefix)
        texts = ["env-Mixed", "Env-a-b", "ENV-", "ENV-A", "SANDBOX", "Sandbox", "ENVIRONMENT", "environment", "ENVX", "other",
                 "EN", "ENV_X", "ENV-ENV-X"]
        F, D = _imports()
        mo = ctx.model([{"op": "env_section", "section": t} for t in texts])
        for t, m in zip(texts, mo or []):
            try:
                back = D.Dosini.parse_environment_dicts({}, {"default": {t: {"K": "v"}}}, is_instance=True)
                impl = sorted(back[F.FlowIR.FieldEnvironments]["default"])
                if t == "SANDBOX":
                    impl = ["<sandbox-consumed>"] if not impl else impl
            except Exception as exc:  # noqa
                impl = None
            mb = m["back"]
            if t == "SANDBOX" and mb is not None:
                mb = "<sandbox-consumed>"       # parse_environment_dicts then moves SANDBOX into other fields
            ctx.compare("parse_environment_dicts on one section == IniNames.envName", {"section": t},
                        None if mb is None else [mb], impl)
        ctx.tag("probe:environment-section-spellings", len(texts))


# ----------------------------------------------------------------------------------------
# numbers written as text: stage weights and the other fields of the status section, float / int options of a component
# ----------------------------------------------------------------------------------------

FLOAT_OPTION_PATHS = [("workflowAttributes", "repeatInterval"), ("workflowAttributes", "optimizer", "exploitChance"),
                      ("workflowAttributes", "optimizer", "exploitTarget"), ("workflowAttributes", "optimizer", "exploitTargetLow"),
                      ("workflowAttributes", "optimizer", "exploitTargetHigh"), ("resourceManager", "config", "walltime"),
                      ("resourceManager", "lsf", "statusRequestInterval"), ("resourceManager", "kubernetes", "cpuUnitsPerCore")]
INT_OPTION_PATHS = [("workflowAttributes", "repeatRetries"), ("workflowAttributes", "maxRestarts"),
                    ("workflowAttributes", "replicate"), ("resourceManager", "kubernetes", "gracePeriod"),
                    ("resourceRequest", "numberProcesses"), ("resourceRequest", "numberThreads"),
                    ("resourceRequest", "ranksPerNode"), ("resourceRequest", "threadsPerCore"), ("resourceRequest", "memory")]
# reader alone, on texts the writer does not produce (decimal literal grammar of float(); clearly invalid texts)
WEIGHT_TEXTS = ["1e5", "1E5", ".5", "5.", "+0.5", "-.5e-3", "007.50", "0e0", "1e+05", "0.3333333333333333", "12",
                "abc", "1e", "--1", "e5", ".", "+", "-", "1.2.3", "1e+", "0x10", "", "1,5", "0.5f"]


def lit(x):
    """the canonical literal of a number: what str(x) writes"""
    return repr(x)


def gen_weights(rng, n):
    """-> (family, [stage weight or None (no stage-weight key)]) for n stages"""
    fam = rng.choice(["percent", "decimals", "decimals", "decimals", "binary", "nth", "exponent", "long-repr", "fallback-thousandths",
                      "improper", "improper-missing", "int-and-float"])
    if fam == "percent" or (n == 1 and fam not in ("int-and-float", "improper", "improper-missing")):
        ws = [100 // n] * n
        ws[-1] += 100 - sum(ws)
        return fam, [w / 100.0 for w in ws]
    if fam == "decimals":       # proper sum, k decimals
        k = rng.randint(1, 9)
        cuts = sorted(rng.randint(0, 10 ** k) for _ in range(n - 1))
        parts = [b - a for a, b in zip([0] + cuts, cuts + [10 ** k])]
        return "decimals:%d" % k, [float("%d.%0*d" % (p // 10 ** k, k, p % 10 ** k)) for p in parts]
    if fam == "binary":         # 1/8, 1/64 ...: exact in binary, 3-10 decimals
        k = rng.randint(3, 10)
        cuts = sorted(rng.randint(0, 2 ** k) for _ in range(n - 1))
        return fam, [(b - a) / float(2 ** k) for a, b in zip([0] + cuts, cuts + [2 ** k])]
    if fam == "nth":            # 1/3, 1/7 ...: 16-17 significant digits
        return fam, [1.0 / n] * (n - 1) + [1.0 - (n - 1) * (1.0 / n)]
    if fam == "exponent":       # repr uses exponent notation below 1e-4
        small = rng.choice([1e-05, 2.5e-07, 1e-09, 9.999e-05])
        return fam, [small, 1.0 - small] + [0.0] * (n - 2)
    if fam == "long-repr":      # 0.1 + 0.2 and friends
        a = rng.choice([0.1 + 0.2, 0.1 + 0.7, 0.1 * 3])
        return fam, [a, 1.0 - a] + [0.0] * (n - 2)
    if fam == "fallback-thousandths":   # what FlowIR itself assigns for improper weights: 0.333 / 0.334
        fb = int(1000 / n) / 1000.0
        return fam, [fb] * (n - 1) + [(1000 - (n - 1) * int(1000 / n)) / 1000.0]
    if fam == "improper":       # FlowIR.instance() replaces them (by thousandths) before anything is written
        return fam, [rng.choice([rng.random(), g_decimals(rng), -0.5, 2.0]) for _ in range(n)]
    if fam == "improper-missing":
        return fam, [None if rng.random() < 0.5 else g_decimals(rng, rng.randint(1, 6)) for _ in range(n)]
    return fam, [1] + [0.0] * (n - 1)      # an integer weight


def gen_status_exe(rng, earlier):
    return {"executable": rng.choice(["echo", "bin/status.py", "/usr/bin/env"]), "arguments": rng.choice([g_text(rng), g_text(rng), "", g_number_text(rng)]),
            "references": gen_refs(rng, earlier)}


def real_status_section(status, workdir):
    """real writer -> files -> real reader on a bare status section {int stage: {key: value}}:
    ({section: {key: text}} as on disk, {stage: {key: value}} as loaded)"""
    F, D = _imports()
    d = tempfile.mkdtemp(prefix="status-", dir=workdir)
    try:
        D.Dosini._dump_status({F.FlowIR.FieldStatusReport: copy.deepcopy(status)}, d)
        disk = D.dosini_to_dict(os.path.join(d, "status.conf"), [], consider_meta_as_section=True)
        disk = {k: dict(v) for k, v in disk.items() if k not in ("DEFAULT", "META")}
        back = D.Dosini.parse_status({}, copy.deepcopy(disk))
        return disk, back[F.FlowIR.FieldStatusReport]
    finally:
        shutil.rmtree(d, ignore_errors=True)


def real_status_text(text):
    """reader alone: float accepted? its value"""
    F, D = _imports()
    import experiment.model.errors as E
    try:
        back = D.Dosini.parse_status({}, {"STAGE0": {"stage-weight": text}})
    except E.ExperimentInvalidConfigurationError:
        return {"accepted": False, "value": None}
    return {"accepted": True, "value": repr(float(back[F.FlowIR.FieldStatusReport][0]["stage-weight"]))}


def status_case_to_dict(stages):
    out = {}
    for st in stages:
        sec = {}
        if st.get("w") is not None:
            sec["stage-weight"] = st["w"]
        if st.get("exe"):
            sec.update(copy.deepcopy(st["exe"]))
        out[int(st["i"])] = sec
    return out


def number_probe_items(rng, quick):
    items = []
    floats = list(SPECIAL_FLOATS) + [-0.5, -1e-05, -123.456]
    for k in range(1, 18):
        floats += [g_decimals(rng, k) for _ in range(2 if quick else 12)]
    floats += [rng.random() * 10.0 ** rng.randint(-30, 30) for _ in range(20 if quick else 300)]
    floats += [rng.random() for _ in range(20 if quick else 300)]
    seen = set()
    for x in floats + [0, 1, 3, 10 ** 18]:
        if (type(x).__name__, repr(x)) not in seen:
            seen.add((type(x).__name__, repr(x)))
            items.append({"probe": "status-weight", "x": x})
    # whole status sections: weights of every family (proper and improper sums, missing weights), status scripts
    for _ in range(40 if quick else 400):
        n = rng.choice([1, 2, 3, 3, 4, 5, 7, 12])
        fam, ws = gen_weights(rng, n)
        idx = list(range(n)) if rng.random() < 0.8 else sorted(rng.sample(range(0, 130), n))
        stages = []
        for i, w in zip(idx, ws):
            st = {"i": i, "w": w}
            if rng.random() < 0.4:
                st["exe"] = gen_status_exe(rng, [(0, "a"), (1, "b-c"), (10, "d.e")])
            stages.append(st)
        items.append({"probe": "status-section", "family": fam, "stages": stages})
    for t in WEIGHT_TEXTS:
        items.append({"probe": "status-weight-text", "text": t})
    # float / int options of a component: real writer -> real reader per option
    for path in FLOAT_OPTION_PATHS:
        for x in rng.sample(floats, 12 if quick else 80) + [0.005, 0.125, 1e-05, 0.1 + 0.2, 1e+16, 100.0, 3]:
            if x >= 0:
                items.append({"probe": "number-option", "path": list(path), "x": x})
    for path in INT_OPTION_PATHS:
        for x in [0, 1, 7, 1000, 65536] + BIG_INTS:
            if not (path[-1] == "replicate" and x == 0):
                items.append({"probe": "number-option", "path": list(path), "x": x})
    return items


def probe_numbers(ctx, workdir, only=None):
    """every place where a NUMBER is written as text: real writer -> real reader (oracle: the same number comes back,
    exactly) and against Model/IniFloat (text on disk, literal read back)"""
    items = [only] if only is not None else number_probe_items(ctx.rng, ctx.tier == "quick")
    reqs = []
    for it in items:
        if it["probe"] == "status-weight":
            reqs.append({"op": "weight", "lit": lit(it["x"])})
        elif it["probe"] == "status-section":
            reqs.append({"op": "status", "stages": [{"i": st["i"], "w": None if st.get("w") is None else lit(st["w"]),
                                                     "exe": st.get("exe")} for st in it["stages"]]})
        elif it["probe"] == "status-weight-text":
            reqs.append({"op": "status_text", "sections": [{"name": "STAGE0", "lines": [{"k": "stage-weight", "t": it["text"]}]}]})
        else:
            reqs.append({"op": "component", "opts": [{"p": it["path"], "v": to_val(it["x"])}]})
    mouts = ctx.model(reqs)
    for k, it in enumerate(items):
        m = None if mouts is None else mouts[k]
        kind = it["probe"]
        tags = ["probe:" + kind]
        if kind == "status-weight":
            x = it["x"]
            text = lit(x)
            if "e" in text:
                tags.append("number:exponent-notation")
            if "." in text and "e" not in text:
                tags.append("number:fraction-digits:%s" % min(len(text.split(".")[1]), 17))
            ctx.case(it, nontrivial=True, tags=tags)
            res, err = _guard(real_status_section, {0: {"stage-weight": x}}, workdir)
            if err:
                ctx.fail("status-weight-write-or-load-raises", it, {"error": err})
                continue
            disk, back = res
            loaded = (back.get(0) or {}).get("stage-weight")
            if not isinstance(loaded, float) or canon_scalar(loaded) != canon_scalar(x):
                ctx.fail("status-weight-not-restored", it, {"written": canon_scalar(x), "text_on_disk": disk.get("STAGE0", {}).get("stage-weight"),
                                                            "loaded": canon_scalar(loaded)})
            if m is not None:
                ctx.compare("text of a stage weight on disk / float read back == IniFloat.printWeight / parseWeight", it,
                            {"parsed": m.get("parsed"), "canonical": m.get("canonical"), "text": m.get("text"), "same": m.get("same"),
                             "back": None if m.get("back") is None else repr(float(m["back"]))},
                            {"parsed": True, "canonical": True, "text": disk.get("STAGE0", {}).get("stage-weight"), "same": True,
                             "back": repr(float(loaded)) if isinstance(loaded, (int, float)) else None})
        elif kind == "status-section":
            ctx.case(it, nontrivial=True, tags=tags + ["weights:" + str(it.get("family", "?")).split(":")[0]])
            status = status_case_to_dict(it["stages"])
            res, err = _guard(real_status_section, status, workdir)
            if err:
                ctx.fail("status-section-write-or-load-raises", it, {"error": err})
                continue
            disk, back = res
            cw, cl = canon_section(status), canon_section(back)
            if cw != cl:
                diff = sorted(k for k in set(cw) | set(cl) if cw.get(k) != cl.get(k))
                ctx.fail("status-section-not-restored", it, {"stages": diff[:5], "written": {k: cw.get(k) for k in diff[:5]},
                                                             "loaded": {k: cl.get(k) for k in diff[:5]},
                                                             "on_disk": {("STAGE" + k): disk.get("STAGE" + k) for k in diff[:5]}})
            if m is not None:
                msec = sorted([sec["name"], sorted([l["k"], l["t"]] for l in sec["lines"])] for sec in m["sections"])
                isec = sorted([name, sorted([k, v] for k, v in kv.items())] for name, kv in disk.items())
                ctx.compare("status.conf sections on disk == IniFloat.dumpStatus", it, {"ok": m["ok"], "sections": msec},
                            {"ok": True, "sections": isec})
                mb = None if m["back"] is None else sorted(
                    [st["i"], None if st["w"] is None else repr(float(st["w"])),
                     None if st["exe"] is None else [st["exe"]["executable"], st["exe"]["arguments"], st["exe"]["references"]]]
                    for st in m["back"])
                ib = sorted([int(i), None if sec.get("stage-weight") is None else repr(float(sec["stage-weight"])),
                             None if "executable" not in sec else [sec["executable"], sec["arguments"], list(sec["references"])]]
                            for i, sec in back.items())
                ctx.compare("parse_status of the written sections == IniFloat.parseStatus", it, {"same": m["same"], "back": mb},
                            {"same": True, "back": ib})
        elif kind == "status-weight-text":
            ctx.case(it, nontrivial=True, tags=tags)
            res, err = _guard(real_status_text, it["text"])
            if err:
                res = {"accepted": None, "value": err}
            if m is not None:
                mb = m.get("back")
                ctx.compare("parse_status on one stage-weight text == IniFloat.parseWeight", it,
                            {"accepted": mb is not None, "value": None if mb is None else repr(float(mb[0]["w"]))}, res)
        else:
            x, path = it["x"], tuple(it["path"])
            ctx.case(it, nontrivial=True, tags=tags + ["opt:" + ".".join(path)])
            comp = {"name": "c", "stage": 0}
            set_path(comp, path, x)
            res, err = _guard(real_component_tables, comp)
            if err:
                ctx.fail("number-option-write-or-load-raises", it, {"error": err})
                continue
            ini, back = res
            got = [v for p, v in (back or []) if tuple(p) == path]
            want = canon_scalar(x)
            if path == ("resourceRequest", "memory"):     # the reader keeps the text of a memory request
                got = [int(v) if isinstance(v, str) and v.lstrip("-").isdigit() else v for v in got]
            if back is None or len(got) != 1 or isinstance(got[0], bool) or canon_scalar(got[0]) != want:
                ctx.fail("number-option-not-restored:" + ".".join(path), it,
                         {"written": want, "lines": ini, "loaded": [canon_scalar(v) for v in got] if back is not None else "reader raises"})
            compare_tables(ctx, it, {"components": [comp]})


# ----------------------------------------------------------------------------------------
# generators
# ----------------------------------------------------------------------------------------

def gen_vars(rng, n, pool=VAR_POOL):
    out = {}
    for name in rng.sample(pool, min(n, len(pool))):
        out[name] = rng.choice([g_text(rng), g_text(rng), g_word(rng), "", str(rng.randint(0, 99)), rng.randint(0, 99),
                                g_text(rng), g_word(rng), rng.choice(SPECIAL_FLOATS), g_decimals(rng), rng.choice(BIG_INTS),
                                g_number_text(rng)])
    return out


# names that Dosini.options_for_backend lists for some backend but that are NOT legacy keys (today: the simulator's
# sim_range_schedule_overhead / sim_range_execution_time / sim_expected_exit_code): for writer and reader they are
# ordinary component variables - the simulator backend is parametrised through them.  Filled in by run()/replay() from
# the generated tables.
BACKEND_ONLY_NAMES = []


def backend_of(c):
    for p, v in c["opts"]:
        if p == ["resourceManager", "config", "backend"]:
            return v
    return None


def add_backend_named_vars(rng, c, force=False):
    """component variables named like options of a backend: mostly on components of that kind of backend (simulator),
    sometimes on any other component (same names, different role)"""
    if not BACKEND_ONLY_NAMES:
        return
    p = 0.75 if backend_of(c) == "simulator" else 0.12
    if force or rng.random() < p:
        for n in rng.sample(BACKEND_ONLY_NAMES, rng.randint(1, len(BACKEND_ONLY_NAMES))):
            c.setdefault("vars", {})[n] = rng.choice(["0", "1", "5:10", "0.5:2.5", str(rng.randint(0, 255)), "%(gInt)s"])


def pick_env_names(rng):
    """three environment names that differ by more than case (the format stores them upper-cased)"""
    names = []
    while len(names) < 3:
        n = rng.choice(ENV_NAME_POOL)
        if n.lower() not in [m.lower() for m in names]:
            names.append(n)
    return names


def use_env_names(spec, names, rng):
    """command.environment options refer to environments the workflow defines"""
    def fix(pairs):
        for pv in pairs:
            if pv[0] == ["command", "environment"]:
                pv[1] = rng.choice(names)
    for c in spec["comps"]:
        fix(c["opts"])
    for key in ("bp_global", "pbp_global"):
        fix(spec.get(key, []))
    for v in spec.get("bp_stage", {}).values():
        fix(v)


def unique_name(rng, pool, used):
    base = rng.choice(pool)
    name = base if base not in used else "%s%d" % (base, len(used))
    while name in used:
        name += "x"
    used.add(name)
    return name


def gen_envs(rng, names=None):
    envs = {}
    for name in (names or ENV_NAMES):
        env = {}
        for k in rng.sample(ENV_VARS, rng.randint(1, 4)):
            env[k] = rng.choice(["/opt/%s/bin:$PATH" % g_word(rng), "%(gStr)s/lib", str(rng.randint(1, 64)), g_text(rng),
                                 "PATH:LD_LIBRARY_PATH", "", "/opt/%s/lib" % g_word(rng), g_number_text(rng),
                                 rng.choice([rng.choice(SPECIAL_FLOATS), g_decimals(rng), rng.choice(BIG_INTS), rng.randint(1, 64)])])
        envs[name] = env
    return envs


def gen_refs(rng, earlier):
    refs = []
    for (stage, name) in rng.sample(earlier, min(len(earlier), rng.randint(0, 2))):
        refs.append(rng.choice(["stage%d.%s:ref" % (stage, name), "stage%d.%s/out.txt:copy" % (stage, name),
                                "stage%d.%s:output" % (stage, name)]))
    if rng.random() < 0.3:
        refs.append(rng.choice(["input/field.conf:ref", "data/params.yaml:copy"]))
    return refs


def ensure_valid(spec):
    """the legacy reader requires k8s-image for the kubernetes backend: keep the generated workflow valid"""
    def sets_k8s(pairs):
        return any(p == ["resourceManager", "config", "backend"] and v == "kubernetes" for p, v in pairs)
    anywhere = sets_k8s(spec.get("bp_global", [])) or sets_k8s(spec.get("pbp_global", [])) or \
        any(sets_k8s(v) for v in spec.get("bp_stage", {}).values())
    for key in ("bp_global", "pbp_global"):
        if sets_k8s(spec.get(key, [])):
            spec[key].append([["resourceManager", "kubernetes", "image"], "quay.io/org/bp:2"])
    for v in spec.get("bp_stage", {}).values():
        if sets_k8s(v):
            v.append([["resourceManager", "kubernetes", "image"], "quay.io/org/bp:3"])
    for c in spec["comps"]:
        if (anywhere or sets_k8s(c["opts"])) and not any(p == ["resourceManager", "kubernetes", "image"] for p, _ in c["opts"]):
            c["opts"].append([["resourceManager", "kubernetes", "image"], "quay.io/org/img:1"])
    return spec


def gen_spec(rng, all_options=False, backend=None, nstages=None):
    many = nstages is not None
    nstages = nstages or rng.randint(1, 3)
    comps, earlier = [], []
    used_names = set()
    env_names = pick_env_names(rng)
    spec = {"platform": rng.choice(["default", "default", rng.choice(PLATFORM_POOL)]), "mode": rng.choice(["conf", "conf", "test"])}
    if rng.random() < 0.5:
        k = rng.randint(1, 6)
        spec["bp_global"] = [[list(p), g(rng)] for p, g in rng.sample([e for e in CATALOGUE if e[0] in BLUEPRINTABLE], k)]
    if rng.random() < 0.4:
        spec["bp_stage"] = {str(rng.randrange(nstages)): [[list(p), g(rng)] for p, g in
                                                         rng.sample([e for e in CATALOGUE if e[0] in BLUEPRINTABLE], 3)]}
    if spec["platform"] != "default":
        spec["pbp_global"] = [[list(p), g(rng)] for p, g in rng.sample([e for e in CATALOGUE if e[0] in BLUEPRINTABLE], 3)]
        spec["pgvars"] = gen_vars(rng, 2)
        if rng.random() < 0.5:
            spec["pgvars"]["gInt"] = "6"
        spec["psvars"] = {str(rng.randrange(nstages)): gen_vars(rng, 2)}
        spec["penvs"] = {rng.choice(env_names): {"PATH": "/plat/bin:$PATH", "PLAT_ONLY": g_word(rng)}}
    for stage in range(nstages):
        for i in range(1 if many and stage not in (0, nstages - 1) else rng.randint(1, 3)):
            name = unique_name(rng, COMP_NAME_POOL, used_names)
            if all_options and stage == 0 and i == 0:
                chosen = list(CATALOGUE)
            else:
                chosen = rng.sample(CATALOGUE, rng.randint(0, 9))
            opts = [[list(p), g(rng)] for p, g in chosen]
            if backend and all_options and stage == 0 and i == 0:
                opts = [[p, (backend if p == ["resourceManager", "config", "backend"] else v)] for p, v in opts]
            c = {"name": name, "stage": stage, "opts": opts, "refs": gen_refs(rng, earlier) if rng.random() < 0.8 else None,
                 "vars": gen_vars(rng, rng.randint(0, 3))}
            add_backend_named_vars(rng, c)
            if rng.random() < 0.08 and not all_options:
                c["interpreter"] = rng.choice(["bash", "javascript", "cwl"])
                c["iargs"] = rng.choice(["echo hi", "1+1", "run.sh -v x"])
            comps.append(c)
            earlier.append((stage, name))
    spec["comps"] = comps
    ensure_valid(spec)
    use_env_names(spec, env_names, rng)
    spec["gvars"] = gen_vars(rng, rng.randint(0, 4))
    spec["svars"] = {str(s): gen_vars(rng, rng.randint(1, 3)) for s in range(nstages) if rng.random() < 0.6}
    spec["envs"] = gen_envs(rng, env_names)
    if rng.random() < 0.85:
        fam, ws = gen_weights(rng, nstages)
        spec["weights"] = fam
        st = {}
        for s in range(nstages):
            sec = {} if ws[s] is None else {"stage-weight": ws[s]}
            if rng.random() < 0.5:
                sec.update(gen_status_exe(rng, earlier))
                if rng.random() < 0.4:
                    del sec["references"]
            st[str(s)] = sec
        spec["status"] = st
    if rng.random() < 0.7:
        out = {}
        for oname in rng.sample(OUTPUT_NAME_POOL, rng.randint(1, 2)):
            s, n = rng.choice(earlier)
            sec = {"data-in": "stage%d.%s/out.csv:%s" % (s, n, rng.choice(["ref", "copy"]))}
            if rng.random() < 0.7:
                sec["description"] = rng.choice([g_text(rng, refs=False), g_text(rng, refs=False), g_number_text(rng)])
            if rng.random() < 0.7:
                sec["type"] = rng.choice(["csv", "xyz", "text", "csv", "xyz", g_number_text(rng)])
            if rng.random() < 0.7:
                sec["stages"] = sorted(rng.sample(range(nstages), rng.randint(1, nstages)))
            out[oname] = sec
        spec["output"] = out
    if rng.random() < 0.4:
        spec["appdeps"] = [rng.choice(APPDEP_POOL + ["%s.application" % g_word(rng)]) for _ in range(rng.randint(1, 2))]
    if rng.random() < 0.3:
        spec["venvs"] = [rng.choice(VENV_POOL + [g_word(rng)])]
    return spec


def gen_replication_spec(rng):
    """structurally valid replication: source -> replicated (-> replicated) -> aggregating -> plain"""
    n = rng.randint(2, 4)
    comps = [
        {"name": "Source", "stage": 0, "opts": [[["command", "arguments"], "-n %(gInt)s"]], "refs": [], "vars": gen_vars(rng, 1)},
        {"name": "Work", "stage": 0, "refs": ["stage0.Source:ref"], "vars": gen_vars(rng, 2),
         "opts": [[["workflowAttributes", "replicate"], n],
                  [["command", "arguments"], "Source:ref -r %(replica)s"]]
                 + [[list(p), g(rng)] for p, g in rng.sample(
                     [e for e in CATALOGUE if e[0][-1] not in ("replicate", "aggregate", "arguments")], rng.randint(0, 6))]},
        {"name": "Post", "stage": 1, "refs": ["stage0.Work/out.txt:copy"], "vars": {},
         "opts": [[["command", "arguments"], "out.txt %(replica)s"]]
                 + [[list(p), g(rng)] for p, g in rng.sample(
                     [e for e in CATALOGUE if e[0][-1] not in ("replicate", "aggregate", "arguments")], rng.randint(0, 4))]},
        {"name": "Gather", "stage": 1, "refs": ["stage1.Post:ref"], "vars": gen_vars(rng, 1),
         "opts": [[["workflowAttributes", "aggregate"], True], [["command", "arguments"], "Post:ref"]]},
        {"name": "Final", "stage": 2, "refs": ["stage1.Gather:output"], "vars": {},
         "opts": [[["command", "arguments"], "Gather:output"]]},
    ]
    for c in comps:     # FlowIRConcrete.replicate() converts types before variables are resolved: no bare references here
        c["opts"] = [[p, v] for p, v in c["opts"] if not (isinstance(v, str) and v.startswith("%(") and v.endswith(")s"))]
    names = pick_env_names(rng)
    spec = ensure_valid({"platform": "default", "mode": rng.choice(["conf", "test"]), "comps": comps, "replicate": True,
                         "gvars": gen_vars(rng, 2), "svars": {"1": gen_vars(rng, 1)}, "envs": gen_envs(rng, names)})
    use_env_names(spec, names, rng)
    return spec


def truncate_spec(spec, m):
    """the same workflow without its stages >= m (the user dropped the last stages)"""
    t = copy.deepcopy(spec)
    t["comps"] = [c for c in t["comps"] if c["stage"] < m]
    for key in ("svars", "psvars", "bp_stage"):
        if key in t:
            t[key] = {k: v for k, v in t[key].items() if int(k) < m}
    for key in ("status", "output", "weights"):
        t.pop(key, None)
    return t


def gen_history(rng, quick=True, big=False):
    """2-3 descriptions written into one configuration directory: a workflow and shorter / longer / other versions of it"""
    files = rng.choice(["instance", "instance", "package", "both"])
    big = big or ((not quick) and rng.random() < 0.15)
    n0 = rng.choice([11, 12]) if big else rng.randint(2, 4)
    first = gen_spec(rng, nstages=n0)
    specs = [first]
    for _ in range(rng.choice([1, 1, 2])):
        prev = specs[-1]
        nprev = 1 + max(c["stage"] for c in prev["comps"])
        kind = rng.random()
        if kind < 0.45 and nprev > 1:
            specs.append(truncate_spec(prev, rng.randint(1, nprev - 1)))        # the last stages dropped
        elif kind < 0.8:
            specs.append(gen_spec(rng, nstages=rng.randint(1, max(1, nprev - 1))))    # another, shorter workflow
        else:
            specs.append(gen_spec(rng, nstages=nprev + rng.randint(0, 2)))      # another workflow, as long or longer
    if files != "instance":
        for sp in specs:
            sp["platform"] = "default"
            for key in ("pbp_global", "pgvars", "psvars", "penvs"):
                sp.pop(key, None)
    return {"files": files, "specs": specs}


def run_history(ctx, hist, workdir, tags=()):
    res = history_roundtrip(hist, workdir)
    counts = [1 + max(c["stage"] for c in sp["comps"]) for sp in hist["specs"]]
    t = list(tags) + ["history", "history-files:" + hist["files"], "history-writes:%d" % len(counts)]
    for a, b in zip(counts, counts[1:]):
        t.append("history-step:" + ("fewer-stages" if b < a else ("same-number-of-stages" if a == b else "more-stages")))
    if "invalid" in res:
        ctx.case(hist, nontrivial=False, tags=t + ["invalid-generated-description"])
        return res
    res["written"].pop("inst", None)
    fails = []
    if "error" in res:
        fails.append((res["error"], {"message": res.get("message"), "history_stages": counts}))
    else:
        files = "instance" if res["flavours"][-1] else "package"
        seen = set()
        for slug, detail in _oracle_one(res["written"], res["loaded"], files):
            if slug not in seen:        # one per slug: the detail carries the history
                seen.add(slug)
                fails.append((slug, dict(detail, history_stages=counts, history_flavours=res["flavours"],
                                         stage_files=res["listings"][-1])))
    t.append("oracle:" + ("fail" if fails else "ok"))
    ctx.case(hist, nontrivial="error" not in res, tags=sorted(set(t)))
    for slug, detail in fails:
        ctx.fail(slug, hist, detail)
    # the directory model (Model/IniDir.lean): stage files of both flavours after every write, what the load discovers
    m = ctx.model([{"op": "dir_history", "history": [{"instance": fl, "stages": list(range(n))}
                                                      for fl, n in zip(res["flavours"], counts)]}])
    if m is not None:
        label = {"history_stages": counts, "flavours": res["flavours"], "files": hist["files"]}
        ctx.compare("stage files in stages.d after every write == IniDir.dump history", label,
                    [{"inst": sorted(a["inst"]), "pkg": sorted(a["pkg"])} for a in m[0]["after"]], res["listings"])
        if "loaded" in res:
            found = m[0]["discover_inst"] if res["flavours"][-1] else m[0]["discover_pkg"]
            ctx.compare("stages of the loaded description == IniDir.discover", label, found,
                        sorted({int(k.split(".")[0][5:]) for k in res["loaded"]["comps"]}))
    return res


# ----------------------------------------------------------------------------------------
# executors: every subset of the executor kinds the legacy format has a key for
# ----------------------------------------------------------------------------------------

EXECUTOR_FIELDS = [("executors", "pre", "lsf-dm-in", "payload"), ("executors", "post", "lsf-dm-out", "payload"),
                   ("executors", "main", "docker", "docker-image"), ("executors", "main", "docker", "docker-args")]
EXECUTOR_SHORT = {"lsf-dm-in": "stage-in", "lsf-dm-out": "stage-out", "docker-image": "docker-image", "docker-args": "docker-args"}


def g_payload(rng):
    return rng.choice(["all", "input/data.csv:copy", "data/a.xyz data/b.xyz", "%(gStr)s/file.txt", "out-*.csv", g_text(rng),
                       g_word(rng), g_number_text(rng)])


def executor_subset_tag(opts):
    kinds = sorted(EXECUTOR_SHORT[p[3] if p[2] == "docker" else p[2]] for p, _ in opts if p[0] == "executors")
    return "executors:" + ("+".join(kinds) if kinds else "none")


def gen_executor_spec(rng, fields=None, mode=None, plain=False):
    """one workflow whose components carry EVERY subset of `fields` (default: the 4 executor fields of the format: stage-in
    without stage-out, stage-out without stage-in, both, none, with and without the docker executor and each of its
    options): 2**len(fields) components over 2 stages, payloads of every kind, backends and a few other options at random
    (plain: lsf components with nothing else)."""
    fields = list(fields or EXECUTOR_FIELDS)
    masks = list(range(2 ** len(fields)))
    rng.shuffle(masks)
    comps, earlier, used = [], [], set()
    names = pick_env_names(rng)
    for n, mask in enumerate(masks):
        stage = 0 if n < (len(masks) + 1) // 2 else 1
        opts = []
        for i, f in enumerate(fields):
            if mask >> i & 1:
                opts.append([list(f), g_payload(rng) if f[3] == "payload" else (g_word(rng) if f[3] == "docker-image" else g_text(rng))])
        if plain:
            opts += [[["resourceManager", "config", "backend"], "lsf"], [["resourceManager", "lsf", "queue"], "normal"]]
        else:
            opts.append([["resourceManager", "config", "backend"], rng.choice(["lsf", "lsf", "local", "docker", "simulator"])])
            others = [e for e in CATALOGUE if e[0][0] != "executors" and e[0] != ("resourceManager", "config", "backend")]
            opts += [[list(p), g(rng)] for p, g in rng.sample(others, rng.randint(0, 3))]
        rng.shuffle(opts)
        name = "E%d" % mask if plain else unique_name(rng, COMP_NAME_POOL, used)
        comps.append({"name": name, "stage": stage, "opts": opts, "refs": [] if plain else gen_refs(rng, earlier),
                      "vars": {} if plain else gen_vars(rng, rng.randint(0, 2))})
        earlier.append((stage, name))
    spec = ensure_valid({"platform": "default", "mode": mode or rng.choice(["conf", "test"]), "comps": comps,
                         "gvars": gen_vars(rng, 1), "envs": gen_envs(rng, names)})
    use_env_names(spec, names, rng)
    return spec


def conf_roundtrip(spec, workdir):
    """the same round trip through experiment.model.conf: the package files of the description (written by the real
    Dosini.dump(is_instance=False)) are loaded by ExperimentConfigurationFactory.configurationForExperiment(...,
    createInstanceFiles=True, updateInstanceFiles=True), which writes the instance files (DOSINIExperimentConfiguration);
    then the instance files are loaded by configurationForExperiment(..., is_instance=True).
    -> dict(written=..., loaded=...) of canonical observations | dict(invalid=...) | dict(written=..., error=...)"""
    F, D = _imports()
    import experiment.model.conf as C
    root = tempfile.mkdtemp(prefix="conf-", dir=workdir)
    try:
        try:
            inst = make_instance(spec)
            os.makedirs(os.path.join(root, "conf"))
            D.Dosini().dump(copy.deepcopy(inst), os.path.join(root, "conf"), update_existing=True, is_instance=False)
            first = C.ExperimentConfigurationFactory.configurationForExperiment(
                root, createInstanceFiles=True, updateInstanceFiles=True, primitive=True, validate=False)
            c1 = first.get_flowir_concrete(return_copy=True)
            written = observe_written(c1.instance(ignore_errors=True, inject_missing_fields=False, fill_in_all=False,
                                                  is_primitive=True), {})
            written.pop("inst", None)
        except Exception as exc:    # the package itself could not be set up / loaded: not a test of the round trip
            return {"invalid": "%s: %s" % (type(exc).__name__, str(exc)[:300])}
        res = {"written": written}
        try:
            chosen = {}
            second = C.ExperimentConfigurationFactory.configurationForExperiment(
                root, is_instance=True, createInstanceFiles=False, primitive=True, validate=False, out_chosen_format=chosen)
            if chosen.get("format") != "dosini" or chosen.get("is-instance") is not True:
                res.update({"error": "conf:instance-files-not-found-after-they-were-written", "message": repr(chosen)[:300]})
                return res
            c2 = second.get_flowir_concrete(return_copy=True)
            loaded = observe_written(c2.instance(ignore_errors=True, inject_missing_fields=False, fill_in_all=False,
                                                 is_primitive=True), {})
            loaded.pop("inst", None)
            loaded["load_errors"] = []
            res["loaded"] = loaded
        except Exception as exc:
            res.update({"error": "conf:reload-raises:" + type(exc).__name__, "message": str(exc)[:300]})
        return res
    finally:
        shutil.rmtree(root, ignore_errors=True)


def run_conf_case(ctx, spec, workdir, tags=()):
    case = {"via": "conf", "spec": spec}
    res = conf_roundtrip(spec, workdir)
    t = list(tags) + ["via:experiment.model.conf"] + sorted({executor_subset_tag(c["opts"]) for c in spec["comps"]})
    if "invalid" in res:
        ctx.case(case, nontrivial=False, tags=t + ["invalid-generated-description"])
        ctx.extra.setdefault("invalid_examples", [])
        if len(ctx.extra["invalid_examples"]) < 3:
            ctx.extra["invalid_examples"].append("conf: " + res["invalid"])
        return res
    if "error" in res:
        fails = [(res["error"], {"message": res.get("message")})]
    else:
        fails, seen = [], set()
        for slug, detail in _oracle_one(res["written"], res["loaded"], "instance files written by experiment.model.conf"):
            if slug not in seen:
                seen.add(slug)
                fails.append((slug, detail))
    ctx.case(case, nontrivial="error" not in res, tags=sorted(set(t + ["oracle:" + ("fail" if fails else "ok")])))
    for slug, detail in fails:
        ctx.fail(slug, case, detail)
    return res


CORPUS = [
    # (1) max-restarts is written but parsed under the name maxRestarts (fix: fixes/C19-max-restarts-key.diff)
    {"platform": "default", "mode": "conf", "comps": [
        {"name": "a", "stage": 0, "opts": [[["workflowAttributes", "maxRestarts"], 4]], "refs": [], "vars": {}}]},
    # (2) a variable reference in a boolean option is lower-cased by the writer (fix: fixes/C19-bool-varref-lowercased.diff)
    {"platform": "default", "mode": "conf", "comps": [
        {"name": "a", "stage": 0, "opts": [[["command", "resolvePath"], "%(GBool)s"]], "refs": [], "vars": {}}]},
    # (3) explicitly empty restartHookOn (known finding)
    {"platform": "default", "mode": "conf", "comps": [
        {"name": "a", "stage": 0, "opts": [[["workflowAttributes", "restartHookOn"], []]], "refs": [], "vars": {}}]},
]


# ----------------------------------------------------------------------------------------
# run
# ----------------------------------------------------------------------------------------

def run_case(ctx, spec, workdir, tags=()):
    res = roundtrip(spec, workdir)
    nopts = sum(len(c["opts"]) for c in spec["comps"])
    if "invalid" in res:
        ctx.case(spec, nontrivial=False, tags=list(tags) + ["invalid-generated-description"])
        ctx.extra.setdefault("invalid_examples", [])
        if len(ctx.extra["invalid_examples"]) < 3:
            ctx.extra["invalid_examples"].append(res["invalid"])
        return res
    inst = res["written"].pop("inst")
    t = ["platform:" + spec.get("platform", "default"), "mode:" + spec.get("mode", "conf")] + list(tags)
    for c in spec["comps"]:
        t.append(executor_subset_tag(c["opts"]))
        for p, v in c["opts"]:
            t.append("opt:" + ".".join(p))
            if isinstance(v, str) and v.startswith("%(") and tuple(p) in CAT_PATHS and p[0] != "command" or \
                    (p == ["command", "resolvePath"] and isinstance(v, str)):
                t.append("typed-option-holds-variable-reference")
    for k in ("bp_global", "bp_stage", "pbp_global", "status", "output", "appdeps", "venvs", "replicate"):
        if spec.get(k):
            t.append("has:" + k)
    if spec.get("weights"):
        t.append("weights:" + str(spec["weights"]).split(":")[0])
    if "package" in res:
        t.append("files:package" + (":error" if "error" in res["package"] else ""))
    for sec in (res.get("written", {}).get("status") or {}).values():
        w = sec.get("stage-weight")
        if isinstance(w, str) and "." in w and "e" not in w:
            t.append("written-weight-fraction-digits:%d" % min(len(w.split(".")[1]), 17))
        elif isinstance(w, str) and "e" in w:
            t.append("written-weight-exponent-notation")
    fails = oracle(res) if "written" in res else []
    if res.get("loaded", {}).get("load_errors"):
        t.append("reader-collected-diagnostics")
    t.append("oracle:" + ("fail" if fails else "ok"))
    ctx.case(spec, nontrivial=(nopts >= 1 and "error" not in res), tags=sorted(set(t)))
    for slug, detail in fails:
        ctx.fail(slug, spec, detail)
    compare_tables(ctx, spec, inst)
    return res


def early_specs(rng, n):
    """ordinary generated workflows + two whose components carry variables named like options of a backend: one on a
    component of another backend, one on a component of that backend"""
    specs = [gen_spec(rng) for _ in range(n)]
    for backend in ("local", "simulator"):
        sp = gen_spec(rng, nstages=2)
        for c in sp["comps"]:
            c["opts"] = [[p, v] for p, v in c["opts"] if p != ["resourceManager", "config", "backend"]]
            c["opts"].append([["resourceManager", "config", "backend"], backend])
            add_backend_named_vars(rng, c, force=True)
        specs.insert(0 if backend == "local" else len(specs), ensure_valid(sp))
    return specs


def canon_result(res):
    """what a second reading of the same case must reproduce"""
    keep = {k: res.get(k) for k in ("invalid", "error", "written", "loaded")}
    if isinstance(keep.get("written"), dict):
        keep["written"] = {k: v for k, v in keep["written"].items() if k != "inst"}
    pkg = res.get("package")
    if pkg is not None:
        keep["package"] = {k: pkg.get(k) for k in ("error", "loaded")}
    return json.loads(json.dumps(keep, sort_keys=True, default=str))


def first_difference(a, b, path=""):
    if isinstance(a, dict) and isinstance(b, dict):
        for k in sorted(set(a) | set(b)):
            if a.get(k) != b.get(k):
                return first_difference(a.get(k), b.get(k), path + "/" + str(k))
    return {"where": path, "first_reading": a, "second_reading": b}


def make_shrinker(workdir0):
    # finish() calls the shrinker after run() has removed its scratch directory: the shrinker makes its own
    state = {"dir": workdir0}

    class _Dir(object):
        def __fspath__(self):
            if not os.path.isdir(state["dir"]):
                state["dir"] = tempfile.mkdtemp(prefix="c19-shrink-")
            return state["dir"]
    workdir = _Dir()

    def fails_with(what, spec):
        res = roundtrip(spec, workdir)
        if "invalid" in res:
            return False
        res["written"].pop("inst", None)
        return any(slug == what for slug, _ in oracle(res))

    def conf_fails_with(what, spec):
        res = conf_roundtrip(spec, workdir)
        if "invalid" in res:
            return False
        if "error" in res:
            return res["error"] == what
        return any(slug == what for slug, _ in _oracle_one(res["written"], res["loaded"], "conf"))

    def shrink(what, spec):
        logging.disable(logging.CRITICAL)
        try:
            return shrink_(what, spec)
        finally:
            logging.disable(logging.NOTSET)
            if state["dir"] != workdir0:
                shutil.rmtree(state["dir"], ignore_errors=True)

    def shrink_(what, spec):
        if spec.get("via") == "conf" and "spec" in spec:
            inner = copy.deepcopy(spec["spec"])
            inner["comps"] = shrink_list(inner["comps"], lambda cs: bool(cs) and conf_fails_with(what, dict(inner, comps=cs)), 40)
            for i, c in enumerate(list(inner["comps"])):
                def with_opts(opts, i=i, c=c):
                    cs = list(inner["comps"])
                    cs[i] = dict(c, opts=opts)
                    return dict(inner, comps=cs)
                inner["comps"][i] = dict(c, opts=shrink_list(c["opts"], lambda o: conf_fails_with(what, with_opts(o)), 30))
            return {"via": "conf", "spec": inner} if conf_fails_with(what, inner) else None
        if "comps" not in spec:
            return None
        spec = copy.deepcopy(spec)
        for key in ("status", "output", "appdeps", "venvs", "bp_stage", "bp_global", "pbp_global", "svars", "gvars",
                    "psvars", "pgvars", "penvs", "envs"):
            if key in spec:
                cand = {k: v for k, v in spec.items() if k != key}
                if fails_with(what, cand):
                    spec = cand
        spec["comps"] = shrink_list(spec["comps"], lambda cs: bool(cs) and fails_with(what, dict(spec, comps=cs)), 60)
        for i, c in enumerate(spec["comps"]):
            def with_opts(opts, i=i, c=c):
                cs = list(spec["comps"])
                cs[i] = dict(c, opts=opts)
                return dict(spec, comps=cs)
            c2 = dict(c, opts=shrink_list(c["opts"], lambda o: fails_with(what, with_opts(o)), 60))
            for k in ("vars", "refs"):
                cand = dict(c2)
                cand[k] = {} if k == "vars" else []
                cs = list(spec["comps"])
                cs[i] = cand
                if fails_with(what, dict(spec, comps=cs)):
                    c2 = cand
            spec["comps"][i] = c2
        if len(spec.get("envs", {})) > 1:       # one environment is enough when the component options allow it
            for name in sorted(spec["envs"]):
                cand = dict(spec, envs={name: spec["envs"][name]})
                if fails_with(what, cand):
                    spec = cand
                    break
        return spec if fails_with(what, spec) else None
    return shrink


def run(ctx):
    logging.disable(logging.CRITICAL)
    t = gen_c19.tables_safe()
    ctx.rule = ("case = one generated workflow (1-3 stages, 1-9 components; options drawn type-directed from the 47-entry "
                "catalogue of every FlowIR component option that has a legacy key, for backends local/lsf/kubernetes/docker/"
                "simulator; global/stage/platform/component variables; default/stage/platform blueprints; environments; "
                "status and output sections; replication chains) -> FlowIRConcrete.instance() -> Dosini.dump(is_instance) "
                "-> Dosini.load_from_directory(is_instance) -> per-component resolved configuration, environments, status, "
                "output compared. The first cases of every run set EVERY catalogue option at once (one per backend). "
                "Names of environments, components, variables, environment variables, outputs, platforms, application "
                "dependencies and virtual environments are drawn from pools that stress the delimiters of the section/"
                "key/file-name syntax ('-' '_' '.' digits, mixed case, leading/trailing/repeated delimiters, names "
                "containing ENV-, stage<i>, DEFAULT, environment); workflows with 11-12 stages (10-101 thorough) exercise "
                "multi-digit STAGE<i> sections, stage<i>.instance.conf files and stages lists. Name probes: every "
                "encode/decode pair for names (environment section, status stage section, stages list of an output, "
                "stage files) is driven real writer -> real reader on ~110 systematic + 40 random names (400 thorough) "
                "and stage indices 0-12, 19, 20, 99-101, 123, 1000, 4096 and compared with Model/IniNames. "
                "Numbers: stage weights are drawn from families (percent; proper sums with 1-9 decimals; binary fractions; "
                "1/n; exponent notation; 0.1+0.2-like long reprs; the thousandths FlowIR assigns itself; improper sums and "
                "missing weights; integers), float options / variables / environment values / description texts include "
                "3-17 fraction digits, exponent notation, integers-as-floats, the ends of the float range and integers beyond "
                "2**53. Number probes: every special float + floats with 1..17 fraction digits + random magnitudes as the "
                "stage weight of a bare status section (real _dump_status -> status.conf -> real parse_status; oracle: the "
                "same float, exactly), whole status sections with status scripts, the reader alone on %d texts, every float "
                "and int option of a component with such values (real writer -> real reader), all compared with "
                "Model/IniFloat (text on disk = printWeight, literal read back = parseWeight). Workflows of the default "
                "platform are additionally written as the package file set (Dosini.dump(is_instance=False), which "
                "writes status.conf/output.conf itself) and loaded with load_from_directory(is_instance=False). "
                "Component variables named like options of a backend that are not legacy keys (generated table: "
                "options_for_backend minus known keys) are drawn for 75%% of the simulator components and 12%% of the others. "
                "Executors: 2 (12 thorough) workflows of 16 components carrying every subset of the 4 executor fields of the "
                "format (lsf-dm-in payload, lsf-dm-out payload, docker image, docker arguments; payloads 'all', paths, "
                "variable references, free text) with random backends and other options, written as instance and package "
                "files, + 4 (21 thorough) such workflows (4 or 16 components) taken through experiment.model.conf: package "
                "files -> configurationForExperiment(createInstanceFiles=True) -> configurationForExperiment(is_instance=True). "
                "Histories: 25 (250 thorough) sequences of 2-3 descriptions written into one configuration directory "
                "(instance files / package files / alternating; the next description = the previous one without its last "
                "stages, another shorter workflow, or a longer one), the flavour written last is loaded and compared with "
                "the description written last. The first 8 (26 thorough) cases of the run are read again at its end in "
                "reverse order and must give identical answers. "
                "non-trivial = at least one explicitly set option and dump+reload completed; distinct by canonical JSON of "
                "the case. Every component of every instance additionally goes through the real writer/reader and the Lean "
                "model's dumpSection/parseSection; the reader is probed with %d texts for every known key."
                % (len(WEIGHT_TEXTS), len(PROBE_TEXTS)))
    ctx.assumptions = [
        "safe-string class (configparser trusted on it; found by experiment): printable ASCII text without line breaks, "
        "without leading/trailing white space, '%' only as %(name)s; keys/variable names non-empty, without '=' ':' and not "
        "starting with '#' ';' '['; section/component names without ']' and different from DEFAULT/META in any letter case "
        "(the reader folds such sections into the defaults); environment names differ by more than letter case and are "
        "not SANDBOX (the format stores them upper-cased and reserves SANDBOX)",
        "variable values are compared as text (the legacy format stores text; variables are only interpolated into text); "
        "numbers are compared by value and exactly (33 == 33.0; integers as integers, other floats by their repr, never "
        "approximately); an absent key and an empty list/None are the same in status/output sections",
        "options without a legacy key are outside 'expressible in the legacy format' and never generated: "
        "resourceManager.docker.{image,imagePullPolicy,platform}, resourceManager.kubernetes.{qos,podSpec}, "
        "resourceRequest.gpus, workflowAttributes.isMigrated (isRepeat is derived from repeatInterval, command.interpreter "
        "has a key); variable names equal to a legacy key are not expressible either (the writer asserts)",
        "status sections carry arguments/references only together with an executable (the reader ignores them otherwise)",
        "floats: CPython float(repr(x)) == x is trusted; the model treats a float as its decimal literal (sign, integer "
        "digits, fraction digits, exponent); finite numbers only (no inf/nan), float() is modelled on decimal literals "
        "without surrounding white space and without '_'; -0.0 is not generated",
        "histories: status.conf / output.conf of an instance directory are package files which Dosini.dump(is_instance=True) "
        "does not write; the harness replaces them by those of the description being written at every step",
        "the package file set is written only for descriptions whose platform list is ['default'] (Dosini._dump_platforms "
        "addresses the per-platform sections of every listed platform, which an instance description no longer has)",
    ]
    ctx.trusted.append("C19: configparser read/write on the safe-string class; FlowIRConcrete layering (C04) and "
                       "FlowIR.compress_flowir; CPython float repr round trip; harness flattening of components to (path, value) pairs")
    ctx.classifiers = CLASSIFIERS
    ctx.extra["tables"] = {"dump_entries": len(t["dump"]), "parse_entries": len(t["parse"]), "known_keys": len(t["known"]),
                           "option_paths": len(t["options"])}
    # the catalogue must cover the dump table exactly (every option of every backend that has a legacy key)
    dump_paths = {tuple(p) for p, _, _ in t["dump"]} | {tuple(pp) + (k,) for pp in t["passthrough"] for k in ("docker-image", "docker-args")}
    cat = set(CAT_PATHS) | {("references",), ("command", "interpreter")}
    if t["errors"]:
        # the tables could not be read off the source: the generated Lean file is a build error (pin theorems and model
        # no longer check; reported by finish() unless the search below finds a concrete failing input)
        ctx.compare("translation tables of the legacy front-end can be extracted from the source", {"check": "extraction"},
                    [], t["errors"])
        ctx.extra["table_extraction_errors"] = t["errors"]
    else:
        ctx.compare("generator catalogue == paths of the generated dump table", {"check": "catalogue"},
                    sorted(map(list, dump_paths)), sorted(map(list, cat)))
        unknown = sorted(".".join(p) + " -> " + k for p, k, pr in t["dump"] if pr == "unknown")
        ctx.compare("every writer of the dump table is a recognised per-option printer", {"check": "printers"}, [], unknown)
    rng = ctx.rng
    quick = ctx.tier == "quick"
    workdir = tempfile.mkdtemp(prefix="c19-")
    ctx.shrinker = make_shrinker(workdir)
    cwd = os.getcwd()
    BACKEND_ONLY_NAMES[:] = t["backend_only"]
    ctx.extra["tables"]["backend_option_names_that_are_not_legacy_keys"] = list(BACKEND_ONLY_NAMES)
    try:
        # family: state shared by the loads of one process (class attributes, cached lists).  These cases are the FIRST
        # thing the process reads and are read again at the very end, in reverse order, after every other case (all
        # backends, all option keys, the same component / variable / environment names in other roles): same answers.
        early = []
        for spec in early_specs(rng, 6 if quick else 24):
            res = run_case(ctx, spec, workdir, tags=["read-first-and-again-last"])
            early.append((spec, canon_result(res)))
        # executors: every subset of the executor kinds of the format on the components of one workflow (instance files,
        # package files, and through experiment.model.conf)
        for k in range(2 if quick else 12):
            spec = gen_executor_spec(rng, mode=["conf", "test"][k % 2])
            res = run_case(ctx, spec, workdir, tags=["executor-subsets"])
            if k == 0:
                early.append((spec, canon_result(res)))
        run_conf_case(ctx, gen_executor_spec(rng, fields=EXECUTOR_FIELDS[:2], plain=True), workdir, tags=["executor-subsets"])
        for k in range(3 if quick else 20):
            run_conf_case(ctx, gen_executor_spec(rng, fields=EXECUTOR_FIELDS if k % 2 else EXECUTOR_FIELDS[:2]), workdir,
                          tags=["executor-subsets"])
        probe_parse_side(ctx, t)
        probe_names(ctx, workdir)
        probe_numbers(ctx, workdir)
        for spec in CORPUS:
            run_case(ctx, copy.deepcopy(spec), workdir, tags=["corpus"])
        corpus_dir = os.path.join(os.path.dirname(os.path.dirname(os.path.abspath(__file__))), "corpus", "C19")
        if os.path.isdir(corpus_dir):
            for fn in sorted(os.listdir(corpus_dir)):
                if fn.endswith(".json"):
                    run_case(ctx, json.load(open(os.path.join(corpus_dir, fn))), workdir, tags=["corpus"])
        for backend in ("local", "lsf", "kubernetes", "docker", "simulator"):
            for _ in range(1 if quick else 4):
                run_case(ctx, gen_spec(rng, all_options=True, backend=backend), workdir, tags=["all-options", "backend:" + backend])
        for _ in range(120 if quick else 1500):
            run_case(ctx, gen_spec(rng), workdir, tags=["random"])
        # stage indices with more than one digit (STAGE10, stage11.instance.conf, stages = stage2,stage10)
        for n in ([11, 12] if quick else [10, 11, 12, 13, 21, 101]):
            run_case(ctx, gen_spec(rng, nstages=n), workdir, tags=["many-stages"])
        for _ in range(15 if quick else 150):
            run_case(ctx, gen_replication_spec(rng), workdir, tags=["replication"])
        # histories on one configuration directory
        run_history(ctx, gen_history(rng, quick, big=True), workdir)     # 11-12 stages, then fewer
        for _ in range(24 if quick else 250):
            run_history(ctx, gen_history(rng, quick), workdir)
        for spec, first in reversed(early):
            res = roundtrip(copy.deepcopy(spec), workdir)
            if "written" in res:
                res["written"].pop("inst", None)
            ctx.tag("read-again-last")
            second = canon_result(res)
            if second != first:
                ctx.fail("result-depends-on-earlier-cases", spec, first_difference(first, second))
        covered = {k[4:] for k in ctx.tags if k.startswith("opt:")}
        missing = sorted(".".join(p) for p in CAT_PATHS if ".".join(p) not in covered)
        ctx.extra["options_never_generated"] = missing
        if missing:
            ctx.compare("every catalogue option generated at least once", {"check": "coverage"}, [], missing)
    finally:
        os.chdir(cwd)
        shutil.rmtree(workdir, ignore_errors=True)
        logging.disable(logging.NOTSET)


def replay(ctx, doc):
    logging.disable(logging.CRITICAL)
    ctx.classifiers = CLASSIFIERS
    case = doc.get("input")
    if case is None:
        for b in doc.get("no_longer_checks", []):
            if b.get("kind") == "correspondence":
                case = b["input"]
    workdir = tempfile.mkdtemp(prefix="c19-")
    try:
        BACKEND_ONLY_NAMES[:] = gen_c19.tables_safe()["backend_only"]
        ctx.shrinker = make_shrinker(workdir)
        if isinstance(case, dict) and case.get("via") == "conf" and "spec" in case:
            run_conf_case(ctx, case["spec"], workdir, tags=["replay"])
            return
        if isinstance(case, dict) and "spec" in case:
            case = case["spec"]
        if isinstance(case, dict) and "specs" in case and "files" in case:
            run_history(ctx, case, workdir, tags=["replay"])
            return
        if isinstance(case, dict) and case.get("probe") in ("status-weight", "status-section", "status-weight-text", "number-option"):
            probe_numbers(ctx, workdir, only=case)
        elif isinstance(case, dict) and "probe" in case:
            probe_names(ctx, workdir, only=case)
        elif isinstance(case, dict) and "comps" in case:
            run_case(ctx, case, workdir, tags=["replay"])
        elif isinstance(case, dict) and "key" in case:
            probe_parse_side(ctx, gen_c19.tables_safe())
        else:
            run(ctx)
    finally:
        shutil.rmtree(workdir, ignore_errors=True)
